"""C13 — instructions the selected device lacks are rejected; all others are unaffected.

(P) gate table: E1 explores Device::check_operation with the device's flag set symbolic (one boolean per BTreeSet::contains(flag));
    for every Operation variant the returned boolean, as a function of the flags, must equal the conjunction of ¬flag over exactly the
    flags whose instruction set (spec/avr_features.json) contains that operation.
(N) no dead flag: every flag that occurs in some DEVICES row and removes at least one instruction form must be read on the way from
    pass 2 to the end of the encoder; form-specific flags need a reader that sees the operands.
(N) gate before encode: in pass_2_internal the encoder call is dominated by the true edge of the gate, whose false edge reaches only Err.
(P) otherwise unaffected: in the C01 exploration no path other than Lds/Sts reads the device."""
import itertools
import json
import os

import absint
import devices
import encoder as E
import facts as F
import graph as G
import mirutil as MU
import sx
from common import Reporter, loc_of

SPEC = os.path.join(F.VERIF, "spec", "avr_features.json")


def gate_table(P):
    """-> ({op variant: [(conds {flag: bool}, result expr)]}, problems)"""
    key = "device::Device::check_operation"
    M = absint.Machine(P, max_depth=5)
    paths = M.explore(key, M.arg_unknowns(key))
    opad = P.lib.adts["instruction::operation::Operation"]
    by_discr = {int(v["discr"]): v["name"] for v in opad["variants"]}
    problems = []
    table = {}
    flagsym = {}
    for p in paths:
        if p.exit != "ret":
            problems.append("path of check_operation ends with %s" % p.exit)
            continue
        d = p.state.doms.get(sx.S("op*#d", 64, True))
        ops = sorted(sx.dom_iter(sx.dom_norm(d))) if d is not None else sorted(by_discr)
        ret = p.ret
        if ret[0] != 'int':
            problems.append("non-boolean result")
            continue
        conds = {}
        for s, dom in p.state.doms.items():
            if isinstance(s, tuple) and s[0] == 's' and s[1].startswith("contains("):
                flag = s[1].rsplit("DisabledOptions::", 1)[-1].rstrip(")")
                flagsym[s] = flag
                if sx.dom_size(dom) == 1:
                    conds[flag] = bool(sx.dom_min(dom))
        for o in ops:
            table.setdefault(by_discr[o], []).append((conds, ret[1]))
    return table, flagsym, problems, len(paths)


def eval_gate(entries, flagsym, assignment):
    """result of the gate for one op under a full flag assignment {flag: bool}"""
    hits = []
    for conds, expr in entries:
        if all(assignment.get(f, False) == v for f, v in conds.items()):
            env = {s: int(assignment.get(f, False)) for s, f in flagsym.items()}
            hits.append(bool(sx.evaluate(expr, env)))
    return hits


def run(tier):
    rep = Reporter("C13", tier, "proof", "exhaustive table extraction from MIR (abstract interpretation of the gate with symbolic flag set) vs. an independent feature table; dominance in pass 2")
    rep.explanation = ("The device gate is a finite table in code: for each of the 82 operations E1 yields the gate's result as a boolean function "
                       "of the 16 flags, which is compared on every relevant flag assignment with the feature table; dead flags, the position "
                       "of the gate before the encoder and device-independence of the encoder are structural facts on the same MIR.")
    rep.trusted = ["rustc nightly MIR", "spec/avr_features.json", "E1"]
    P = G.Program(F.load("dev"))
    with open(SPEC) as fh:
        spec = json.load(fh)["flags"]
    table, flagsym, problems, npaths = gate_table(P)
    rep.count("paths of check_operation", npaths)
    for pr in problems:
        rep.unprovable("C13.gate|explore", pr)
    opad = P.lib.adts["instruction::operation::Operation"]
    flag_ad = [v["name"] for v in P.lib.adts["device::DisabledOptions"]["variants"]]
    for f in flag_ad:
        if f not in spec:
            rep.unprovable("C13.spec|%s" % f, "feature flag %s is not in the reference table" % f)
    # the other direction: a feature the reference table knows as missing on some cores must have a flag, or no device can be without it
    for f in sorted(spec):
        removes = spec[f].get("ops") or spec[f].get("forms")
        if f not in flag_ad and removes:
            rep.ob("C13.spec-flag|%s" % f, False,
                   "the reference table has the feature %s (removes %s on the cores that lack it), DisabledOptions has no such flag: the instruction "
                   "or form is accepted for every device" % (f, removes))
    allflags = sorted(set(flag_ad) & set(spec))
    nops = 0
    for v in opad["variants"]:
        op = v["name"]
        if op == "Custom":
            continue
        nops += 1
        entries = table.get(op)
        if not entries:
            rep.unprovable("C13.gate|%s" % op, "no path of the gate covers operation %s" % op)
            continue
        expected_flags = sorted(f for f in allflags if op in spec[f]["ops"])
        involved = sorted(set(expected_flags) | {f for c, e in entries for f in c} | {flagsym[s] for c, e in entries for s in sx.syms(e) if s in flagsym})
        bad = None
        n = 0
        for bits in itertools.product([False, True], repeat=len(involved)):
            asg = dict(zip(involved, bits))
            hits = eval_gate(entries, flagsym, asg)
            n += 1
            want = not any(asg[f] for f in expected_flags)
            if len(set(hits)) != 1:
                bad = ("gate result ambiguous / missing under %s" % asg, asg)
                break
            if hits[0] != want:
                on = sorted(f for f in asg if asg[f])
                bad = ("with flags %s the gate %s %s but the feature table says it is %s" % (
                    on or "none", "allows" if hits[0] else "rejects", op.lower(), "available" if want else "missing"), {"flags_set": on})
                break
        rep.ob("C13.gate|%s" % op, bad is None,
               "%s: gate = ¬(%s) on all %d assignments of %s" % (op.lower(), " ∨ ".join(expected_flags) or "false", n, involved or "no flag") if bad is None else
               "%s: %s" % (op.lower(), bad[0]), detail=None if bad is None else bad[1],
               sample={"operation": op, "flags that remove it": expected_flags, "assignments checked": n} if expected_flags else None,
               nontrivial=bool(involved))
    rep.floor("operations in the gate table", nops, 81)

    # ---- dead flags
    rows, dprob = devices.table(P)
    if rows is None:
        rep.unprovable("C13.devices", dprob)
        rows = {}
    used_in_table = set()
    for r in rows.values():
        used_in_table.update(r.get("disable_opts", []))
    rep.count("device rows", len(rows))
    # flags read anywhere between pass_2_internal and the encoder (resolved callees, contains(flag) constants)
    reach = P.reachable(["builder::pass2::pass_2_internal"])
    read_flags = {}
    for k in reach:
        b = P.body[k]
        for bb, t, name, tg in P.call_sites(k):
            full, rp = MU.callee_names(t)
            if rp.endswith("::allow") or "BTreeSet::<T, A>::contains" in rp or rp.endswith("::is_avr8l"):
                # the flag constant: an aggregate DisabledOptions::<V> flowing into the argument
                locs, consts, calls, places = MU.backward_slice(b, t["args"][1:2] if len(t["args"]) > 1 else [])
                for bl in b["blocks"]:
                    for st in bl["stmts"]:
                        if st["k"] == "assign" and st["place"]["local"] in locs and st["rv"]["k"] == "agg" and st["rv"]["kind"].get("path") == "device::DisabledOptions":
                            read_flags.setdefault(st["rv"]["kind"]["vname"], set()).add(k)
                for c in consts:
                    if "promoted" in c:
                        pb = P.body.get(c["promoted"])
                        if pb:
                            for bl in pb["blocks"]:
                                for st in bl["stmts"]:
                                    if st["k"] == "assign" and st["rv"]["k"] == "agg" and st["rv"]["kind"].get("path") == "device::DisabledOptions":
                                        read_flags.setdefault(st["rv"]["kind"]["vname"], set()).add(k)
    A = E.analyse(P)
    for f in allflags:
        removes = spec[f]["ops"] or spec[f].get("forms")
        if not removes or f not in used_in_table:
            rep.ob("C13.flag-read|%s" % f, True, "flag %s removes no supported instruction or is set for no device: nothing to gate" % f, nontrivial=False)
            continue
        readers = sorted(read_flags.get(f, []))
        ok = bool(readers)
        devs = sorted(n for n, r in rows.items() if f in r.get("disable_opts", []))
        rep.ob("C13.flag-read|%s" % f, ok, "flag %s is read by %s" % (f, readers) if ok else
               "flag %s (set for %d devices, e.g. %s) removes %s but is never read between pass 2 and the end of the encoder" % (
                   f, len(devs), ", ".join(devs[:3]), removes), detail={"devices": devs})
    # (P) form-specific flags: on the encoder exploration every Ok path of a removed form must carry the fact ¬flag, and no other
    # form may depend on a flag (the one-word lds/sts selection by Avr8l excepted)
    form_flags = {}
    for f in allflags:
        for opn, what in spec[f].get("forms", []):
            form_flags.setdefault(opn, []).append((f, what))
    nforms = 0
    for (form, core, kinds), g in sorted(A["groups"].items()):
        r = g["row"]
        need = set()
        for f, what in form_flags.get(r["op"], []):
            if what in ("X", "Y"):
                if any(o["kind"] == "index" and o["reg"] == what for o in r["operands"]):
                    need.add(f)
            elif r["operands"]:
                need.add(f)
        have_all = {f for f, v in g.get("flag_all", set()) if v == 0}
        have_any = {f for f, v in g.get("flag_any", set())}
        # Avr8l changes what may be written, not whether the instruction exists: the one-word lds/sts, and r16..r31 as the only
        # registers (which registers exactly is C04's domain-rc, that nothing else changes is C01's bit comparison on every path)
        low_regs = any(o["kind"] == "reg" and min(o["legal"]) < 16 for o in r["operands"])
        allowed_extra = {"Avr8l"} if r["op"] in ("Lds", "Sts") or low_regs else set()
        if need:
            nforms += 1
            missing = sorted(need - have_all)
            devs = sorted(n for n, rw in rows.items() if set(missing) & set(rw.get("disable_opts", [])))
            rep.ob("C13.form|%s|%s" % (form, "+".join(kinds)), not missing,
                   "%s assembles only when the device has it (requires ¬%s on every successful path)" % (form, ", ¬".join(sorted(need))) if not missing else
                   "%s assembles although the device lacks it: no successful path requires ¬%s (devices: %s)" % (form, ", ¬".join(missing), ", ".join(devs[:4])),
                   detail={"devices": devs})
        extra = sorted(have_any - need - allowed_extra)
        if extra:
            rep.ob("C13.form-extra|%s|%s" % (form, "+".join(kinds)), False,
                   "%s is made to depend on device flag(s) %s although the feature table does not remove it" % (form, extra))
    rep.count("instruction forms removed by a form-specific flag", nforms)
    rep.ob("C13.form-floor", nforms >= 20 or not any(spec[f].get("forms") for f in allflags), "form-specific rows recognised (%d)" % nforms, kind="unprovable", nontrivial=False)
    # ---- gate before encode
    key = "builder::pass2::pass_2_internal"
    b = P.body.get(key)
    if b is None:
        rep.unprovable("C13.order|anchor", "pass_2_internal not found")
    else:
        idom = G.dominators(b)
        proc = [(bb, t) for bb, t, n, tg in P.call_sites(key) if "instruction::process" in tg]
        gates = [(bb, t) for bb, t, n, tg in P.call_sites(key) if "device::Device::check_operation" in tg]
        if len(proc) != 1 or len(gates) != 1:
            rep.unprovable("C13.order|shape", "gate / encoder call not found exactly once in pass_2_internal (%d/%d)" % (len(gates), len(proc)))
        else:
            gbb, gt = gates[0]
            pbb, pt = proc[0]
            sw = b["blocks"][gt["target"]]
            true_edge = false_edge = None
            # follow gotos/drops to the switch on the gate's result
            cur = gt["target"]
            for _ in range(6):
                tt = b["blocks"][cur]["term"]
                if tt["k"] == "switch":
                    p = MU.op_place(tt["discr"])
                    if p and p["local"] == gt["dest"]["local"]:
                        tg0 = dict((int(v), x) for v, x in tt["targets"])
                        false_edge = tg0.get(0)
                        true_edge = tt["otherwise"] if 1 not in tg0 else tg0[1]
                    break
                if tt["k"] in ("goto", "drop"):
                    cur = tt["target"]
                else:
                    break
            ok = true_edge is not None and G.dominates(idom, true_edge, pbb)
            rep.ob("C13.order|gate-dominates-encode", ok,
                   "the encoder call is dominated by the true edge of the device gate" if ok else
                   "the encoder can be reached without passing the true edge of Device::check_operation", loc=loc_of(b["blocks"][pbb]["tspan"]))
            # same operation checked as encoded
            ch = MU.Chaser(b)
            r1 = ch.root(gt["args"][1])
            r2 = ch.root(pt["args"][0])
            same = r1[0] == r2[0] and MU.proj_fields(r1[1]) == MU.proj_fields(r2[1])
            rep.ob("C13.order|same-operation", same, "the gate is asked about the operation that is then encoded" if same else
                   "the gate and the encoder are given different operations")
            # the device asked is the context's current device
            dcall = ch.def_call(gt["args"][0])
            okd = dcall is not None and MU.callee_names(dcall)[1].endswith("get_device")
            rep.ob("C13.order|current-device", okd, "the gate is evaluated on common_context.get_device()" if okd else
                   "the gate is not evaluated on the context's current device")
            if false_edge is not None:
                # false edge must reach only Err returns: no block in its region assigns Ok to _0 or calls process
                region = G.reach_blocks(b, false_edge)
                leak = pbb in region
                # loop back edge (next item) must not be reachable without returning
                heads = {h for (x, h) in G.back_edges(b)}
                cont = any(h in region for h in heads)
                rep.ob("C13.order|reject-path", not leak and not cont,
                       "a rejected instruction leaves the item loop with an error" if not leak and not cont else
                       "after the gate rejects an instruction the loop continues or the encoder is still reached")
    # ---- encoder is device independent except lds/sts
    dr = A["device_reads"]
    dr = [d for d in dr if not (d["op"] in ("Lds", "Sts") and all("Avr8l" in x for x in d["syms"]))]
    rep.ob("C13.unaffected|encoder", not dr,
           "no successful encoder path other than lds/sts reads the device (%d paths)" % A["exits"].get("Ok", 0) if not dr else
           "encoder output depends on the device for %s" % sorted({d["op"] for d in dr}), detail=dr[:5])
    return rep
