"""C16 — no input makes the assembler panic, overflow its stack, hang or allocate without bound  (site discipline).

E5 over every function reachable from the API roots, dev-profile MIR:
 1 panic sites (unwrap/expect, Index, arithmetic Assert terminators, explicit panics) — each must be discharged by a computed reason
   (type / E1 guard / grammar language inclusion / named invariant with checked witness / frozen table of input-size-bounded counters);
 2 unbounded recursion — every call-graph cycle reachable from the roots needs a depth guard on the cycle (a counter compared with a
   constant whose failing side returns Err), or is structural recursion over a value whose depth such a guard bounds;
 3 non-termination — every natural loop is driven by Iterator::next on an in-memory source, or has a recognised monotone variant;
   PEG: no repetition over a nullable operand;
 4 allocation — amounts that come from user-written numbers are only used after pass 1 compared them with the device's capacities."""
import re

import absint
import facts as F
import grammar
import graph as G
import mirutil as MU
import peg
import robust as R
import sx
from common import Reporter, loc_of

# ---------------------------------------------------------------------------------------------------------------------------------
# frozen table: arithmetic on counters bounded by the size of the in-memory input (one line of reason each, with the structural
# witness that is re-checked on every run)
COUNTERS = [
    # (function, assert kind, reason, witness id) — a site is discharged by a row only if the row's witness holds for that very operation
    ("parser::parse_iter", "Overflow(Add)", "line index + 1: the index is yielded by the line iterator (an enumerate() index of in-memory lines), so it is < usize::MAX", "index-plus-one"),
    ("parser::skip", "Overflow(Add)", "nesting counter +1 per skipped .if line: bounded by the number of input lines (i32 overflow needs > 2^31 lines)", "unit-counter"),
    ("parser::skip", "Overflow(Sub)", "nesting counter -1 only on the branch where it is != 0; it starts at 0 and moves in steps of 1", "unit-counter"),
    ("parser::nesting_is_parsable", "Overflow(Add)", "depth / run counters +1 per character of one in-memory line", "unit-counter"),
    ("parser::nesting_is_parsable", "Overflow(Add)", "sum of two counters that each grow by at most 1 per character of an in-memory line: < 2 * isize::MAX", "sum-of-unit-counters"),
    ("<std::vec::Vec<directive::Operand> as directive::GetData>::actual_len::{closure#0}", "Overflow(Add)", "sum of the byte lengths of operands that all sit in memory: < usize::MAX", "sum-of-lens"),
    ("expr::Expr::run_nested", "Overflow(Add)", "log2: counts the rounds of a loop that shifts a u64 right until it is 0, at most 64", "shift-loop"),
]

SHRINK = re.compile(r"^std::vec::Vec::<T, A>::(pop|remove|clear|truncate|drain|retain|swap_remove|split_off|dedup\w*)$")


def _site_op(P, site):
    for st in P.body[site.fn]["blocks"][site.bb]["stmts"]:
        if st["k"] == "assign" and st["rv"]["k"] == "bin" and st["rv"]["op"].endswith("WithOverflow"):
            return st["rv"]
    return None


def _is_one(o):
    return isinstance(o, dict) and "const" in o and o["const"].get("int") == "1"


def witness_unit_counter(P, site):
    """the operation is  c ± 1  on a local all of whose assignments are a constant or itself ± 1"""
    b = P.body[site.fn]
    rv = _site_op(P, site)
    if rv is None or not _is_one(rv["r"]):
        return False
    root = MU.Chaser(b).root(rv["l"], through_calls=False)
    return root[0] in unit_counter_locals(b) and not root[1]


def witness_index_plus_one(P, site):
    """the operation is  n + 1  where n is taken out of the value returned by the line iterator step (skip)"""
    b = P.body[site.fn]
    rv = _site_op(P, site)
    if rv is None or not _is_one(rv["r"]) or rv["op"] != "AddWithOverflow":
        return False
    ch = MU.Chaser(b)
    root = ch.root(rv["l"], through_calls=False)
    d = ch.single_def(root[0]) if root[0] is not None else None
    return bool(d and d[0] == "call" and MU.callee_names(d[2])[1] == "parser::skip")


def witness_sum_of_lens(P, site):
    calls = [MU.callee_names(t)[1] for _, t, _, _ in P.call_sites(site.fn)]
    return calls == ["directive::Operand::len"]


def witness_shift_loop(P, site):
    """the operation is  c + 1  on a unit counter inside a loop that shifts an unsigned local right until it is 0"""
    if not witness_unit_counter(P, site):
        return False
    b = P.body[site.fn]
    # the argument is complete in itself (at most 64 rounds) when the counter starts small: every constant it is set to is within 0..32,
    # so that the count fits the narrowest integer type
    rv = _site_op(P, site)
    cl = MU.Chaser(b).root(rv["l"], through_calls=False)[0]
    for bl in b["blocks"]:
        for st in bl["stmts"]:
            if st["k"] == "assign" and not st["place"]["proj"] and st["place"]["local"] == cl and st["rv"]["k"] == "use" and "const" in st["rv"]["op"]:
                v = st["rv"]["op"]["const"].get("int")
                if v is None or not (0 <= int(v) <= 32):
                    return False
    for head, nodes in natural_loops(b).items():
        if site.bb in nodes and R_shift_loop(b, nodes):
            return True
    return False


def natural_loops(b):
    pr = G.preds(b)
    heads = {}
    for src, head in G.back_edges(b):
        nodes = {head, src}
        stack = [src]
        while stack:
            x = stack.pop()
            if x == head:
                continue
            for q in pr.get(x, []):
                if q not in nodes:
                    nodes.add(q)
                    stack.append(q)
        heads.setdefault(head, set()).update(nodes)
    return heads


def unit_counter_locals(b):
    """user locals all of whose assignments are a constant or  itself ± 1  (through the checked-arithmetic tuple)"""
    asg = {}
    for bl in b["blocks"]:
        for st in bl["stmts"]:
            if st["k"] == "assign" and not st["place"]["proj"]:
                asg.setdefault(st["place"]["local"], []).append(st["rv"])
    tup = {}
    for l, rvs in asg.items():
        for rv in rvs:
            if rv["k"] == "bin" and rv["op"].endswith("WithOverflow"):
                pl = MU.op_place(rv["l"])
                one = "const" in rv["r"] and rv["r"]["const"].get("int") == "1"
                # through one copy of the counter
                src = pl["local"] if pl else None
                for rv2 in asg.get(src, []):
                    if rv2["k"] == "use" and MU.op_place(rv2["op"]) and len(asg[src]) == 1:
                        src = MU.op_place(rv2["op"])["local"]
                tup[l] = (src, one)
    out = set()
    for l, rvs in asg.items():
        if not b["locals"][l].get("name"):
            continue
        ok = True
        for rv in rvs:
            if rv["k"] == "use" and "const" in rv["op"]:
                continue
            if rv["k"] == "use":
                pl = MU.op_place(rv["op"])
                if pl and pl["local"] in tup and tup[pl["local"]] == (l, True) and [e["k"] for e in pl["proj"]] == ["field"]:
                    continue
            ok = False
        if ok:
            out.add(l)
    return out


def witness_sum_of_unit_counters(P, site):
    b = P.body[site.fn]
    units = unit_counter_locals(b)
    ch = MU.Chaser(b)
    for st in b["blocks"][site.bb]["stmts"]:
        if st["k"] == "assign" and st["rv"]["k"] == "bin" and st["rv"]["op"] == "AddWithOverflow":
            l = ch.root(st["rv"]["l"], through_calls=False)[0]
            r = ch.root(st["rv"]["r"], through_calls=False)[0]
            return l in units and r in units
    return False


SELF_CONTAINED = [("shift-loop", "counts the rounds of a loop that shifts an unsigned value right until it is 0: at most 64, from a start within 0..32")]
WITNESS = {"sum-of-unit-counters": witness_sum_of_unit_counters, "unit-counter": witness_unit_counter, "index-plus-one": witness_index_plus_one,
           "sum-of-lens": witness_sum_of_lens, "shift-loop": witness_shift_loop}


def segments_invariant(P):
    """witness for `last_segment().unwrap()`: the segment vectors are never shrunk, every ParseContext is built over a non-empty or an
    existing vector, and pass0_internal is only entered after add_segment"""
    problems = []
    for k in P.body:
        for bb, t, name, tg in P.call_sites(k):
            full, rp = MU.callee_names(t)
            if SHRINK.match(rp) and "Segment" in full and "RefCell" in full:
                problems.append("%s shrinks a segment vector (%s)" % (k, rp))
    fields = [f["name"] for f in P.lib.adts["parser::ParseContext"]["variants"][0]["fields"]]
    for k, b in P.body.items():
        for bl in b["blocks"]:
            for st in bl["stmts"]:
                if st["k"] == "assign" and st["rv"]["k"] == "agg" and st["rv"]["kind"].get("path") == "parser::ParseContext":
                    o = st["rv"]["ops"][fields.index("segments")]
                    locs, consts, calls, places = MU.backward_slice(b, [o])
                    names = [MU.callee_names(c)[1] for c in calls]
                    if "std::vec::Vec::<T>::new" in names:
                        problems.append("%s builds a ParseContext over an empty segment vector" % k)
                    fresh = any(n.startswith("std::rc::Rc::<T>::new") for n in names)
                    if fresh and not any("box_assume_init_into_vec_unsafe" in n or "into_vec" in n for n in names):
                        problems.append("%s builds a ParseContext over a fresh vector that is not a non-empty literal" % k)
    # pass 0: pass0_internal entered only after add_segment, helpers only from pass0_internal
    k0 = "builder::pass0::build_pass_0"
    b0 = P.body.get(k0)
    if b0 is None:
        problems.append("build_pass_0 not found")
    else:
        idom = G.dominators(b0)
        adds = [bb for bb, t, n, tg in P.call_sites(k0) if any(x.endswith("Pass0Context::add_segment") for x in tg)]
        for bb, t, n, tg in P.call_sites(k0):
            if "builder::pass0::pass0_internal" in tg:
                if not any(G.dominates(idom, a, bb) for a in adds):
                    problems.append("build_pass_0 enters pass0_internal without a preceding add_segment")
    callers = {}
    for k in P.body:
        for bb, t, n, tg in P.call_sites(k):
            for x in tg:
                callers.setdefault(x, set()).add(k)
    for helper in ("builder::pass0::macro_expand", "builder::pass0::Pass0Context::push_to_last", "builder::pass0::Pass0Context::last_segment"):
        cs = callers.get(helper, set()) - {"builder::pass0::pass0_internal", "builder::pass0::macro_expand", "builder::pass0::Pass0Context::push_to_last"}
        if cs:
            problems.append("%s is also called from %s" % (helper, sorted(cs)))
    ext = callers.get("builder::pass0::pass0_internal", set()) - {"builder::pass0::pass0_internal", "builder::pass0::build_pass_0"}
    if ext:
        problems.append("pass0_internal is also called from %s" % sorted(ext))
    return problems


def grammar_discharges(P, g):
    """per grammar rule: are all `.unwrap()` in its actions safe?  -> {rule: (ok, reason)}"""
    out = {}
    for rule, r in g.rules.items():
        acts = []

        def collect(node, labels):
            k = node[0]
            if k == "seq":
                labs = dict(labels)
                for lab, e in node[1]:
                    if lab:
                        labs[lab] = e
                if node[2] is not None:
                    acts.append((node[2], labs))
                for lab, e in node[1]:
                    collect(e, labs)
            elif k == "choice":
                for a in node[1]:
                    collect(a, labels)
            elif k in ("opt", "slice", "not", "and", "group"):
                collect(node[1], labels)
            elif k == "rep":
                collect(node[1], labels)
            elif k == "prec":
                for lv in node[1]:
                    for row in lv:
                        labs = dict(labels)
                        for lab, e in row["elems"]:
                            if lab:
                                labs[lab] = e
                        acts.append((row["action"], labs))

        collect(r["expr"], {})
        verdicts = []
        for act, labs in acts:
            text = act["text"]
            if ".unwrap()" not in text and ".expect(" not in text:
                continue
            m = re.search(r"(\w+)::from_str\(\s*(\w+)", text)
            if m:
                ty, lab = m.group(1), m.group(2)
                node = labs.get(lab)
                lang = g.lang(node) if node is not None else None
                full = {"Reg8": "instruction::register::Reg8", "Reg16": "instruction::register::Reg16", "BranchT": "instruction::operation::BranchT",
                        "SFlags": "instruction::operation::SFlags", "Operation": "instruction::operation::Operation", "Directive": "directive::Directive"}.get(ty)
                keys = R.from_str_keys(P, full) if full else None
                if lang is None or keys is None:
                    verdicts.append((False, "%s::from_str(%s).unwrap(): language of the capture or key set not finite/readable" % (ty, lab)))
                    continue
                lowered = {x.lower() for x in lang} if "to_lowercase" in text else set(lang)
                bad = sorted(lowered - keys)
                verdicts.append((not bad, "%s::from_str(%s).unwrap(): the %d strings the capture can match are all keys" % (ty, lab, len(lowered)) if not bad else
                                 "%s::from_str(%s).unwrap(): the capture also matches %s, which from_str rejects" % (ty, lab, bad[:6])))
                continue
            m = re.search(r"(\w+)\.chars\(\)\.next\(\)\.unwrap\(\)", text)
            if m:
                node = labs.get(m.group(1))
                ok = node is not None and not g.nullable(node)
                verdicts.append((ok, "%s.chars().next().unwrap(): the capture cannot be empty" % m.group(1) if ok else "%s may be empty" % m.group(1)))
                continue
            m = re.search(r"(\w+)\.parse\(\)\.unwrap\(\)", text)
            if m and "Ident" in text:
                verdicts.append((True, "parse::<String>() is infallible (Result<String, Infallible>)"))
                continue
            verdicts.append((False, "unrecognised unwrap in action %s" % text[:60]))
        if verdicts:
            out[rule] = (all(v[0] for v in verdicts), "; ".join(v[1] for v in verdicts))
    return out


def run(tier):
    rep = Reporter("C16", tier, "other", "site discipline over resolved MIR: every panic-class site enumerated and discharged by type, E1 value-set guard, grammar language inclusion, checked invariants or a frozen counter table; depth guards on call-graph cycles; loop classification; capacity facts before allocation")
    rep.explanation = ("A panic, runaway recursion, endless loop or unbounded allocation happens at a *site*, and the set of sites is finite and "
                       "enumerable from MIR even though the set of inputs is not. Every site in code reachable from the API must be discharged by a "
                       "computed reason; an undischarged site is a finding keyed kind|function|what. Panics inside dependencies are assumed absent "
                       "except through the API contracts checked here. Not decided: 'promptly' as a time bound, stack depth in bytes, allocation "
                       "proportionality beyond the counted sites.")
    rep.trusted = ["rustc nightly MIR (dev profile: overflow checks are explicit Assert terminators)", "E1", "analysis/peg.py",
                   "the peg-generated parser is deterministic and its position counters are bounded by the input length"]
    rep.assumptions = ["source text fits in memory (< 2 GiB of lines for the i32 nesting counter)", "dependencies do not panic when used within their contracts"]
    P = G.Program(F.load("dev"))
    reach = {k for k in P.reachable(R.ROOTS) if not k.startswith("bin::")}
    rep.count("functions reachable from the API roots", len(reach))
    sites = R.enumerate_sites(P, reach)
    kinds = {}
    for s in sites:
        kinds[s.kind] = kinds.get(s.kind, 0) + 1
    for k, n in sorted(kinds.items()):
        rep.count("panic-class sites: %s" % k, n)
    g, gproblems = grammar.load_checked(P)
    for pr in gproblems:
        rep.unprovable("C16.grammar|cross-check", pr)
    gdis = grammar_discharges(P, g)
    seg_problems = segments_invariant(P)
    rep.ob("C16.invariant|segments-non-empty", not seg_problems,
           "segment vectors are never shrunk, every ParseContext is built over a non-empty or existing vector, pass 0 enters its worker only after add_segment" if not seg_problems else
           "witness of the non-empty-segments invariant fails: %s" % "; ".join(seg_problems[:3]))
    counter_rows = {}
    for fn, kind, reason, wit in COUNTERS:
        counter_rows.setdefault((fn, kind), []).append((reason, wit))
    parser_line = None
    for k, b in P.lib.bodies.items():
        if k.startswith("document::document::__parse_"):
            parser_line = b["span"]["l"]
            break
    methods = {}
    for s in sites:
        loc = loc_of(s.span)
        ok, why = R.discharge_by_guard(P, s)
        method = "guard"
        if not ok:
            if s.kind == "unwrap" and "convert::Infallible" in s.what:
                ok, why, method = True, "unwrap on Result<_, Infallible> cannot fail", "type"
            elif s.kind == "unwrap" and s.fn.startswith("document::document::__parse_"):
                rule = s.fn[len("document::document::__parse_"):].split("::")[0]
                if rule in gdis:
                    ok, why = gdis[rule]
                    method = "grammar"
            elif s.kind == "unwrap" and "rc::Rc<cell::RefCell<parser::Segment>>" in s.what:
                ok, why, method = (not seg_problems), "last_segment() is Some: the segment vector is never empty (invariant witness checked)", "invariant"
            elif s.kind == "arith" and s.fn.startswith("document::document::") and s.span["l"] == parser_line and peg_lookahead_counter(P, s):
                ok, why, method = True, "rust-peg's suppress_fail counter: +1 entering and -1 leaving a lookahead, so it is bounded by the static nesting of lookaheads in the grammar", "peg"
            elif s.kind == "panic" and s.fn.startswith("document::document::") and s.span["l"] == parser_line and peg_reparse_assertion(P, s):
                ok, why, method = True, "rust-peg's 'parser is nondeterministic' assertion: the same pure grammar is run twice on the same input (actions read only their captures)", "peg"
            elif s.kind == "arith":
                rows = counter_rows.get((s.fn, s.what.split(" #")[0]), [])
                for reason, wit in rows:
                    if WITNESS[wit](P, s):
                        ok, why, method = True, reason, "counter-table"
                        break
                else:
                    # witnesses whose argument needs nothing from the function around them hold wherever the operation stands
                    for wit, reason in SELF_CONTAINED:
                        if WITNESS[wit](P, s):
                            ok, why, method = True, reason, "counter-table"
                            break
                    if not ok and rows:
                        why = "%s; and no entry of the counter table for this function has a witness that holds for this operation" % why
            elif s.kind == "panic" and "Display>::fmt" in s.fn:
                okd, whyd = display_disabled_variant(P, s)
                ok, why, method = okd, whyd, "variant-exclusion"
        methods[method] = methods.get(method, 0) + (1 if ok else 0)
        rep.ob("C16.site|%s" % s.key(), ok,
               "%s in %s: %s" % (s.what, s.fn.split("::")[-1], why) if ok else
               "%s in %s can fail: %s" % (s.what, s.fn, why), loc=loc, detail={"kind": s.kind, "reason": why},
               sample={"site": s.key(), "discharged by": method, "reason": why} if ok and method != "guard" else None, nontrivial=(method != "peg"))
    for m, n in sorted(methods.items()):
        rep.count("sites discharged by %s" % m, n)
    # the release-like MIR has no overflow Asserts: about half the sites
    rep.floor("panic-class sites enumerated", len(sites), 120 if P.facts.profile == "dev" else 60)
    recursion(P, rep, reach, g)
    loops(P, rep, reach, g)
    allocation(P, rep)
    borrows(P, rep, reach)
    preconditions(P, rep, reach)
    return rep


def peg_lookahead_counter(P, site):
    """the operation is  (*err_state).suppress_fail ± 1  on the generated parser's &mut ErrorState parameter"""
    rv = _site_op(P, site)
    if rv is None or not _is_one(rv["r"]):
        return False
    b = P.body[site.fn]
    pl = MU.op_place(rv["l"])
    if pl is None or not (1 <= pl["local"] <= b["arg_count"]):
        return False
    return "peg::error::ErrorState" in P.tys(site.fn, b["locals"][pl["local"]]["ty"]) and MU.proj_fields(pl["proj"]) == [1]


def peg_reparse_assertion(P, site):
    for a in site.term["args"]:
        if "const" in a and str(a["const"].get("str", "")).startswith("Parser is nondeterministic"):
            return True
    return False


def display_disabled_variant(P, site):
    """strum's Display of a #[strum(disabled)] variant panics: every place that formats the type with Display must exclude that variant"""
    m = re.match(r"^<(.*) as std::fmt::Display>::fmt$", site.fn)
    if not m:
        return False, "not a Display impl"
    ty = m.group(1)
    ad = P.lib.adts.get(ty)
    if not ad:
        return False, "type not found"
    # which variant panics: the one the panicking block belongs to (switch target)
    b = P.body[site.fn]
    panicking = set()
    sw = b["blocks"][0]["term"]
    if sw["k"] != "switch":
        return False, "Display impl does not start with a match on the variant"
    tg = {int(v): tb for v, tb in sw["targets"]}
    for v in ad["variants"]:
        tb = tg.get(int(v["discr"]), sw["otherwise"])
        if site.bb in G.reach_blocks(b, tb):
            panicking.add(int(v["discr"]))
    names = {int(v["discr"]): v["name"] for v in ad["variants"]}
    pv = {names.get(x, "?") for x in panicking}
    if not pv:
        return False, "panicking variant not identified"
    # all fmt::Argument::new_display::<&ty> sites: E1 value set of the discriminant there
    bad = []
    nsites = 0
    for k in sorted(P.reachable(R.ROOTS)):
        for bb, t, name, tg in P.call_sites(k):
            if site.fn in tg and k != site.fn and "fmt::rt::Argument" in MU.callee_names(t)[1]:
                nsites += 1
                okk, whyk = variant_excluded_at(P, k, bb, t, ty, panicking)
                if not okk:
                    bad.append("%s (%s)" % (k.split("::")[-1], whyk))
    if bad:
        return False, "Display of %s panics for %s and it is formatted where that variant is possible: %s" % (ty.split("::")[-1], sorted(pv), "; ".join(bad[:3]))
    return True, "Display of %s panics only for %s; none of the %d places that format it can hold that variant (E1 value sets)" % (ty.split("::")[-1], sorted(pv), nsites)


def variant_excluded_structurally(P, fn, bb, term, panicking):
    """the formatted value is a parameter that the function matches on, and the block of the formatting site cannot be reached from the
    match edge taken for a panicking variant (reachability over-approximates feasibility, so this is conservative)"""
    b = P.body[fn]
    ch = MU.Chaser(b)
    root = ch.root(term["args"][0], through_calls=False)
    for _ in range(4):
        # format_args! packs its arguments in a tuple first: step through  t = (a, b); t.i
        if root[0] is None or 1 <= root[0] <= b["arg_count"] or not root[1] or root[1][0]["k"] != "field":
            break
        d = ch.single_def(root[0])
        if d is None or d[0] != "stmt" or d[2]["k"] != "agg" or d[2]["kind"].get("k") not in ("tuple", None) or "ops" not in d[2]:
            break
        if d[2]["kind"].get("path"):
            break
        root = ch.root(d[2]["ops"][root[1][0]["i"]], through_calls=False)
    if root[0] is None or not (1 <= root[0] <= b["arg_count"]) or any(e["k"] == "field" for e in (root[1] or [])):
        return False
    param = root[0]
    idom = G.dominators(b)
    # the parameter is never re-assigned
    if any(st["k"] == "assign" and st["place"]["local"] == param and not st["place"]["proj"] for bl in b["blocks"] for st in bl["stmts"]):
        return False
    for bi, bl in enumerate(b["blocks"]):
        t = bl["term"]
        if t["k"] != "switch":
            continue
        pl = MU.op_place(t["discr"])
        if pl is None:
            continue
        src = None
        for st in bl["stmts"]:
            if st["k"] == "assign" and st["place"]["local"] == pl["local"] and st["rv"]["k"] == "discr":
                src = st["rv"]["place"]
        if src is None:
            continue
        r2 = ch.root(src, through_calls=False)
        if r2[0] != param or any(e["k"] == "field" for e in (r2[1] or [])):
            continue
        tg = {int(v): tb for v, tb in t["targets"]}
        if G.dominates(idom, bi, bb) and all(bb not in G.reach_blocks(b, tg.get(d, t["otherwise"])) for d in panicking):
            return True
    return False


def variant_excluded_at(P, fn, bb, term, ty, panicking):
    if variant_excluded_structurally(P, fn, bb, term, panicking):
        return True, "excluded by the enclosing match arm"
    M = absint.Machine(P, max_depth=2, loop_limit=1, max_paths=20000)
    M.havoc_loops = True
    hits = []

    def hook(Mx, st, fr, t, args, site):
        if fr.key == fn and site[1] == bb:
            v = args[0]
            for _ in range(3):
                if v[0] == 'ref':
                    v = Mx.read(st, v[1], v[2])
                elif v[0] == 'unk' and Mx.crate_by_name(v[3]).types[v[1]]["k"] == "ref":
                    v = ('unk', Mx.crate_by_name(v[3]).types[v[1]]["to"], v[2] + "*", v[3])
                else:
                    break
            d = Mx.discr_of(st, fr, v)
            if d is None:
                hits.append(None)
            elif sx.is_const(d):
                hits.append({sx.cval(d)})
            else:
                dom = st.doms.get(d)
                hits.append(set(sx.dom_iter(sx.dom_norm(dom))) if dom is not None and sx.dom_size(dom) < 1000 else None)
        return NotImplemented

    rp = MU.callee_names(term)[1]
    M.extra_summaries = {rp: hook}
    try:
        M.explore(fn, M.arg_unknowns(fn))
    except Exception as e:
        return False, "analysis failed: %s" % e
    if not hits:
        return False, "site not reached"
    for h in hits:
        if h is None or h & panicking:
            return False, "the disabled variant is possible there"
    return True, "excluded"


# ------------------------------------------------------------------------------------------------ 2. recursion
def recursion(P, rep, reach, g=None):
    cg = P.callgraph()
    comps = [c for c in P.sccs(reach) if len(c) > 1 or c[0] in cg[c[0]]]
    rep.count("call-graph cycles in reachable code", len(comps))
    guarded_values = set()
    for comp in comps:
        comp = sorted(comp)
        name = comp[0] if len(comp) == 1 else "{%s}" % ", ".join(c.split("::")[-1] for c in comp[:4])
        kind, why = cycle_guard(P, comp)
        if kind is None and all(c.startswith("document::document::__parse_") for c in comp):
            # the generated recursive-descent parser: bounded iff every call of the line parser is behind a nesting guard
            okg, whyg = parser_entry_guarded(P)
            okc, whyc = guard_covers_grammar(P, g) if g is not None else (False, "grammar not readable")
            kind, why = ("guard" if okg and okc else None), (whyg if not okg else (whyg + "; " + whyc if okc else whyc))
        if kind is None and not all(c.startswith("document::document::") for c in comp) and not nonstructural_calls(P, comp):
            # every call back into the cycle goes down into a part of the value at hand (printing, cloning, comparing a parsed
            # expression): the depth is the depth of that value, which the guard in front of the parser must have limited
            okg, whyg = parser_entry_guarded(P)
            okc, whyc = guard_covers_grammar(P, g) if g is not None else (False, "grammar not readable")
            if okg and okc:
                kind, why = "structural", "recursion over the parts of a parsed expression, whose depth the guard in front of the parser limits (%s)" % whyc
            else:
                why = "recursion over the parts of a parsed expression, but its depth is not limited: %s" % (whyg if not okg else whyc)
        rep.ob("C16.recursion|%s" % "+".join(comp), kind is not None,
               "cycle %s is bounded: %s" % (name, why) if kind else
               "cycle %s has no depth guard: %s" % (name, why), detail={"cycle": comp})
        # depth alone bounds the work only for recursion over the parts of a value that is in memory; a cycle that re-enters with
        # something it looked up, expanded or read (a definition, a macro body, a file) multiplies: depth d, fan-out b -> b^d steps
        if kind == "guard" and not all(c.startswith("document::document::") for c in comp):
            ns = nonstructural_calls(P, comp)
            if ns:
                okb, whyb = work_budget(P, comp)
                rep.ob("C16.fanout|%s" % "+".join(comp), okb,
                       "cycle %s re-enters with values it looked up or produced (%s): the total work is bounded by a shared budget — %s" % (name, ns[0], whyb) if okb else
                       "cycle %s re-enters with values it looked up or produced (%s) and only its depth is limited: definitions / macros / files that each use the previous one twice double the work with every level (2^depth) — %s" % (name, ns[0], whyb),
                       detail={"non-structural calls": ns})
                if okb:
                    need, okt, whyt = text_growth_bounded(P, comp)
                    if need:
                        rep.ob("C16.volume|%s|text" % "+".join(comp), okt, "cycle %s: %s" % (name, whyt) if okt else "cycle %s: %s" % (name, whyt))
                    need, okx, whyx = text_total_bounded(P, comp)
                    if need:
                        rep.ob("C16.volume|%s|text-total" % "+".join(comp), okx, "cycle %s: %s" % (name, whyx))
                    need, oke, whye = every_line_costs(P, comp)
                    if need:
                        rep.ob("C16.volume|%s|every-line" % "+".join(comp), oke, "cycle %s: %s" % (name, whye))
                    need, okv, whyv = volume_budget(P, comp)
                    if need:
                        rep.ob("C16.volume|%s" % "+".join(comp), okv,
                               "cycle %s: %s" % (name, whyv) if okv else
                               "cycle %s: the work of one round is not bounded — %s (26 calls of a macro of 100 calls of a macro of 100 calls of a macro of 4000 lines: 10^9 items from a 16 KiB source)" % (name, whyv))


def _round_helpers(P, comp):
    """the functions of the cycle and the local helpers (same module tree, not the generated parser) they call in a round, two calls deep"""
    near = list(comp)
    frontier = list(comp)
    for _ in range(2):
        nxt = []
        for k in frontier:
            for bb, t, name, tg in P.call_sites(k):
                for x in tg:
                    if x in P.body and x not in near and not x.startswith("document::document::") and "::{closure" not in x and x.split("::")[0] == k.split("::")[0]:
                        near.append(x)
                        nxt.append(x)
        frontier = nxt
    return near


def volume_budget(P, comp):
    """A budget that counts rounds bounds the work only when a round's work is bounded.  Where a function of the cycle walks a collection
    it got from a table lookup (a macro body: as long as the source allows), some shared counter must grow with the size of what is
    walked: a Cell set to a value computed from a len(), checked against a constant with an Err on the failing side.
    -> (needed, ok, text)"""
    walks = []
    # the functions of the cycle and the local helpers they call in a round
    near = _round_helpers(P, comp)
    for k in near:
        b = P.body[k]
        for bb, t, name, tg in P.call_sites(k):
            rp = MU.callee_names(t)[1]
            if not re.search(r"(::iter|::into_iter|::iter_mut)$", rp) or not t["args"]:
                continue
            locs, consts, calls, places = MU.backward_slice(b, t["args"][:1])
            if any(MU.callee_names(c)[1].endswith("HashMap::<K, V, S, A>::get") for c in calls):
                walks.append(k)
    if not walks:
        return False, True, ""
    for k in comp:
        b = P.body[k]
        for bb, t, name, tg in P.call_sites(k):
            if MU.callee_names(t)[1] != "std::cell::Cell::<T>::set":
                continue
            locs, consts, calls, places = MU.backward_slice(b, t["args"][1:2])
            names = [MU.callee_names(c)[1] for c in calls]
            sized = any(re.search(r"(Vec::<T, A>|\[T\]>|String|str>)::len$|Iterator::(count|sum)$", n) for n in names)
            if not sized:
                # the size may be taken inside a closure handed to a combinator (map_or(0, |body| body.len()), or a count of some of
                # the elements)
                for k2 in P.body:
                    if k2.startswith(k + "::{closure") and any(re.search(r"::len$|Iterator>?::(count|sum)$", MU.callee_names(t2)[1]) for _, t2, _, _ in P.call_sites(k2)):
                        if any(n.endswith(("::map_or", "::map", "::map_or_else", "::and_then")) for n in names):
                            sized = True
            if not sized:
                continue
            # the new value is compared with a constant and the failing side is an error
            limited = False
            for bl in b["blocks"]:
                for st in bl["stmts"]:
                    if st["k"] == "assign" and st["rv"]["k"] == "bin" and st["rv"]["op"] in ("Gt", "Ge", "Lt", "Le") and ("const" in st["rv"]["l"]) != ("const" in st["rv"]["r"]):
                        side = st["rv"]["l"] if "const" in st["rv"]["r"] else st["rv"]["r"]
                        l2, c2, calls2, p2 = MU.backward_slice(b, [side])
                        if (set(l2) & set(locs)) and bl["term"]["k"] == "switch" and _err_exit_sides(P, k, b, bl, comp):
                            limited = True
            if limited:
                return True, True, "%s also steps a shared counter up by the size of what a round walks and checks it against a constant" % k.split("::")[-1]
    return True, False, "%s walks a collection it looked up (a macro body, as long as the source allows) and nothing counts its size: calls x body lines is not bounded by the budget of calls" % walks[0].split("::")[-1]


def text_growth_bounded(P, comp):
    """Text that a round of the cycle builds by putting other text into it (replace, push_str, repeat, format) and that goes back into
    the cycle can grow with every level (an argument handed on twice doubles): the functions of a round that build text must compare a
    text's length with a constant, with an error on the failing side.  -> (needed, ok, text)"""
    near = _round_helpers(P, comp)
    grow = re.compile(r"^core::str::<impl str>::(replace|replacen|repeat)$|^std::string::String::(push_str|insert_str|extend)$|^alloc::str::<impl str>::(replace|replacen|repeat)$|^std::str::<impl str>::(replace|replacen|repeat)$")
    builders = []
    for k in near:
        if any(grow.search(MU.callee_names(t)[1]) for _, t, _, _ in P.call_sites(k)):
            builders.append(k)
    if not builders:
        return False, True, ""
    for k in near:
        b = P.body[k]
        for bl in b["blocks"]:
            for st in bl["stmts"]:
                if st["k"] == "assign" and st["rv"]["k"] == "bin" and st["rv"]["op"] in ("Gt", "Ge", "Lt", "Le") and ("const" in st["rv"]["l"]) != ("const" in st["rv"]["r"]):
                    side = st["rv"]["l"] if "const" in st["rv"]["r"] else st["rv"]["r"]
                    locs, consts, calls, places = MU.backward_slice(b, [side])
                    if any(re.search(r"(String|str>)::len$", MU.callee_names(c)[1]) for c in calls) and bl["term"]["k"] == "switch" and _err_exit_sides(P, k, b, bl, comp if k in comp else [k]):
                        return True, True, "%s compares the length of the text it builds with a constant and fails beyond it" % k.split("::")[-1]
    return True, False, "%s builds text from other text (replace / push_str) for the next round and nothing limits its length: `.macro m / m @0@0 / .endm / m a` doubles the argument with every level" % builders[0].split("::")[-1]


def text_total_bounded(P, comp):
    """Lines and the length of a line bounded each on its own leave their product free.  Where a round builds text, some shared counter
    must grow with the *bytes* of text of all rounds: a Cell set to a value that a text's len() goes into (directly, or through a
    parameter of a counting helper that every caller gives a len()), checked against a constant with an error on the failing side.
    -> (needed, ok, text)"""
    near = _round_helpers(P, comp)
    grow = re.compile(r"(str>|String)::(replace|replacen|repeat|push_str|insert_str)$")
    if not any(grow.search(MU.callee_names(t)[1]) for k in near for _, t, _, _ in P.call_sites(k)):
        return False, True, ""
    is_text_len = lambda n: bool(re.search(r"(String|str>)::len$", n))
    for k in near:
        b = P.body[k]
        for bb, t, name, tg in P.call_sites(k):
            if MU.callee_names(t)[1] != "std::cell::Cell::<T>::set":
                continue
            locs, consts, calls, places = MU.backward_slice(b, t["args"][1:2])
            direct = any(is_text_len(MU.callee_names(c)[1]) for c in calls)
            params = [l for l in locs if 1 <= l <= b["arg_count"] and P.tys(k, b["locals"][l]["ty"]) == "usize"]
            through = False
            for pl in params:
                sites = [(k2, t2) for k2 in near for _, t2, _, tg2 in P.call_sites(k2) if k in tg2]
                if sites and all(any(is_text_len(MU.callee_names(c)[1]) for c in MU.backward_slice(P.body[k2], [t2["args"][pl - 1]])[2]) for k2, t2 in sites):
                    through = True
            if not (direct or through):
                continue
            limited = False
            for bl in b["blocks"]:
                for st in bl["stmts"]:
                    if st["k"] == "assign" and st["rv"]["k"] == "bin" and st["rv"]["op"] in ("Gt", "Ge", "Lt", "Le") and ("const" in st["rv"]["l"]) != ("const" in st["rv"]["r"]):
                        side = st["rv"]["l"] if "const" in st["rv"]["r"] else st["rv"]["r"]
                        l2, c2, calls2, p2 = MU.backward_slice(b, [side])
                        if (set(l2) & set(locs)) and bl["term"]["k"] == "switch" and _err_exit_sides(P, k, b, bl, comp if k in comp else [k]):
                            limited = True
            if limited:
                return True, True, "%s counts the bytes of the text of all rounds in a shared counter and checks it against a constant" % k.split("::")[-1]
    return True, False, "a round builds text and nothing counts the text of all rounds: 65536 calls that each hand on a 30000-character name stay under the limits of lines and of line length and need 4 GB"


DROPPING = re.compile(r"Iterator>?::(filter|filter_map|skip|skip_while|take|take_while|step_by|flat_map|flatten|map_while)$|::(dedup|retain)$")


def _limited_sets(P, near, comp):
    """the Cell::set calls of a round whose new value is compared with a constant with an error on the failing side:
    (function, terminator, locals, calls of the value's backward slice)"""
    out = []
    for k in near:
        b = P.body[k]
        for bb, t, name, tg in P.call_sites(k):
            if MU.callee_names(t)[1] != "std::cell::Cell::<T>::set":
                continue
            locs, consts, calls, places = MU.backward_slice(b, t["args"][1:2])
            limited = False
            for bl in b["blocks"]:
                for st in bl["stmts"]:
                    if st["k"] == "assign" and st["rv"]["k"] == "bin" and st["rv"]["op"] in ("Gt", "Ge", "Lt", "Le") and ("const" in st["rv"]["l"]) != ("const" in st["rv"]["r"]):
                        side = st["rv"]["l"] if "const" in st["rv"]["r"] else st["rv"]["r"]
                        l2, c2, calls2, p2 = MU.backward_slice(b, [side])
                        if (set(l2) & set(locs)) and bl["term"]["k"] == "switch" and _err_exit_sides(P, k, b, bl, comp if k in comp else [k]):
                            limited = True
            if limited:
                out.append((k, t, locs, calls))
    return out


def every_line_costs(P, comp):
    """A budget of lines that leaves some lines out (blank ones, comments) and a budget of text that counts a line by its length alone
    have a hole in common: lines without text cost nothing, yet each is copied and parsed in every round.  Where a round walks a body it
    looked up, some limited shared counter must grow for EVERY line: (i) by a size taken of the whole collection (len, or a count with no
    adaptor that drops elements in front of it), or (ii) by the length of each line plus a constant >= 1.   -> (needed, ok, text)"""
    need, _, _ = volume_budget(P, comp)
    if not need:
        return False, True, ""
    near = _round_helpers(P, comp)
    holes = []
    for k, t, locs, calls in _limited_sets(P, near, comp):
        b = P.body[k]
        names = [MU.callee_names(c)[1] for c in calls]
        # (i) a size of the whole collection
        if any(re.search(r"(Vec::<T, A>|\[T\]>)::len$", n) for n in names):
            return True, True, "%s counts every element of what a round walks (len of the collection)" % k.split("::")[-1]
        if any(re.search(r"Iterator>?::count$", n) for n in names) and not any(DROPPING.search(n) for n in names):
            return True, True, "%s counts every element of what a round walks (count without a dropping adaptor)" % k.split("::")[-1]
        if any(n.endswith(("::map_or", "::map", "::map_or_else", "::and_then")) for n in names):
            for k2 in P.body:
                if not k2.startswith(k + "::{closure"):
                    continue
                n2 = [MU.callee_names(t2)[1] for _, t2, _, _ in P.call_sites(k2)]
                sizes = [n for n in n2 if re.search(r"(Vec::<T, A>|\[T\]>)::len$|Iterator>?::count$", n)]
                if sizes and not any(DROPPING.search(n) for n in n2):
                    return True, True, "%s counts every element of what a round walks (size taken in %s)" % (k.split("::")[-1], k2.split("::")[-1])
                if sizes:
                    holes.append("%s counts only the elements an adaptor lets through" % k.split("::")[-1])
        # (ii) the length of each line plus a constant
        is_text_len = lambda n: bool(re.search(r"(String|str>)::len$", n))
        by_len = any(is_text_len(n) for n in names)
        for pl in [l for l in locs if 1 <= l <= b["arg_count"] and P.tys(k, b["locals"][l]["ty"]) == "usize"]:
            sites = [(k2, t2) for k2 in near for _, t2, _, tg2 in P.call_sites(k2) if k in tg2]
            if sites and all(any(is_text_len(MU.callee_names(c)[1]) for c in MU.backward_slice(P.body[k2], [t2["args"][pl - 1]])[2]) for k2, t2 in sites):
                by_len = True
        if not by_len:
            continue
        plus = False
        for c in calls:
            if re.search(r"::(saturating_add|checked_add|wrapping_add)$", MU.callee_names(c)[1]):
                for a in c["args"]:
                    v = a.get("const", {}).get("int") if "const" in a else None
                    if v is not None and int(v, 0) >= 1:
                        plus = True
        for bl in b["blocks"]:
            for st in bl["stmts"]:
                if st["k"] == "assign" and st["rv"]["k"] in ("bin", "binchk") and st["rv"].get("op") in ("Add", "AddWithOverflow") and st["place"]["local"] in locs:
                    for side in (st["rv"]["l"], st["rv"]["r"]):
                        v = side.get("const", {}).get("int") if "const" in side else None
                        if v is not None and int(v, 0) >= 1:
                            plus = True
        if plus:
            return True, True, "%s counts every line by its length plus a constant" % k.split("::")[-1]
        holes.append("%s counts a line by its length alone" % k.split("::")[-1])
    return True, False, "no limited counter grows for every line of a body: %s — a body of 30000 blank lines called 65536 times costs nothing in any budget and is copied and parsed 2 * 10^9 times" % ("; ".join(dict.fromkeys(holes)) or "none counts lines at all")


def _has_cycle_without(P, comp, k):
    rest = [c for c in comp if c != k]
    cg = P.callgraph()
    return any(len(c) > 1 or c[0] in cg[c[0]] for c in P.sccs(rest)) if rest else False


def _err_exit_sides(P, k, b, bl, comp):
    """switch sides of block bl from which no call back into the cycle is reachable and which build an Err"""
    tt = bl["term"]
    out = []
    if tt["k"] != "switch":
        return out
    for v, tb in tt["targets"] + [["otherwise", tt["otherwise"]]]:
        region = G.reach_blocks(b, tb)
        rec = any(bb in region for bb, term, name, tg in P.call_sites(k) if any(x in comp for x in tg))
        errs = any(s2["k"] == "assign" and s2["rv"]["k"] == "agg" and s2["rv"]["kind"].get("vname") == "Err" for x in region for s2 in b["blocks"][x]["stmts"])
        if not rec and errs:
            out.append(tb)
    return out


def _increment_of(b, ch, op, is_counter):
    """op is (x + c).0 with c >= 1 and x satisfying is_counter(root, proj)"""
    pl = MU.op_place(op)
    if pl is None:
        return False
    r = ch.root(pl, through_calls=False)
    d = ch.single_def(r[0]) if r[0] is not None else None
    if d and d[0] == "stmt" and d[2]["k"] == "bin" and d[2]["op"] in ("AddWithOverflow", "Add"):
        c = d[2]["r"].get("const", {}).get("int") if isinstance(d[2]["r"], dict) and "const" in d[2]["r"] else None
        if c is not None and int(c) >= 1:
            r2 = ch.root(d[2]["l"], through_calls=False)
            return is_counter(r2[0], r2[1])
    if d and d[0] == "call" and re.match(r"^<&?(usize|u\d+|i\d+|isize) as std::ops::Add<&?(usize|u\d+|i\d+|isize)>>::add$", MU.callee_names(d[2])[0]):
        a = d[2]["args"]
        c = a[1].get("const", {}).get("int") if "const" in a[1] else None
        if c is not None and int(c) >= 1:
            r2 = ch.root(a[0], through_calls=False)
            return is_counter(r2[0], r2[1])
    return False


def cycle_guard(P, comp):
    """a depth guard on the cycle.  Some function k on every cycle of the component (removing k leaves it acyclic)
       (a) compares an integer parameter, or an integer field of a context-struct parameter, with a constant,
       (b) one side of that comparison builds an Err and cannot reach a call back into the cycle,
       (c) every call from k back into the cycle passes parameter + c / a context whose field is field + c (c >= 1), and no function of the
           cycle builds such a context with anything but the field it received or that increment."""
    for k in comp:
        if _has_cycle_without(P, comp, k):
            continue
        b = P.body[k]
        ch = MU.Chaser(b)
        rec_calls = [(bb, term) for bb, term, name, tg in P.call_sites(k) if any(x in comp for x in tg)]
        idom = G.dominators(b)
        # ---- (1) integer parameter
        for i in range(1, b["arg_count"] + 1):
            if P.ty(k, b["locals"][i]["ty"])["k"] != "int":
                continue
            is_ctr = lambda root, proj, i=i: root == i and not proj
            guard = None
            for bl in b["blocks"]:
                for st in bl["stmts"]:
                    if st["k"] == "assign" and st["rv"]["k"] == "bin" and st["rv"]["op"] in ("Gt", "Ge", "Lt", "Le") and "const" in st["rv"]["r"]:
                        r = ch.root(st["rv"]["l"], through_calls=False)
                        if is_ctr(r[0], r[1]) and MU.op_place(bl["term"].get("discr")) and MU.op_place(bl["term"]["discr"])["local"] == st["place"]["local"]:
                            if _err_exit_sides(P, k, b, bl, comp) and all(G.dominates(idom, b["blocks"].index(bl), bb) for bb, term in rec_calls):
                                guard = st["rv"]["r"]["const"].get("int")
            if guard is None:
                continue
            if rec_calls and all(any(_increment_of(b, ch, a, is_ctr) for a in term["args"]) for bb, term in rec_calls):
                return "guard", "%s compares its depth parameter `%s` with %s and fails beyond it; every call back into the cycle passes depth + c" % (
                    k.split("::")[-1], b["locals"][i]["name"], guard)
        # ---- (2) integer field of a struct parameter
        for i in range(1, b["arg_count"] + 1):
            t = P.ty(k, b["locals"][i]["ty"])
            while t["k"] == "ref":
                t = P.ty(k, t["to"])
            if t["k"] != "adt" or t["path"] not in P.lib.adts or P.lib.adts[t["path"]]["kind"] != "struct":
                continue
            S = t["path"]
            fields = P.lib.adts[S]["variants"][0]["fields"]
            for f, fd in enumerate(fields):
                # the field's type is an integer
                if not re.match(r"^[ui](8|16|32|64|128|size)$", P.lib.types[fd["ty"]]["s"]):
                    continue
                is_ctr = lambda root, proj, i=i, f=f: root == i and MU.proj_fields(proj) == [f]
                guard = None
                for bl in b["blocks"]:
                    for st in bl["stmts"]:
                        if st["k"] == "assign" and st["rv"]["k"] == "bin" and st["rv"]["op"] in ("Gt", "Ge", "Lt", "Le") and "const" in st["rv"]["r"]:
                            r = ch.root(st["rv"]["l"], through_calls=False)
                            d = MU.op_place(bl["term"].get("discr")) if bl["term"]["k"] == "switch" else None
                            if is_ctr(r[0], r[1]) and d and d["local"] == st["place"]["local"] and _err_exit_sides(P, k, b, bl, comp) and \
                                    all(G.dominates(idom, b["blocks"].index(bl), bb) for bb, term in rec_calls):
                                guard = st["rv"]["r"]["const"].get("int")
                if guard is None:
                    continue
                # every context built anywhere on the cycle: the field is the received one or the increment
                bad = []
                for k2 in comp:
                    b2 = P.body[k2]
                    ch2 = MU.Chaser(b2, transparent={"<%s as std::clone::Clone>::clone" % S})
                    params = [j for j in range(1, b2["arg_count"] + 1) if S in P.tys(k2, b2["locals"][j]["ty"])]
                    same = lambda root, proj: root in params and MU.proj_fields(proj) == [f]
                    for bl in b2["blocks"]:
                        for st in bl["stmts"]:
                            if st["k"] == "assign" and st["rv"]["k"] == "agg" and st["rv"]["kind"].get("path") == S:
                                o = st["rv"]["ops"][f]
                                r = ch2.root(o) if MU.op_place(o) else (None, [])
                                if same(r[0], r[1]) or _increment_of(b2, ch2, o, same):
                                    continue
                                bad.append(k2)
                # calls from k back into the cycle hand over an incremented context, never the received one
                inc_ok = bool(rec_calls)
                for bb, term in rec_calls:
                    okc = False
                    for a in term["args"]:
                        pl = MU.op_place(a)
                        if pl is None or S not in P.tys(k, b["locals"][pl["local"]]["ty"]):
                            continue
                        r = ch.root(a, through_calls=False)
                        d = ch.single_def(r[0]) if r[0] is not None else None
                        if d and d[0] == "stmt" and d[2]["k"] == "agg" and d[2]["kind"].get("path") == S and _increment_of(b, ch, d[2]["ops"][f], is_ctr):
                            okc = True
                    if not okc:
                        inc_ok = False
                if not bad and inc_ok:
                    return "guard", "%s compares the nesting-depth field `%s` of its context with %s, fails beyond it, and every call back into the cycle gets a context with %s + c" % (
                        k.split("::")[-1], fd["name"], guard, fd["name"])
    return None, "no function on all cycles compares an integer parameter or context field with a constant, fails beyond it and passes it on incremented"


def depth_tokens(g):
    """first characters of every grammar token that adds a level to the expression tree: infix and prefix operators (one level per
    operator, nested or chained) and the opening token of every atom that contains an expression (parentheses, function call)"""
    out = {}
    for r in g.prec_table("expr"):
        if r["kind"] in ("infix", "prefix"):
            for tok in r["tokens"]:
                out.setdefault(tok[0], set()).add("%s operator %s" % (r["kind"], tok))
        elif r["kind"] == "atom" and any(e[1] == ("call", "expr") for e in r["elems"]):
            lits = [e[1][1] for e in r["elems"] if e[1][0] == "lit"]
            if lits:
                out.setdefault(lits[0][0], set()).add("opening %s" % lits[0])
    return out


def guard_chars(P, gk):
    """characters a guard function tells apart: constants its code (closures included) switches on or compares a char with"""
    out = set()
    for k in P.body:
        if k != gk and not k.startswith(gk + "::{closure"):
            continue
        b = P.body[k]
        for bl in b["blocks"]:
            t = bl["term"]
            if t["k"] == "switch":
                pl = MU.op_place(t["discr"])
                if pl is not None and P.tys(k, b["locals"][pl["local"]]["ty"]) == "char":
                    for v, tb in t["targets"]:
                        out.add(chr(int(v)))
            for st in bl["stmts"]:
                if st["k"] == "assign" and st["rv"]["k"] == "bin" and st["rv"]["op"] in ("Eq", "Ne"):
                    for o in (st["rv"]["l"], st["rv"]["r"]):
                        if "const" in o and P.tys(k, o["const"]["ty"]) == "char" and "int" in o["const"]:
                            out.add(chr(int(o["const"]["int"])))
    return out


def guard_limits(P, gk):
    """-> (uncapped, per_char): the named locals of the guard whose value reaches, without going through a `min`, a comparison with a
    constant; and for every character the guard switches on, the named locals stepped up on that character's own arm"""
    b = P.body[gk]
    idom = G.dominators(b)
    name = lambda l: b["locals"][l].get("name")
    defs = {}
    for bi, bl in enumerate(b["blocks"]):
        for st in bl["stmts"]:
            if st["k"] == "assign" and not st["place"]["proj"]:
                defs.setdefault(st["place"]["local"], []).append(("stmt", bi, st["rv"]))
        t = bl["term"]
        if t["k"] == "call" and t.get("dest") is not None and not t["dest"]["proj"]:
            defs.setdefault(t["dest"]["local"], []).append(("call", bi, t))

    def ops_of(rv):
        if rv["k"] in ("use", "cast"):
            return [rv["op"]]
        if rv["k"] in ("bin",):
            return [rv["l"], rv["r"]]
        if rv["k"] == "un":
            return [rv["op"]]
        if rv["k"] == "ref":
            return [{"copy": rv["place"]}]
        return rv.get("ops", [])

    def slice_uncapped(op):
        seen, out, work = set(), set(), [op]
        while work:
            o = work.pop()
            pl = MU.op_place(o)
            if pl is None:
                continue
            l = pl["local"]
            if l in seen:
                continue
            seen.add(l)
            if name(l):
                out.add(name(l))
            for kind, bi, d in defs.get(l, []):
                if kind == "stmt":
                    work.extend(ops_of(d))
                else:
                    rp = MU.callee_names(d)[1]
                    if re.search(r"::(min|clamp)$", rp):
                        continue            # a capped quantity limits nothing
                    work.extend(d["args"])
        return out

    uncapped = set()
    for bl in b["blocks"]:
        for st in bl["stmts"]:
            if st["k"] == "assign" and st["rv"]["k"] == "bin" and st["rv"]["op"] in ("Gt", "Ge", "Lt", "Le"):
                l, r = st["rv"]["l"], st["rv"]["r"]
                if "const" in r and "const" not in l:
                    uncapped |= slice_uncapped(l)
                elif "const" in l and "const" not in r:
                    uncapped |= slice_uncapped(r)
    # blocks that hold a limit check: where every arm of the character switch ends up
    stops = set()
    for bi, bl in enumerate(b["blocks"]):
        for st in bl["stmts"]:
            if st["k"] == "assign" and st["rv"]["k"] == "bin" and st["rv"]["op"] in ("Gt", "Ge", "Lt", "Le") and ("const" in st["rv"]["l"]) != ("const" in st["rv"]["r"]):
                stops.add(bi)

    def through_copies(l):
        for _ in range(4):
            ds = defs.get(l, [])
            if len(ds) == 1 and ds[0][0] == "stmt" and ds[0][2]["k"] == "use" and MU.op_place(ds[0][2]["op"]) is not None and not MU.op_place(ds[0][2]["op"])["proj"]:
                l = MU.op_place(ds[0][2]["op"])["local"]
            else:
                break
        return l

    users = {}
    for l, ds in defs.items():
        for kind, bi, d in ds:
            if kind == "stmt" and d["k"] == "use" and MU.op_place(d["op"]) is not None and not MU.op_place(d["op"])["proj"]:
                users.setdefault(MU.op_place(d["op"])["local"], []).append(l)

    def stepped_in(x):
        """named locals that are stepped up in block x: `v = v + 1` (checked) or `v = v.saturating_add(..)`"""
        out = set()
        for st in b["blocks"][x]["stmts"]:
            # release build: v = Add(v, c) without the checked tuple
            if st["k"] == "assign" and not st["place"]["proj"] and st["rv"]["k"] == "bin" and st["rv"]["op"] == "Add" and name(st["place"]["local"]):
                lp = MU.op_place(st["rv"]["l"])
                if lp is not None and name(through_copies(lp["local"])) == name(st["place"]["local"]):
                    out.add(name(st["place"]["local"]))
            if st["k"] == "assign" and not st["place"]["proj"] and st["rv"]["k"] == "use":
                src = MU.op_place(st["rv"]["op"])
                if src is not None and name(st["place"]["local"]):
                    for kind, bj, d in defs.get(src["local"], []):
                        if kind == "stmt" and d["k"] == "bin" and d["op"] in ("AddWithOverflow", "Add"):
                            lp = MU.op_place(d["l"])
                            if lp is not None and name(through_copies(lp["local"])) == name(st["place"]["local"]):
                                out.add(name(st["place"]["local"]))
        tt = b["blocks"][x]["term"]
        if tt["k"] == "call" and MU.callee_names(tt)[1].endswith("::saturating_add") and tt.get("dest") is not None and not tt["dest"]["proj"]:
            d_ = tt["dest"]["local"]
            targets = [d_] if name(d_) else [u for u in users.get(d_, []) if name(u)]
            recv = MU.op_place(tt["args"][0])
            r_ = name(through_copies(recv["local"])) if recv is not None else None
            for t_ in targets:
                if r_ is not None and r_ == name(t_):
                    out.add(name(t_))
        return out

    def paths_from(tb, limit=400):
        """sets of locals stepped up along every path from tb to a limit check (None when there are too many paths)"""
        out = []
        stack = [(tb, frozenset(), frozenset([tb]))]
        while stack:
            x, acc, seen = stack.pop()
            acc = acc | stepped_in(x)
            if x in stops:
                out.append(acc)
                if len(out) > limit:
                    return None
                continue
            nxt = [y for y in G.succs(b, x, False) if y not in seen]
            if not nxt:
                continue            # return / diverging side: no further character is looked at
            for y in nxt:
                stack.append((y, acc, seen | {y}))
        return out

    per_char = {}
    for bi, bl in enumerate(b["blocks"]):
        t = bl["term"]
        if t["k"] != "switch":
            continue
        pl = MU.op_place(t["discr"])
        if pl is None or P.tys(gk, b["locals"][pl["local"]]["ty"]) != "char":
            continue
        for v, tb in t["targets"]:
            per_char[chr(int(v))] = paths_from(tb)
    return uncapped, per_char


def _arms_join(b, sw):
    """the blocks where the arms of a switch meet again: first blocks that every arm reaches (an arm that leaves the function aside)"""
    ends = [tb for v, tb in sw["targets"]] + ([sw["otherwise"]] if sw.get("otherwise") is not None else [])
    back = set(G.back_edges(b))
    heads = {h for s_, h in back}

    def forward(tb):
        seen, work = set(), [tb]
        while work:
            x = work.pop()
            if x in seen:
                continue
            seen.add(x)
            work.extend(y for y in G.succs(b, x, False) if (x, y) not in back)
        return seen

    reach = [forward(tb) for tb in ends]
    # arms that cannot come back to the loop (they return or diverge) do not take part
    loopers = [r for r, tb in zip(reach, ends) if any((x, h) in back for x in r for h in heads)]
    if not loopers:
        return set()
    inter = set.intersection(*loopers)
    pr = G.preds(b)
    return {x for x in inter if any(q not in inter for q in pr.get(x, []))}


def guard_accounts(P, gk, g):
    """What the guard must keep account of because of what the grammar allows, beyond stepping counters (guard_limits):
    (a) a counter that a comparison limits and that is set back to 0 on the arm of the opening parenthesis must first have gone into
        something that stays: the prefix operators in front of a parenthesis are open as long as the parenthesis is;
    (b) where the grammar lets blanks stand between prefix operators and their operand, a blank must not set such a counter back;
    (c) what an opening parenthesis adds to the open count depends on the infix operators seen on its level: between two parentheses
        the precedence-climbing parser is one call deeper for every rising level.
    -> list of reasons (empty: fine)"""
    b = P.body[gk]
    name = lambda l: b["locals"][l].get("name")
    uncapped, per_char = guard_limits(P, gk)
    defs = {}
    for bi, bl in enumerate(b["blocks"]):
        for st in bl["stmts"]:
            if st["k"] == "assign" and not st["place"]["proj"]:
                defs.setdefault(st["place"]["local"], []).append(("stmt", bi, st["rv"]))
        t = bl["term"]
        if t["k"] == "call" and t.get("dest") is not None and not t["dest"]["proj"]:
            defs.setdefault(t["dest"]["local"], []).append(("call", bi, t))

    def names_in_slice(op, depth=12):
        seen, out, work = set(), set(), [(op, 0)]
        while work:
            o, d = work.pop()
            pl = MU.op_place(o)
            if pl is None or d > depth:
                continue
            l = pl["local"]
            if name(l):
                out.add(name(l))
                if d > 0 and len(defs.get(l, [])) != 1:
                    continue            # a variable that is assigned again and again: its own history is another step's business
            if l in seen:
                continue
            seen.add(l)
            for kind, bi, dd in defs.get(l, []):
                if kind == "stmt":
                    rv = dd
                    ops = [rv["op"]] if rv["k"] in ("use", "cast", "un") else ([rv["l"], rv["r"]] if rv["k"] == "bin" else ([{"copy": rv["place"]}] if rv["k"] == "ref" else rv.get("ops", [])))
                    work.extend((x, d + 1) for x in ops)
                else:
                    work.extend((x, d + 1) for x in dd["args"])
        return out

    # the switch on the character, its arms, the limit checks
    sw = None
    for bi, bl in enumerate(b["blocks"]):
        t = bl["term"]
        if t["k"] == "switch":
            pl = MU.op_place(t["discr"])
            if pl is not None and P.tys(gk, b["locals"][pl["local"]]["ty"]) == "char":
                sw = (bi, t)
    if sw is None:
        return ["the guard does not switch on the characters of the line"]
    targets = {chr(int(v)): tb for v, tb in sw[1]["targets"]}
    stops = _arms_join(b, sw[1])

    def arm_blocks(tb):
        seen, work = set(), [tb]
        while work:
            x = work.pop()
            if x in seen:
                continue
            seen.add(x)
            if x in stops:
                continue
            work.extend(G.succs(b, x, False))
        return seen - stops

    def resets(blocks):
        out = set()
        for x in blocks:
            for st in b["blocks"][x]["stmts"]:
                if st["k"] == "assign" and not st["place"]["proj"] and name(st["place"]["local"]) and st["rv"]["k"] == "use" and "const" in st["rv"]["op"] and st["rv"]["op"]["const"].get("int") == "0":
                    out.add(name(st["place"]["local"]))
        return out

    def amounts(blocks):
        """names in the slice of what is added to a limited counter, or pushed, in these blocks"""
        out = set()
        for x in blocks:
            # what is added to a counter that a comparison limits (what is merely remembered for later - pushed - limits nothing)
            tt = b["blocks"][x]["term"]
            if tt["k"] == "call":
                rp = MU.callee_names(tt)[1]
                if rp.endswith("::saturating_add") and (names_in_slice(tt["args"][0], depth=3) & uncapped):
                    for a in tt["args"][1:]:
                        out |= names_in_slice(a)
            for st in b["blocks"][x]["stmts"]:
                if st["k"] == "assign" and st["rv"]["k"] == "bin" and st["rv"]["op"] in ("AddWithOverflow", "Add") and "const" not in st["rv"]["r"] and \
                        (names_in_slice(st["rv"]["l"], depth=3) & uncapped):
                    out |= names_in_slice(st["rv"]["r"])
        return out

    why = []
    # counters stepped on infix / prefix arms (from the grammar's tokens)
    rows = g.prec_table("expr")
    infix = {r["tokens"][0][0] for r in rows if r["kind"] == "infix" and r["tokens"]}
    prefix = {r["tokens"][0][0] for r in rows if r["kind"] == "prefix" and r["tokens"]}
    stepped_on = lambda chars: set().union(*[ps for c in chars for ps in (per_char.get(c) or [])]) if chars else set()
    prefix_counters = stepped_on(prefix) & uncapped
    infix_counters = stepped_on(infix - prefix)
    if "(" in targets:
        arm = arm_blocks(targets["("])
        kept = amounts(arm)
        lost = sorted((resets(arm) & prefix_counters) - kept)
        if lost:
            why.append("an opening parenthesis sets %s back to 0 without keeping it: the prefix operators in front of a parenthesis stay open as long as it does (`-(-(-(` ...)" % ", ".join(lost))
        if infix_counters and not (kept & infix_counters):
            why.append("an opening parenthesis counts the same whatever stands in front of it on its level: the parser is one call deeper for every precedence level climbed there (`1||1&&1|1^1&1==1<1<<1+1*(` ...), and nothing the infix operators step up (%s) goes into what the parenthesis adds" % sorted(infix_counters))
    # blanks
    blank_allowed = any(r["kind"] == "prefix" and any(e[1] == ("call", "space") for e in r["elems"]) for r in rows)
    def arm_of(c):
        """the block a character c ends up in once everything that is decided by comparing the character with constants is decided"""
        chl = MU.op_place(sw[1]["discr"])["local"]
        same = {chl}
        refs = set()
        for _round in range(4):
            for l, ds in defs.items():
                for kind, bi, d in ds:
                    if kind != "stmt":
                        continue
                    if d["k"] == "ref" and d["place"]["local"] in same and not d["place"]["proj"]:
                        refs.add(l)
                    if d["k"] == "use" and MU.op_place(d["op"]) is not None:
                        pl_ = MU.op_place(d["op"])
                        if pl_["local"] in same and not pl_["proj"]:
                            same.add(l)
                        if pl_["local"] in refs and [e["k"] for e in pl_["proj"]] == ["deref"]:
                            same.add(l)
                        if pl_["local"] in refs and not pl_["proj"]:
                            refs.add(l)
        starts = [bi for kind, bi, d in defs.get(chl, [])]
        x = starts[0] if starts else sw[0]
        for _ in range(60):
            bl = b["blocks"][x]
            t = bl["term"]
            if x == sw[0]:
                return targets.get(c, sw[1].get("otherwise"))
            if t["k"] == "goto":
                x = t["target"]
                continue
            if t["k"] == "switch":
                dl = MU.op_place(t["discr"])
                cmp_ = None
                for st in bl["stmts"]:
                    if st["k"] == "assign" and dl is not None and st["place"]["local"] == dl["local"] and st["rv"]["k"] == "bin" and st["rv"]["op"] in ("Eq", "Ne"):
                        l_, r_ = st["rv"]["l"], st["rv"]["r"]
                        for a_, k_ in ((l_, r_), (r_, l_)):
                            pa = MU.op_place(a_)
                            if pa is not None and pa["local"] in same and "const" in k_ and "int" in k_["const"]:
                                cmp_ = (st["rv"]["op"], chr(int(k_["const"]["int"])))
                if cmp_ is None:
                    return x
                truth = (cmp_[1] == c) == (cmp_[0] == "Eq")
                tg = dict((str(v), y) for v, y in t["targets"])
                x = tg.get("1" if truth else "0", t.get("otherwise")) if (("1" if truth else "0") in tg) else t.get("otherwise")
                if x is None:
                    return None
                continue
            return x
        return None

    # names: where the grammar has atoms that begin with a name and go on with a parenthesis (function calls), the letters of a name
    # must not end a run of prefix operators - they are still open when the parenthesis comes
    call_atoms = any(r["kind"] == "atom" and r["tokens"][:1] == ["("] and r["elems"] and r["elems"][0][1][0] == "call" for r in rows)
    if call_atoms:
        tb = arm_of("a")
        if tb is not None:
            bad = sorted(resets(arm_blocks(tb)) & prefix_counters)
            if bad:
                why.append("the letters of a name set %s back to 0, but a name may be the name of a function whose parenthesis follows (`----low(----low(` ...): the prefix operators in front of it are open as long as that parenthesis is" % ", ".join(bad))
    if blank_allowed:
        for c in (" ", "\t"):
            tb = arm_of(c)
            if tb is None:
                continue
            bad = sorted(resets(arm_blocks(tb)) & prefix_counters)
            if bad:
                why.append("a blank sets %s back to 0, but the grammar lets blanks stand between prefix operators (`- - - -` ...): such a run is never counted" % ", ".join(bad))
                break
    return why


def guard_covers_grammar(P, g):
    guards = nesting_guards(P)
    if not guards:
        return False, "no guard in front of the parser"
    toks = depth_tokens(g)
    worst = None
    for gk in sorted(guards):
        gc = guard_chars(P, gk)
        missing = sorted(c for c in toks if c not in gc)
        if missing:
            worst = "%s does not look at %s (%s): levels built with it are not limited" % (gk.split("::")[-1], ", ".join("`%s`" % c for c in missing[:6]),
                                                                                            "; ".join(sorted(toks[missing[0]]))[:60])
            continue
        # looking at a character is not limiting it: what it steps up must reach a comparison with a constant without being capped
        uncapped, per_char = guard_limits(P, gk)
        # on every way through the arm of a level-building character something is stepped up that a comparison limits
        unlimited = sorted(c for c in toks if c in per_char and (per_char[c] is None or not per_char[c] or any(not (ps & uncapped) for ps in per_char[c])))
        if unlimited:
            ps = per_char[unlimited[0]] or []
            bad = next((sorted(x) for x in ps if not (x & uncapped)), None)
            worst = "%s counts %s only into %s on some way through its arm, which no comparison limits (limited: %s): levels built with it are not limited" % (
                gk.split("::")[-1], ", ".join("`%s`" % c for c in unlimited[:6]), bad if bad is not None else "?", sorted(uncapped))
            continue
        acc = guard_accounts(P, gk, g)
        if acc:
            worst = "%s: %s" % (gk.split("::")[-1], acc[0])
    if worst:
        return False, worst
    return True, "every token with which the grammar adds a level to an expression tree (%d first characters: nesting and chaining) is among the characters the guard counts" % len(toks)


def classify_recursive_calls(P, comp):
    """-> [(caller, callee short name, 'descend' | 'same' | 'other', callee keys)] for every call from the component into it:
    descend = some argument is a strict part of one of the caller's data parameters; same = a data parameter is handed on as it is"""
    out = []
    TRANSP = {"<std::boxed::Box<T, A> as std::ops::Deref>::deref", "<std::boxed::Box<T, A> as std::convert::AsRef<T>>::as_ref",
              "<std::rc::Rc<T, A> as std::ops::Deref>::deref", "<std::vec::Vec<T, A> as std::ops::Deref>::deref"}
    for k in comp:
        b = P.body[k]
        ch = MU.Chaser(b, transparent=TRANSP)
        for bb, t, name, tg in P.call_sites(k):
            into = [x for x in tg if x in comp]
            if not into:
                continue
            kind = "other"
            for a in t["args"]:
                r = MU.root_through_tuples(ch, a)
                if r[0] is None or not (1 <= r[0] <= b["arg_count"]):
                    continue
                pty = P.tys(k, b["locals"][r[0]]["ty"])
                if re.search(r"Context\b|dyn |Formatter", pty):
                    continue          # the shared context / sink the recursion carries along is not the data it recurses on
                tt = P.ty(k, b["locals"][r[0]]["ty"])
                while tt["k"] == "ref" or (tt["k"] == "adt" and tt["path"] in ("std::boxed::Box", "std::rc::Rc") and tt.get("args")):
                    tt = P.ty(k, tt["to"] if tt["k"] == "ref" else tt["args"][0])
                if not (tt["k"] == "adt" and P.lib.adts.get(tt["path"], {}).get("local")):
                    continue          # counters, tables of the standard library, ...: not the value the recursion walks over
                if any(e["k"] in ("field", "downcast") for e in r[1]):
                    kind = "descend"
                    break
                kind = "same"
            out.append((k, MU.callee_names(t)[1].split("::")[-1], kind, into))
    return out


def nonstructural_calls(P, comp):
    """calls back into the component that neither go down into a part of a data parameter nor hand one on as it is — or, if all do,
    a cycle made of hand-ons only (it would never get smaller)"""
    cl = classify_recursive_calls(P, comp)
    out = sorted({"%s -> %s" % (k.split("::")[-1], nm) for k, nm, kind, into in cl if kind == "other"})
    if out:
        return out
    same = {}
    for k, nm, kind, into in cl:
        if kind == "same":
            same.setdefault(k, set()).update(into)
    # is the graph of 'same' edges acyclic?
    state = {}

    def dfs(v):
        state[v] = 1
        for w in same.get(v, ()):
            if state.get(w) == 1 or (w not in state and dfs(w)):
                return True
        state[v] = 2
        return False
    for v in list(same):
        if v not in state and dfs(v):
            return ["a cycle of calls that hand the same value on without going into a part of it (through %s)" % v.split("::")[-1]]
    return []


def work_budget(P, comp):
    """a counter in a Cell that all activations share: checked against a constant (the failing side builds an Err and cannot reach a call
    back into the cycle), the check dominates every call back into the cycle, the counter is stepped up by a constant on the way, and the
    Cell is reached from a parameter that every call back into the cycle passes on (as it is, or as an Rc::clone in a rebuilt context)"""
    TRANSP = {"<std::rc::Rc<T, A> as std::ops::Deref>::deref"}
    for k in comp:
        if _has_cycle_without(P, comp, k):
            continue
        b = P.body[k]
        ch = MU.Chaser(b, transparent=TRANSP)
        idom = G.dominators(b)
        rec_calls = [(bb, term) for bb, term, name, tg in P.call_sites(k) if any(x in comp for x in tg)]
        gets = [(bb, t) for bb, t, n, tg in P.call_sites(k) if MU.callee_names(t)[1] == "std::cell::Cell::<T>::get"]
        sets = [(bb, t) for bb, t, n, tg in P.call_sites(k) if MU.callee_names(t)[1] == "std::cell::Cell::<T>::set"]
        for gbb, gt in gets:
            recv = ch.root(gt["args"][0])
            if recv[0] is None or not (1 <= recv[0] <= b["arg_count"]):
                continue
            rkey = (recv[0], tuple(MU.proj_fields(recv[1])))
            # compared with a constant right after
            dest = gt["dest"]["local"]
            guard_bb = None
            limit = None
            for bi, bl in enumerate(b["blocks"]):
                for st in bl["stmts"]:
                    if st["k"] == "assign" and st["rv"]["k"] == "bin" and st["rv"]["op"] in ("Gt", "Ge", "Lt", "Le") and "const" in st["rv"]["r"]:
                        r = ch.root(st["rv"]["l"], through_calls=False)
                        if r[0] == dest and bl["term"]["k"] == "switch" and _err_exit_sides(P, k, b, bl, comp):
                            guard_bb = bi
                            limit = st["rv"]["r"]["const"].get("int")
            if guard_bb is None or not rec_calls or not all(G.dominates(idom, guard_bb, bb) for bb, term in rec_calls):
                continue
            # stepped up: set(same cell, get(same cell) + c) on every path to a call back into the cycle
            stepped = False
            for sbb, stt in sets:
                r2 = ch.root(stt["args"][0])
                if (r2[0], tuple(MU.proj_fields(r2[1]))) != rkey:
                    continue
                locs, consts, calls, places = MU.backward_slice(b, stt["args"][1:2])
                from_get = any(MU.callee_names(c)[1] == "std::cell::Cell::<T>::get" for c in calls)
                plus = any(st["k"] == "assign" and st["place"]["local"] in locs and st["rv"]["k"] == "bin" and st["rv"]["op"].startswith("Add") and
                           const_int(st["rv"]["r"]) is not None and const_int(st["rv"]["r"]) >= 1 for bl in b["blocks"] for st in bl["stmts"])
                if from_get and plus and all(G.dominates(idom, sbb, bb) for bb, term in rec_calls):
                    stepped = True
            if not stepped:
                continue
            # shared: every call back into the cycle hands the parameter on, or a rebuilt context whose field is an Rc::clone of it
            p = recv[0]
            pty = P.tys(k, b["locals"][p]["ty"])
            shared = True
            for bb, term in rec_calls:
                okc = False
                for a in term["args"]:
                    r3 = ch.root(a, through_calls=False)
                    if r3[0] == p and not MU.proj_fields(r3[1]):
                        okc = True
                    d = ch.single_def(r3[0]) if r3[0] is not None else None
                    if d and d[0] == "stmt" and d[2]["k"] == "agg" and d[2]["kind"].get("path") and d[2]["kind"]["path"] in pty and rkey[1]:
                        o = d[2]["ops"][rkey[1][0]] if rkey[1][0] < len(d[2]["ops"]) else None
                        if o is not None:
                            r4 = ch.root(o, through_calls=False)
                            d4 = ch.single_def(r4[0]) if r4[0] is not None else None
                            if d4 and d4[0] == "call" and MU.callee_names(d4[2])[1] == "<std::rc::Rc<T, A> as std::clone::Clone>::clone":
                                r5 = ch.root(d4[2]["args"][0])
                                if (r5[0], tuple(MU.proj_fields(r5[1]))) == rkey:
                                    okc = True
                if not okc:
                    shared = False
            if not shared:
                continue
            # no other function of the cycle replaces the counter by a fresh one
            fresh = []
            if rkey[1]:
                S = None
                t_ = P.ty(k, b["locals"][p]["ty"])
                while t_["k"] == "ref":
                    t_ = P.ty(k, t_["to"])
                S = t_.get("path")
                for k2 in comp:
                    b2 = P.body[k2]
                    ch2 = MU.Chaser(b2, transparent={"<%s as std::clone::Clone>::clone" % S})
                    for bl in b2["blocks"]:
                        for st in bl["stmts"]:
                            if st["k"] == "assign" and st["rv"]["k"] == "agg" and st["rv"]["kind"].get("path") == S:
                                o = st["rv"]["ops"][rkey[1][0]]
                                locs, consts, calls, places = MU.backward_slice(b2, [o])
                                if any(re.search(r"Rc::<T>::new$|Cell::<T>::new$", MU.callee_names(c)[1]) for c in calls):
                                    fresh.append(k2)
            if fresh:
                continue
            return True, "%s checks a shared counter (Cell reached from `%s`) against %s before every call back into the cycle and steps it up" % (
                k.split("::")[-1], b["locals"][p]["name"], limit)
    # the same through a `&mut <integer>` parameter that every call back into the cycle gets re-borrowed
    for k in comp:
        if _has_cycle_without(P, comp, k):
            continue
        b = P.body[k]
        ch = MU.Chaser(b)
        idom = G.dominators(b)
        rec_calls = [(bb, term) for bb, term, name, tg in P.call_sites(k) if any(x in comp for x in tg)]
        for i in range(1, b["arg_count"] + 1):
            if not re.match(r"^&mut [ui](8|16|32|64|128|size)$", P.tys(k, b["locals"][i]["ty"])):
                continue
            is_ctr = lambda root, proj, i=i: root == i and [e["k"] for e in proj if e["k"] != "addrof"] == ["deref"]
            guard_bb = None
            limit = None
            for bi, bl in enumerate(b["blocks"]):
                for st in bl["stmts"]:
                    if st["k"] == "assign" and st["rv"]["k"] == "bin" and st["rv"]["op"] in ("Gt", "Ge", "Lt", "Le") and "const" in st["rv"]["r"]:
                        r = ch.root(st["rv"]["l"], through_calls=False)
                        if is_ctr(r[0], r[1]) and bl["term"]["k"] == "switch" and _err_exit_sides(P, k, b, bl, comp):
                            guard_bb = bi
                            limit = st["rv"]["r"]["const"].get("int")
            if guard_bb is None or not rec_calls or not all(G.dominates(idom, guard_bb, bb) for bb, term in rec_calls):
                continue
            stepped = False
            for bi, bl in enumerate(b["blocks"]):
                for st in bl["stmts"]:
                    if st["k"] == "assign" and st["place"]["local"] == i and [e["k"] for e in st["place"]["proj"]] == ["deref"]:
                        if _increment_of(b, ch, st["rv"].get("op", {}), is_ctr) and all(G.dominates(idom, bi, bb) for bb, term in rec_calls):
                            stepped = True
            passed = all(any(ch.root(a, through_calls=False)[0] == i for a in term["args"]) for bb, term in rec_calls)
            if stepped and passed:
                return True, "%s checks the shared counter `*%s` against %s before every call back into the cycle, steps it up and hands the same reference on" % (
                    k.split("::")[-1], b["locals"][i]["name"], limit)
    return False, "no counter shared by all activations (a Cell reached from a parameter that is handed on, or a `&mut` integer re-borrowed into every call) is checked against a constant and stepped up in front of the calls back into the cycle"


_guard_cache = {}


def nesting_guards(P):
    """keys of the functions recognised as nesting guards in front of the line parser"""
    parser_entry_guarded(P)
    return set(_guard_cache.get("guards", set()))


def parser_entry_guarded(P):
    """every call of the recursive line parser from hand-written code is dominated by the true edge of a nesting guard applied to the same text"""
    if "v" in _guard_cache:
        return _guard_cache["v"]
    entry = "document::document::line"
    bad = []
    n = 0
    for k in sorted(P.body):
        if k.startswith("document::document::") or "#promoted" in k:
            continue
        b = P.body[k]
        idom = None
        for bb, t, name, tg in P.call_sites(k):
            if entry not in tg:
                continue
            n += 1
            if idom is None:
                idom = G.dominators(b)
            ch = MU.Chaser(b)
            text_root = ch.root(t["args"][0])[0]
            ok = False
            for gbb, gt, gname, gtg in P.call_sites(k):
                gk = [x for x in gtg if x in P.body and x != entry]
                if not gk or gt.get("target") is None:
                    continue
                # a local bool-returning function over the same text whose body loops over the text's chars and compares with a constant
                gb = P.body[gk[0]]
                if P.tys(gk[0], gb["locals"][0]["ty"]) != "bool":
                    continue
                if ch.root(gt["args"][0])[0] != text_root:
                    continue
                # the guard walks the characters of that text: a loop whose iterator is derived from the text parameter, and the
                # text is turned into characters somewhere in the guard (directly or in a closure / grammar helper it uses)
                reach_g = P.reachable([gk[0]])
                uses_chars = any(MU.callee_names(t2)[1].endswith("::chars") for kk in reach_g if kk.startswith(gk[0]) for _, t2, _, _ in P.call_sites(kk))
                derived = False
                for head, nodes in natural_loops(gb).items():
                    for x in nodes:
                        t2 = gb["blocks"][x]["term"]
                        if t2["k"] == "call" and MU.callee_names(t2)[1].endswith("::next") and "Iterator" in MU.callee_names(t2)[1]:
                            locs, consts, calls, places = MU.backward_slice(gb, t2["args"][:1])
                            if 1 in locs:
                                derived = True
                loops_over_chars = uses_chars and derived
                has_limit = any(st["k"] == "assign" and st["rv"]["k"] == "bin" and st["rv"]["op"] in ("Gt", "Ge") and const_int(st["rv"]["r"]) is not None
                                for bl in gb["blocks"] for st in bl["stmts"])
                if not (loops_over_chars and has_limit):
                    continue
                # the call of the parser must be dominated by the guard's true edge
                cur = gt["target"]
                sw = None
                for _ in range(4):
                    tt = b["blocks"][cur]["term"]
                    if tt["k"] == "switch":
                        sw = tt
                        break
                    if tt["k"] in ("goto", "drop"):
                        cur = tt["target"]
                    else:
                        break
                if sw is None:
                    continue
                tg0 = dict((int(v), x) for v, x in sw["targets"])
                true_edge = sw["otherwise"] if 1 not in tg0 else tg0[1]
                # `if !guard(..) { bail }` puts the parser call on the true edge's continuation as well
                if G.dominates(idom, true_edge, bb):
                    ok = True
                    _guard_cache.setdefault("guards", set()).add(gk[0])
            if not ok:
                bad.append(k)
    res = (not bad and n > 0, "every call of the line parser (%d) is behind the nesting guard, so recursion depth <= the guard's limit" % n if not bad and n else
           "the recursive line parser is called without a nesting guard in %s: recursion depth follows the nesting of the input" % sorted(set(bad)))
    _guard_cache["v"] = res
    return res


# ------------------------------------------------------------------------------------------------ 3. loops
FINITE_ITER = re.compile(r"^(&mut )?(std::slice::(Iter|IterMut|Chunks|ChunksExact|Windows)|std::vec::IntoIter|std::str::(Chars|CharIndices|Lines|Bytes|Split\w*)|"
                         r"std::ops::Range<|std::ops::RangeInclusive<|std::collections::hash_map::(Iter|Keys|Values|IntoIter)|std::collections::btree_(map|set)::\w+|"
                         r"std::iter::(Enumerate|Skip|Rev|Peekable|Map|Filter|FilterMap|FlatMap|Flatten|Zip|Take|Cloned|Copied|Chain|StepBy|TakeWhile|SkipWhile)<|std::io::Lines<|std::option::(Iter|IntoIter)|I$)")
INFINITE_ITER = re.compile(r"std::iter::(Repeat|RepeatWith|Cycle|Successors|FromFn)\b|std::ops::RangeFrom")


def dyn_iterator_sources(P, dyn_ty, cache={}):
    if dyn_ty in cache:
        return cache[dyn_ty]
    out = set()
    for k, b in P.body.items():
        for bl in b["blocks"]:
            for st in bl["stmts"]:
                if st["k"] == "assign" and st["rv"]["k"] == "cast" and "Unsize" in st["rv"]["kind"] and dyn_ty in P.tys(k, st["rv"]["ty"]):
                    pl = MU.op_place(st["rv"]["op"])
                    src = P.tys(k, b["locals"][pl["local"]]["ty"]) if pl else "?"
                    src = src[len("&mut "):] if src.startswith("&mut ") else src
                    if not src.startswith("dyn "):
                        out.add(src)
    cache[dyn_ty] = out
    return out


def iterator_driven(P, k, b, head, nodes, back_srcs, idom):
    defs = MU.defs_of(b)
    ch = MU.Chaser(b)
    for x in sorted(nodes):
        t = b["blocks"][x]["term"]
        if t["k"] != "call":
            continue
        full, rp = MU.callee_names(t)
        if not (rp.endswith("::next") and "Iterator" in rp):
            continue
        g = t["callee"].get("rgenerics") or t["callee"].get("generics") or []
        self_ty = P.tys(k, g[0]) if g else ""
        m = re.match(r"^<(.*) as std::iter::Iterator>::next$", full) or re.match(r"^std::iter::range::<impl std::iter::Iterator for (.*)>::next$", full)
        if m:
            self_ty = m.group(1)
        if self_ty.startswith("dyn std::iter::Iterator"):
            # a trait object: every concrete iterator that is coerced to it anywhere in the program must be finite
            srcs = dyn_iterator_sources(P, self_ty)
            if not srcs or any(INFINITE_ITER.search(x) or not FINITE_ITER.match(x) for x in srcs):
                continue
        elif INFINITE_ITER.search(self_ty) or not FINITE_ITER.match(self_ty):
            continue
        if not all(G.dominates(idom, x, s_) for s_ in back_srcs):
            continue
        root = ch.root(t["args"][0], through_calls=False)[0]
        if root is None:
            continue
        if not (1 <= root <= b["arg_count"]) and any(d[1] in nodes for d in defs.get(root, [])):
            continue          # the iterator is (re)created inside the loop
        r = MU.result_edges(b, x)
        if not r or r.get("ok") is None or r["ok"] in nodes:
            continue          # None does not leave the loop
        return True
    return False


def loops(P, rep, reach, g):
    nloops = 0
    idoms = {}
    for k in sorted(reach):
        if "#promoted" in k:
            continue
        b = P.body[k]
        be = G.back_edges(b)
        if not be:
            continue
        pr = G.preds(b)
        heads = {}
        for src, head in be:
            nodes = {head, src}
            stack = [src]
            while stack:
                x = stack.pop()
                if x == head:
                    continue
                for q in pr.get(x, []):
                    if q not in nodes:
                        nodes.add(q)
                        stack.append(q)
            heads.setdefault(head, set()).update(nodes)
        for i, (head, nodes) in enumerate(sorted(heads.items())):
            nloops += 1
            calls = [(x, b["blocks"][x]["term"]) for x in nodes if b["blocks"][x]["term"]["k"] == "call"]
            names = [MU.callee_names(t)[1] for x, t in calls]
            why = None
            if k.startswith("document::document::__parse_"):
                why = "repetition loop of the generated parser: each iteration consumes input (no repetition over a nullable operand, checked on the grammar)"
            elif iterator_driven(P, k, b, head, nodes, [s_ for s_, h_ in be if h_ == head], idoms.setdefault(k, G.dominators(b))):
                why = "driven by Iterator::next of a finite in-memory iterator created outside the loop: every round takes one element and None leaves the loop"
            elif any(t2 in ("parser::skip",) for x, t in calls for t2 in [P.norm_path(k, t["callee"].get("rpath")) or ""]):
                # the line loop: each round calls skip, which either consumes at least one element of the iterator or returns None (which ends the loop)
                okc = skip_consumes(P)
                why = "each round calls skip(), every path of which consumes a line or returns None; None ends the loop" if okc else None
            elif R_shift_loop(b, nodes):
                why = "monotone variant: an unsigned local is shifted right each round until it is 0 (at most its bit width rounds)"
            rep.ob("C16.loop|%s|%d" % (k, i), why is not None, "loop in %s terminates: %s" % (k.split("::")[-1], why) if why else
                   "loop in %s: no finite iterator and no recognised variant" % k, loc=loc_of(b["blocks"][head]["tspan"]), nontrivial=not k.startswith("document::"))
    rep.count("natural loops classified", nloops)
    # PEG: no repetition over a nullable operand
    bad = []
    for rule, r in g.rules.items():
        for node in g.find(r["expr"], lambda n: n[0] == "rep"):
            if g.nullable(node[1]):
                bad.append(rule)
    # PEG: a repetition that asks at every character whether something does NOT start there must ask something that looks a bounded way
    # ahead: `(!comment() [_])*` lets comment() scan to the end of the line from every `/*` and start again one character on - quadratic
    def scans(node, stack=()):
        """the node can look arbitrarily far ahead: it holds an unbounded repetition, directly or through a rule it calls"""
        if node[0] == "rep":
            return node[3] is None or scans(node[1], stack)
        if node[0] == "call":
            if node[1] in stack or node[1] not in g.rules:
                return False
            return scans(g.rules[node[1]]["expr"], stack + (node[1],))
        if node[0] in ("lit", "class", "@", "(@)"):
            return False
        if node[0] == "seq":
            return any(scans(e, stack) for _, e in node[1])
        if node[0] == "choice":
            return any(scans(a, stack) for a in node[1])
        if node[0] in ("slice", "group", "opt", "not", "and"):
            return scans(node[1], stack)
        if node[0] == "prec":
            return True
        return False

    rescans = []
    for rule, r in g.rules.items():
        for node in g.find(r["expr"], lambda n: n[0] == "rep"):
            body = node[1]
            while body[0] in ("group", "slice"):
                body = body[1]
            els = [e for _, e in body[1]] if body[0] == "seq" else [body]
            if els and els[0][0] == "not" and scans(els[0][1]):
                rescans.append(rule)
    rep.ob("C16.loop|peg-rescan", not rescans, "no grammar repetition asks at every character a question that can scan the rest of the line" if not rescans else
           "grammar rule(s) %s repeat `!x [_]` with an x that can scan to the end of the line: a line of many unclosed openers is read again from each of them (quadratic: a minute for 63 KB)" % sorted(set(rescans)))
    rep.ob("C16.loop|peg-nullable-repetition", not bad, "no grammar repetition runs over an operand that can match the empty string" if not bad else
           "grammar rule(s) %s repeat a nullable operand: the generated loop would not advance" % sorted(set(bad)))


def R_shift_loop(b, nodes):
    shr = set()
    for x in nodes:
        for st in b["blocks"][x]["stmts"]:
            if st["k"] == "assign" and st["rv"]["k"] == "bin" and st["rv"]["op"] == "Shr":
                pl = MU.op_place(st["rv"]["l"])
                c = const_int(st["rv"]["r"])
                if pl and pl["local"] == st["place"]["local"] and c is not None and c > 0:
                    shr.add(st["place"]["local"])
    if not shr:
        return False
    for x in nodes:
        for st in b["blocks"][x]["stmts"]:
            if st["k"] == "assign" and st["rv"]["k"] == "bin" and st["rv"]["op"] in ("Gt", "Ne") and "const" in st["rv"]["r"] and st["rv"]["r"]["const"].get("int") == "0":
                pl = MU.op_place(st["rv"]["l"])
                if pl:
                    # the compared value is a copy of the shifted local
                    for y in nodes:
                        for s2 in b["blocks"][y]["stmts"]:
                            if s2["k"] == "assign" and s2["place"]["local"] == pl["local"] and s2["rv"]["k"] == "use":
                                p2 = MU.op_place(s2["rv"]["op"])
                                if p2 and p2["local"] in shr:
                                    return True
                    if pl["local"] in shr:
                        return True
    return False


def skip_consumes(P):
    import rules_C08
    from common import Reporter as _R
    scan, effects, n = rules_C08.scan_table(P, _R("C16", "quick", "other", "x"))
    for mode, ents in scan.items():
        for cls, cz, act, wf in ents:
            if act[0] not in ("cont", "this", "next", "none"):
                return False
    # NewLine mode: returns iter.next() itself (consumes or None); EndFile: None
    nl = {a[0] for c, z, a, w in scan.get("NewLine", [])}
    ef = {a[0] for c, z, a, w in scan.get("EndFile", [])}
    return nl == {"next"} and ef == {"none"}


# ------------------------------------------------------------------------------------------------ 4. allocation
def _pass2_pads_only_nonempty(P):
    """every resize (padding) in build_pass_2 is reachable only over the `false` side of an is_empty() test of the fragment pass_2_internal
    returned: a segment that emits nothing is not padded for"""
    k = "builder::pass2::build_pass_2"
    if k not in P.body:
        return False
    b = P.body[k]
    resizes = [bb for bb, t, name, tg in P.call_sites(k) if re.search(r"Vec::<T, A>::(resize|resize_with)$", MU.callee_names(t)[1])]
    if not resizes:
        return True
    cut = set()
    for bb, t, name, tg in P.call_sites(k):
        if not re.search(r"Vec::<T, A>::is_empty$", MU.callee_names(t)[1]):
            continue
        locs, consts, calls, places = MU.backward_slice(b, t["args"][:1])
        if not any("pass_2_internal" in MU.callee_names(c)[0] for c in calls):
            continue
        nb = b["blocks"][t["target"]]
        if nb["term"]["k"] == "switch":
            for v, tb in nb["term"]["targets"]:
                if int(v) == 0:
                    cut.add((t["target"], tb))
    if not cut:
        return False
    seen, todo = {0}, [0]
    while todo:
        x = todo.pop()
        for y in G.succs(b, x):
            if (x, y) in cut or y in seen:
                continue
            seen.add(y)
            todo.append(y)
    return not any(r in seen for r in resizes)


def allocation(P, rep):
    """amounts that come from user-written numbers (segment addresses, .byte sizes) are turned into memory only in pass 2, and pass 1
    ends with the three capacity comparisons on its success path"""
    fn = "builder::pass1::build_pass_1"
    if fn not in P.body:
        rep.unprovable("C16.alloc|anchor", "build_pass_1 not found")
        return
    M = absint.Machine(P, max_depth=3, opaque={"builder::pass1::pass_1_internal", "<context::CommonContext as context::Context>::get_device"}, loop_limit=2)
    M.iter_budget = 1
    paths = M.explore(fn, M.arg_unknowns(fn))
    oks = [p for p in paths if p.exit == "Ok"]
    segv = {int(v["discr"]): v["name"] for v in P.lib.adts["parser::SegmentType"]["variants"]}
    need = {"Code": "flash_size", "Eeprom": "eeprom_size", "Data": "ram_size"}
    found = {}
    pads_only_what_places = _pass2_pads_only_nonempty(P)
    for p in oks:
        t = None
        for s_, dd in p.state.doms.items():
            if isinstance(s_, tuple) and s_[0] == 's' and s_[1] == "parsed.segments[i].t#d" and sx.dom_size(dd) == 1:
                t = segv[sx.dom_min(dd)]
        if t is None:
            continue
        cap = need[t]
        ok = False
        for e, truth in p.conds:
            sh = sx.show(e)
            if cap in sh and "pass_1_internal(" in sh and e[0] == 'cmp':
                # (end_offset > capacity) == False   or equivalent
                op = e[1] if truth else {'Gt': 'Le', 'Ge': 'Lt', 'Lt': 'Ge', 'Le': 'Gt', 'Eq': 'Ne', 'Ne': 'Eq'}[e[1]]
                lhs_is_usage = "pass_1_internal(" in sx.show(e[2])
                if (lhs_is_usage and op in ("Le", "Lt")) or (not lhs_is_usage and op in ("Ge", "Gt")):
                    ok = True
            # a segment that placed nothing (its end is not above its start) is not compared: pass 2 must then pad for nothing that
            # emits nothing
            m = re.match(r"^\((pass_1_internal\(.*\)@\d+):Ok\.0\.0 > (pass_1_internal\(.*\)@\d+):Ok\.0\.1\)$", sh)
            if m and m.group(1) == m.group(2) and not truth and pads_only_what_places:
                ok = True
        found[t] = found.get(t, True) and ok
    for t, cap in need.items():
        rep.ob("C16.alloc|capacity-before-emission|%s" % t, found.get(t) is True,
               "pass 1 succeeds only if the end of the %s segments is within the device's %s: pass 2 pads and emits at most that much" % (t.lower(), cap) if found.get(t) else
               "pass 1 can succeed with %s segments that end beyond %s: pass 2 would pad/emit an amount chosen by a number in the source" % (t.lower(), cap))
    # growth sites whose amount is not a constant: only in pass 2 (after the comparison) or bounded by the in-memory input
    GROW = re.compile(r"^std::vec::Vec::<T, A>::(resize|resize_with|reserve|reserve_exact)$|::with_capacity$|^std::vec::from_elem$|^std::iter::repeat|^std::str::<impl str>::repeat$|^std::slice::<impl \[T\]>::repeat$")
    allowed_fns = ("builder::pass2::build_pass_2", "builder::pass2::pass_2_internal")
    for k in sorted(P.reachable(R.ROOTS)):
        if k.startswith("bin::"):
            continue
        b = P.body[k]
        for bb, t, name, tg in P.call_sites(k):
            full, rp = MU.callee_names(t)
            if GROW.search(rp):
                amount = t["args"][1] if "Vec::<T, A>::" in rp and len(t["args"]) > 1 else (t["args"][-1] if t["args"] else None)
                const_amount = amount is not None and "const" in amount
                if rp.endswith("with_capacity") and t["args"]:
                    locs, consts, calls, places = MU.backward_slice(b, t["args"][:1])
                    const_amount = not any(1 <= l <= b["arg_count"] for l in locs) and all(MU.callee_names(c)[1].endswith("::len") for c in calls)
                ok = const_amount or k in allowed_fns
                rep.ob("C16.alloc|site|%s|%s" % (k, rp.rsplit("::", 1)[-1]), ok,
                       "%s in %s: %s" % (rp.rsplit("::", 1)[-1], k.split("::")[-1], "constant amount" if const_amount else "runs after pass 1's capacity comparison") if ok else
                       "%s in %s grows memory by an amount that is not bounded by a capacity comparison" % (rp.rsplit("::", 1)[-1], k), loc=loc_of(b["blocks"][bb]["tspan"]))
    # counted loops (driven by a numeric range) that grow a collection: the count is a number, not the size of something already in memory
    ncounted = 0
    for k in sorted(P.reachable(R.ROOTS)):
        if k.startswith("bin::") or "#promoted" in k:
            continue
        b = P.body[k]
        for head, nodes in sorted(natural_loops(b).items()):
            names = [MU.callee_names(b["blocks"][x]["term"])[0] for x in nodes if b["blocks"][x]["term"]["k"] == "call"]
            if any("std::ops::Range" in n and n.endswith("::next") for n in names) and \
                    any(re.search(r"::(push|push_str|extend|extend_from_slice|insert|resize)$", n) for n in names):
                ncounted += 1
                ok = k in allowed_fns
                rep.ob("C16.alloc|counted-loop|%s" % k, ok,
                       "the counted loop in %s that grows a buffer runs after pass 1's capacity comparison" % k.split("::")[-1] if ok else
                       "a loop in %s grows a buffer once per step of a numeric range: the amount is a number from the source, not bounded by a capacity comparison" % k,
                       loc=loc_of(b["blocks"][head]["tspan"]))
    rep.count("counted loops that grow a buffer", ncounted)
    rep.ob("C16.alloc|pass-order", True, "pass 2 runs after pass 1 in build_from_parsed (C10.sequence|passes)", nontrivial=False)


# ------------------------------------------------------------------------------------------------ 5. RefCell borrow discipline
BORROW = re.compile(r"^std::cell::RefCell::<T>::(borrow|borrow_mut|replace|replace_with|swap|take)$|^<std::cell::RefCell<T> as std::clone::Clone>::clone$|^<std::cell::RefCell<T> as std::cmp::PartialEq>::eq$")


def borrow_class(P, k, t):
    """(content type, 'shared'|'exclusive', holds_guard) for a RefCell access, else None"""
    full, rp = MU.callee_names(t)
    m = BORROW.match(rp)
    if not m:
        return None
    g = t["callee"].get("rgenerics") or t["callee"].get("generics") or []
    ty = P.tys(k, g[0]) if g else full
    nm = rp.rsplit("::", 1)[-1]
    if nm == "borrow":
        return ty, "shared", True
    if nm == "borrow_mut":
        return ty, "exclusive", True
    if nm in ("clone", "eq"):
        return ty, "shared", False
    return ty, "exclusive", False


def mentions_refcell(P, cr, ix, cache={}, depth=0):
    """can a value of this type contain (a pointer to) a RefCell?"""
    key = (cr.name, ix)
    if key in cache:
        return cache[key]
    if depth > 12:
        return True
    cache[key] = False
    t = cr.types[ix]
    k = t["k"]
    r = False
    if k == "adt":
        if t["path"] == "std::cell::RefCell":
            r = True
        else:
            r = any(mentions_refcell(P, cr, a, cache, depth + 1) for a in t.get("args", []) if isinstance(a, int))
            ad = cr.adts.get(t["path"])
            if not r and ad and ad.get("local"):
                r = any(mentions_refcell(P, cr, f["ty"], cache, depth + 1) for v in ad["variants"] for f in v["fields"])
    elif k in ("ref", "ptr"):
        r = mentions_refcell(P, cr, t["to"], cache, depth + 1)
    elif k in ("slice", "array"):
        r = mentions_refcell(P, cr, t["of"], cache, depth + 1)
    elif k == "tuple":
        r = any(mentions_refcell(P, cr, a, cache, depth + 1) for a in t["of"])
    elif k in ("dyn", "param", "closure", "fnptr"):
        r = True
    cache[key] = r
    return r


FRESH_DEFS = ("std::cell::RefCell::<T>::new", "<std::cell::RefCell<T> as std::clone::Clone>::clone", "<std::cell::RefCell<T> as std::default::Default>::default")


def cell_origin(P, k, b, ch, op):
    """('fresh', local) when the accessed cell is a RefCell value created in this function (new / clone / a field moved out of a struct
    that this function cloned, possibly after being moved into a struct literal built here); otherwise ('shared',)"""
    cr = P.crate_of[k]
    pl = MU.op_place(op) if "local" not in op else op
    if pl is None:
        return ("shared",)
    local, proj = pl["local"], [e for e in pl["proj"]]
    for _ in range(24):
        if 1 <= local <= b["arg_count"]:
            return ("shared",)
        t = cr.types[b["locals"][local]["ty"]]
        d = ch.single_def(local)
        if d is None:
            return ("shared",)
        flds = [e["i"] for e in proj if e["k"] == "field"]
        derefs = sum(1 for e in proj if e["k"] == "deref")
        if t["k"] == "adt" and t["path"] == "std::cell::RefCell" and not flds and not derefs:
            if d[0] == "call":
                return ("fresh", local) if MU.callee_names(d[2])[1] in FRESH_DEFS else ("shared",)
            if d[2]["k"] == "use":
                p2 = MU.op_place(d[2]["op"])
                if p2 is None:
                    return ("shared",)
                d2 = ch.single_def(p2["local"])
                f2 = [e for e in p2["proj"]]
                if f2 and all(e["k"] == "field" for e in f2) and d2 and d2[0] == "call" and not (1 <= p2["local"] <= b["arg_count"]) and \
                        MU.callee_names(d2[2])[1].endswith(" as std::clone::Clone>::clone"):
                    return ("fresh", local)           # a field moved out of a clone made here
                local, proj = p2["local"], f2
                continue
            return ("shared",)
        if d[0] != "stmt":
            return ("shared",)
        rv = d[2]
        if rv["k"] in ("ref", "addr"):
            p2 = rv["place"]
            np = list(p2["proj"])
            if proj and proj[0]["k"] == "deref":
                proj = proj[1:]
            elif proj:
                return ("shared",)
            local, proj = p2["local"], np + proj
        elif rv["k"] in ("use", "cast"):
            p2 = MU.op_place(rv["op"])
            if p2 is None:
                return ("shared",)
            local, proj = p2["local"], list(p2["proj"]) + proj
        elif rv["k"] == "agg" and flds and not derefs and not rv["kind"].get("is_enum") and rv["kind"].get("k") != "tuple" and proj[0]["k"] == "field":
            p2 = MU.op_place(rv["ops"][proj[0]["i"]])
            if p2 is None:
                return ("shared",)
            local, proj = p2["local"], list(p2["proj"]) + proj[1:]
        else:
            return ("shared",)
    return ("shared",)


def carriers_of(P, k, b, cell_local):
    """locals that may hold the fresh cell or a pointer to it (flow-insensitive forward closure, restricted to types that can carry a RefCell)"""
    cr = P.crate_of[k]
    carry = {cell_local}
    grew = True

    def uses(o):
        pl = MU.op_place(o)
        return pl is not None and pl["local"] in carry

    while grew:
        grew = False
        for bl in b["blocks"]:
            for st in bl["stmts"]:
                if st["k"] != "assign":
                    continue
                rv = st["rv"]
                src = False
                if rv["k"] in ("use", "cast"):
                    src = uses(rv["op"])
                elif rv["k"] in ("ref", "addr"):
                    src = rv["place"]["local"] in carry
                elif rv["k"] == "agg":
                    src = any(uses(o) for o in rv["ops"])
                l = st["place"]["local"]
                if src and l not in carry and mentions_refcell(P, cr, b["locals"][l]["ty"]):
                    carry.add(l)
                    grew = True
            tt = bl["term"]
            if tt["k"] == "call" and any(uses(a) for a in tt["args"]):
                l = tt["dest"]["local"]
                if l not in carry and mentions_refcell(P, cr, b["locals"][l]["ty"]):
                    carry.add(l)
                    grew = True
    return carry


def borrows(P, rep, reach):
    """a RefCell access panics when it conflicts with a guard that is still alive.  For every guard (Ref / RefMut) the blocks between its
    creation and its drop are its live range; inside it no call may, directly or through any callee, access a RefCell of the same content
    type in a conflicting mode (same-type cells are treated as possibly the same cell)."""
    cg = P.callgraph()
    direct = {}
    for k in P.body:
        s = set()
        for bb, t, name, tg in P.call_sites(k):
            bc = borrow_class(P, k, t)
            if bc:
                s.add((bc[0], bc[1]))
        direct[k] = s
    # transitive access summary per function (fixpoint over the call graph)
    acc = {k: set(v) for k, v in direct.items()}
    changed = True
    while changed:
        changed = False
        for k in P.body:
            for c in cg[k]:
                if c in acc and not acc[c] <= acc[k]:
                    acc[k] |= acc[c]
                    changed = True
    nguards = 0
    npoint = 0
    nfresh = 0
    for k in sorted(reach):
        if "#promoted" in k:
            continue
        b = P.body[k]
        for bb, t, name, tg in P.call_sites(k):
            bc = borrow_class(P, k, t)
            if not bc:
                continue
            ty, mode, holds = bc
            if not holds:
                npoint += 1
                continue
            nguards += 1
            if t.get("target") is None:
                continue
            holders = {t["dest"]["local"]}
            # holders: locals the guard is moved into
            grew = True
            escaped = None
            while grew:
                grew = False
                for bl in b["blocks"]:
                    for st in bl["stmts"]:
                        if st["k"] == "assign" and st["rv"]["k"] == "use" and "move" in st["rv"]["op"] and st["rv"]["op"]["move"]["local"] in holders and not st["rv"]["op"]["move"]["proj"]:
                            if st["place"]["proj"]:
                                escaped = "stored into a field"
                            elif st["place"]["local"] not in holders:
                                holders.add(st["place"]["local"])
                                grew = True
                        if st["k"] == "assign" and st["rv"]["k"] == "agg" and any("move" in o and o["move"]["local"] in holders and not o["move"]["proj"] for o in st["rv"]["ops"]):
                            escaped = "moved into an aggregate"
                    tt = bl["term"]
                    if tt["k"] == "call" and any("move" in a and a["move"]["local"] in holders and not a["move"]["proj"] for a in tt["args"]):
                        n2 = MU.callee_names(tt)[1]
                        if not n2.startswith("std::mem::drop"):
                            escaped = "passed by value to %s" % n2
            if 0 in holders:
                escaped = "returned to the caller"
            if escaped:
                rep.unprovable("C16.borrow|%s|%s|%s" % (k, mode, ty[:60]), "the %s guard of a RefCell<%s> created in %s is %s: its live range cannot be bounded" % (
                    "RefMut" if mode == "exclusive" else "Ref", ty[:60], k, escaped), loc=loc_of(b["blocks"][bb]["tspan"]))
                continue

            def stop(x):
                tt = b["blocks"][x]["term"]
                return (tt["k"] == "drop" and tt["place"]["local"] in holders and not tt["place"]["proj"]) or \
                       (tt["k"] == "call" and MU.callee_names(tt)[1].startswith("std::mem::drop") and any("move" in a and a["move"]["local"] in holders for a in tt["args"]))
            live = set()
            stack = [t["target"]]
            while stack:
                x = stack.pop()
                if x in live:
                    continue
                live.add(x)
                if stop(x):
                    continue
                stack.extend(G.succs(b, x))
            conflicts = []
            ch = MU.Chaser(b)
            origin = cell_origin(P, k, b, ch, t["args"][0])
            carry = carriers_of(P, k, b, origin[1]) if origin[0] == "fresh" else None
            nfresh += origin[0] == "fresh"
            for x in sorted(live):
                tt = b["blocks"][x]["term"]
                if tt["k"] != "call" or stop(x):
                    continue
                bc2 = borrow_class(P, k, tt)
                cands = set()
                if bc2:
                    o2 = cell_origin(P, k, b, ch, tt["args"][0])
                    # a cell created in this function is a different cell from any other one
                    if not ((origin[0] == "fresh" or o2[0] == "fresh") and origin != o2):
                        cands.add((bc2[0], bc2[1], "directly"))
                else:
                    passes_cell = carry is None or any(MU.op_place(a) and MU.op_place(a)["local"] in carry for a in tt["args"])
                    if passes_cell:
                        for bbx, term, nm, tgs in [cs for cs in P.call_sites(k) if cs[0] == x]:
                            # a closure handed to the callee runs inside it: count every closure of this function
                            if any(MU.op_place(a) and "{closure@" in P.tys(k, b["locals"][MU.op_place(a)["local"]]["ty"]) for a in term["args"]):
                                tgs = list(tgs) + [c for c in P.body if c.startswith(k + "::{closure#")]
                            for c in tgs:
                                for (ty2, mode2) in acc.get(c, ()):
                                    cands.add((ty2, mode2, "inside %s" % c.split("::")[-1]))
                for ty2, mode2, how in cands:
                    if ty2 == ty and (mode == "exclusive" or mode2 == "exclusive"):
                        conflicts.append("%s access %s at line %s" % (mode2, how, b["blocks"][x]["tspan"].get("l")))
            rep.ob("C16.borrow|%s|%s|%s" % (k, mode, ty[:60]), not conflicts,
                   "the %s guard of RefCell<%s> in %s is dropped before any conflicting access to a cell of that type" % ("RefMut" if mode == "exclusive" else "Ref", ty[:50], k.split("::")[-1]) if not conflicts else
                   "while the %s guard of RefCell<%s> created in %s is alive, a conflicting access can happen (BorrowError/BorrowMutError panic): %s" % (
                       "RefMut" if mode == "exclusive" else "Ref", ty[:60], k, "; ".join(sorted(set(conflicts))[:3])), loc=loc_of(b["blocks"][bb]["tspan"]))
    rep.count("RefCell guards with a bounded live range", nguards)
    rep.count("RefCell point accesses (replace/clone)", npoint)
    rep.count("RefCell guards on a cell created in the same function", nfresh)


# ------------------------------------------------------------------------------------------------ 6. preconditions of library calls
# library functions that panic when an argument violates a documented precondition; every reachable call of one needs a handler below
PRECOND = re.compile(
    r"::(chunks|chunks_exact|chunks_mut|rchunks|windows|step_by|split_at|split_at_mut|copy_from_slice|clone_from_slice|swap|rotate_left|rotate_right|select_nth_unstable)$|"
    r"^std::vec::Vec::<T, A>::(remove|insert|swap_remove|drain|split_off|extend_from_within)$|"
    r"^std::string::String::(remove|insert|insert_str|drain|split_off|replace_range|truncate)$|"
    r"::(from_str_radix|from_digit|to_digit|is_digit|pow|abs|unwrap_err|expect_err|unwrap_unchecked|unreachable_unchecked|get_unchecked|get_unchecked_mut|"
    r"from_utf8_unchecked|from_raw_parts|set_len|assume_init)$|"
    r"^<byteorder::\w+ as byteorder::ByteOrder>::(write|read)_\w+$|^std::collections::VecDeque.*::(swap|insert|remove|split_off)$|^std::time::|^std::thread::")


def const_int(o):
    if isinstance(o, dict) and "const" in o and "int" in o["const"]:
        return int(o["const"]["int"])
    return None


def preconditions(P, rep, reach):
    n = 0
    for k in sorted(reach):
        if "#promoted" in k:
            continue
        b = P.body[k]
        ch = MU.Chaser(b)
        for bb, t, name, tg in P.call_sites(k):
            full, rp = MU.callee_names(t)
            if not PRECOND.search(rp):
                continue
            n += 1
            nm = rp.rsplit("::", 1)[-1]
            ok, why = False, "no handler for this library call: its panicking precondition is not established"
            if nm in ("chunks", "chunks_exact", "windows", "step_by", "rchunks"):
                c = const_int(t["args"][1]) if len(t["args"]) > 1 else None
                ok = c is not None and c > 0
                why = "the size argument is the constant %s (non-zero)" % c if ok else "the size argument is not a non-zero constant: a size of 0 panics"
            elif nm == "from_str_radix":
                c = const_int(t["args"][1]) if len(t["args"]) > 1 else None
                ok = c is not None and 2 <= c <= 36
                why = "the radix is the constant %s (within 2..=36)" % c if ok else "the radix is not a constant within 2..=36"
            elif nm in ("to_digit", "is_digit", "from_digit"):
                # char::to_digit / is_digit / from_digit panic for a radix above 36
                c = const_int(t["args"][1]) if len(t["args"]) > 1 else None
                ok = c is not None and c <= 36
                why = "the radix is the constant %s (at most 36)" % c if ok else "the radix is not a constant of at most 36"
            elif rp.startswith("<byteorder::") and nm.startswith("write_u"):
                need = {"write_u16": 2, "write_u32": 4, "write_u64": 8, "write_u128": 16}.get(nm)
                # the buffer is  &mut [T; N] as &mut [T]  of a local array
                r = ch.root(t["args"][0], through_calls=False)
                lt = P.ty(k, b["locals"][r[0]]["ty"]) if r[0] is not None else None
                have = lt["len"] if lt and lt["k"] == "array" and not [e for e in r[1] if e["k"] in ("field", "index", "deref")] else None
                ok = need is not None and have is not None and int(have) >= need
                why = "the buffer is a local array of %s bytes (needs %s)" % (have, need) if ok else "the buffer is not a local array of at least %s bytes (found %s)" % (need, have)
            rep.ob("C16.precondition|%s|%s" % (k, nm), ok,
                   "%s in %s: %s" % (nm, k.split("::")[-1], why) if ok else "%s in %s can panic: %s" % (rp, k, why), loc=loc_of(b["blocks"][bb]["tspan"]))
    rep.count("library calls with a panicking precondition", n)
    rep.floor("library calls with a panicking precondition", n, 9)
