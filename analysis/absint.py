"""E1 — path-sensitive abstract interpreter over the dumped MIR.

Enumerates the acyclic paths of one function (local callees inlined, loops cut at back edges), forking at every
SwitchInt whose scrutinee is not decided by the current value sets.  Inputs are *named unknowns*: the abstract
value of an unread input is ('unk', type, access-path-name); projecting it yields the unknown of the sub-object, reading an
integer yields the symbol named by the access path, reading an enum discriminant yields the symbol  <name>#d  whose
value set is the enum's discriminants.  One explored path therefore stands for every concrete input in its value sets.

There is no solver.  Branch feasibility and accepted domains come from value sets (sx.dom_*) refined by comparisons
against constants and by enumeration over small finite sets; everything else stays a recorded, uninterpreted condition.
"""
import sys
from collections import namedtuple

import sx
from sx import C, S

sys.setrecursionlimit(20000)


class Unsupported(Exception):
    pass


Path = namedtuple("Path", "exit ret state events conds trace")


class State:
    __slots__ = ("cells", "doms", "conds", "events", "frames", "counter", "trace", "notes")

    def __init__(self):
        self.cells = {}
        self.doms = {}
        self.conds = []      # (expr, truth) uninterpreted or interpreted assumptions, in order
        self.events = []     # tuples
        self.frames = []     # list of Frame
        self.counter = 0
        self.trace = []      # (fn key, bb)
        self.notes = {}

    def copy(self):
        s = State()
        s.cells = dict(self.cells)
        s.doms = dict(self.doms)
        s.conds = list(self.conds)
        s.events = list(self.events)
        s.frames = [f.copy() for f in self.frames]
        s.counter = self.counter
        s.trace = list(self.trace)
        s.notes = dict(self.notes)
        return s


class Frame:
    __slots__ = ("fid", "key", "bb", "visited", "dest", "ret_target", "crate", "post")

    def __init__(self, fid, key, crate):
        self.fid = fid
        self.key = key
        self.bb = 0
        self.visited = {}
        self.dest = None         # (frame index, place) in the caller
        self.ret_target = None
        self.crate = crate
        self.post = None         # ('some', result type index, crate name): wrap the returned value (Option::map & co.)

    def copy(self):
        f = Frame(self.fid, self.key, self.crate)
        f.bb = self.bb
        f.visited = dict(self.visited)
        f.dest = self.dest
        f.ret_target = self.ret_target
        f.post = self.post
        return f


TOP = ('top',)
UNIT = ('agg', None, 0, ())


def INT(e):
    return ('int', e)


class Machine:
    def __init__(self, program, inline=None, opaque=None, max_paths=50000, max_depth=6, summaries=None, loop_limit=1):
        self.P = program
        self.inline_only = inline          # None = inline every local body (except opaque / recursion)
        self.opaque = set(opaque or [])
        self.max_paths = max_paths
        self.max_depth = max_depth
        self.loop_limit = loop_limit
        self.paths = []
        self.capped = False
        self.unsupported = []
        import summaries as SM
        self.SM = SM
        self.extra_summaries = summaries or {}
        self.iter_budget = None      # k: every iterator yields at most k elements per path (set loop_limit = k + 1 with it)
        self._loopy = {}
        self.inline_loopy = set()    # loopy callees that may be inlined nevertheless
        self.inline_loopy_from_root = False   # allow it for direct callees of the explored function (thin public wrappers)
        self.havoc_loops = False     # at the first entry of a loop header, replace the integer locals assigned in the loop by symbols
        self._loopinfo = {}

    # ---------------------------------------------------------------- types
    def T(self, fr, ix):
        return fr.crate.types[ix]

    def int_ty(self, t):
        k = t["k"]
        if k == "int":
            return t["bits"], t["signed"]
        if k == "bool":
            return 1, False
        if k == "char":
            return 32, False
        return None

    def adt(self, fr, t):
        return fr.crate.adts.get(t["path"]) or self.P.lib.adts.get(t["path"])

    def variant_field_ty(self, fr, t, vix, fi):
        """type index of field fi of variant vix of ADT/tuple type t (handles Option/Result/ControlFlow generics)."""
        k = t["k"]
        if k == "tuple":
            return t["of"][fi]
        if k == "adt":
            p = t["path"]
            if p == "std::option::Option":
                return t["args"][0]
            if p == "std::result::Result":
                return t["args"][0] if vix == 0 else t["args"][1]
            if p == "std::ops::ControlFlow":
                return t["args"][1] if vix == 0 else t["args"][0]
            ad = self.adt(fr, t)
            if ad:
                try:
                    return ad["variants"][vix]["fields"][fi]["ty"]
                except (IndexError, KeyError):
                    return None
        return None

    def variant_name(self, fr, t, vix):
        if t["k"] == "adt":
            ad = self.adt(fr, t)
            if ad and vix < len(ad["variants"]):
                return ad["variants"][vix]["name"]
        return str(vix)

    def plain_record(self, fr, t):
        """a local struct without any impl (no derive, no trait, no method of its own) stands in for a tuple: its fields are named by
        position, so that `(a, b)` and `Pair { first: a, second: b }` give the same names"""
        cache = self.__dict__.setdefault("_plain_records", {})
        path = t["path"]
        if path not in cache:
            ad = self.adt(fr, t)
            plain = bool(ad) and ad.get("kind") == "struct" and ad.get("local") is True
            if plain:
                for cr in self.P.facts.crates if hasattr(self.P.facts, "crates") else [fr.crate]:
                    for im in cr.impls:
                        st = cr.types[im["self"]]
                        if st.get("k") == "adt" and st.get("path") == path:
                            plain = False
                    if any(k.startswith(path + "::") for k in cr.bodies):
                        plain = False
            cache[path] = plain
        return cache[path]

    def field_name(self, fr, t, vix, fi):
        if t["k"] == "adt":
            if self.plain_record(fr, t):
                return str(fi)
            ad = self.adt(fr, t)
            if ad:
                try:
                    return ad["variants"][vix]["fields"][fi]["name"]
                except (IndexError, KeyError):
                    pass
        return str(fi)

    def discr_values(self, fr, t):
        ad = self.adt(fr, t)
        if ad and ad["kind"] == "enum":
            return [int(v["discr"]) for v in ad["variants"]]
        return None

    def variant_of_discr(self, fr, t, d):
        ad = self.adt(fr, t)
        for v in ad["variants"]:
            if int(v["discr"]) == d:
                return v["ix"]
        return None

    # ---------------------------------------------------------------- unknowns
    def unk(self, tyix, name, crate):
        return ('unk', tyix, name, crate.name)

    def crate_by_name(self, n):
        return self.P.lib if n == self.P.lib.name else self.P.bin

    def as_int(self, st, v):
        """integer expression of a value, materialising symbols for unknown integers"""
        if v[0] == 'int':
            return v[1]
        if v[0] == 'unk':
            cr = self.crate_by_name(v[3])
            t = cr.types[v[1]]
            it = self.int_ty(t)
            if it:
                s = S(v[2], it[0], it[1])
                if s not in st.doms:
                    st.doms[s] = sx.dom_full(it[0], it[1])
                return s
        if v[0] == 'ref':
            return S("addr(%s)" % self.cell_name(v[1]), 64, False)
        return None

    def discr_of(self, st, fr, v, tyix=None):
        """('int', expr) discriminant of an enum value"""
        if v[0] == 'agg':
            cr = self.crate_by_name(v[4]) if len(v) > 4 else fr.crate
            t = cr.types[v[1]] if v[1] is not None else None
            if t is not None and t["k"] == "adt":
                ad = cr.adts.get(t["path"])
                if ad and ad["kind"] == "enum":
                    return C(int(ad["variants"][v[2]]["discr"]), 64, True)
            return C(v[2], 64, True)
        if v[0] == 'unk':
            cr = self.crate_by_name(v[3])
            t = cr.types[v[1]]
            if t["k"] == "adt":
                ad = cr.adts.get(t["path"])
                if ad and ad["kind"] == "enum":
                    s = S(v[2] + "#d", 64, True)
                    if s not in st.doms:
                        st.doms[s] = sx.dom_set(int(x["discr"]) for x in ad["variants"])
                    return s
        return None

    # ---------------------------------------------------------------- memory
    def cell_name(self, cell):
        if cell[0] == 'V':
            return cell[1]
        if cell[0] == 'L':
            return "%s:_%d" % (cell[1], cell[2])
        return "heap%d" % cell[1]

    def cell_read(self, st, cell):
        v = st.cells.get(cell)
        if v is not None:
            return v
        if cell[0] == 'V':
            return ('unk', cell[2], cell[1], cell[3])
        if cell[0] == 'S':
            return ('str', cell[1])
        if cell[0] == 'K':
            return ('bytes', cell[1])
        return TOP

    def proj_value(self, st, v, step):
        """apply one path step to a value"""
        k = step[0]
        if v[0] == 'top':
            return TOP
        if k == 'f':
            fi = step[1]
            if v[0] == 'agg':
                return v[3][fi] if fi < len(v[3]) else TOP
            if v[0] == 'unkvar':
                cr = self.crate_by_name(v[3])
                t = cr.types[v[1]]
                fr = _FakeFrame(cr)
                fty = self.variant_field_ty(fr, t, v[4], fi)
                if fty is None:
                    return TOP
                return ('unk', fty, "%s.%s" % (v[2], self.field_name(fr, t, v[4], fi)), v[3])
            if v[0] == 'unk':
                cr = self.crate_by_name(v[3])
                t = cr.types[v[1]]
                fr = _FakeFrame(cr)
                if t["k"] == "adt" and t["path"].startswith(("std::boxed::Box", "std::ptr::Unique", "std::ptr::NonNull")):
                    return ('unk', v[1], v[2], v[3])      # Box internals: stay on the box until the transmute
                fty = self.variant_field_ty(fr, t, 0, fi)
                if fty is None:
                    return TOP
                return ('unk', fty, "%s.%s" % (v[2], self.field_name(fr, t, 0, fi)), v[3])
            if v[0] == 'closure':
                return v[2][fi] if fi < len(v[2]) else TOP
            return TOP
        if k == 'd':
            vix = step[1]
            if v[0] == 'agg':
                return v
            if v[0] == 'unk':
                cr = self.crate_by_name(v[3])
                t = cr.types[v[1]]
                return ('unkvar', v[1], "%s:%s" % (v[2], self.variant_name(_FakeFrame(cr), t, vix)), v[3], vix)
            return TOP
        if k == 'i':
            n = step[1]
            if v[0] == 'arr':
                return v[1][n] if n < len(v[1]) else TOP
            if v[0] == 'vec' and v[2] is not None:
                return v[2][n] if n < len(v[2]) else TOP
            if v[0] == 'unk':
                cr = self.crate_by_name(v[3])
                t = cr.types[v[1]]
                ety = t.get("of")
                if ety is None and t["k"] == "adt" and t["path"] == "std::vec::Vec":
                    ety = t["args"][0]
                if ety is not None:
                    return ('unk', ety, "%s[%d]" % (v[2], n), v[3])
            return TOP
        return TOP

    def update_value(self, st, v, path, new):
        """functional update of value v at path with new"""
        if not path:
            return new
        step = path[0]
        k = step[0]
        if k == 'f':
            fi = step[1]
            if v[0] == 'agg':
                fields = list(v[3])
                while len(fields) <= fi:
                    fields.append(TOP)
                fields[fi] = self.update_value(st, fields[fi], path[1:], new)
                return ('agg', v[1], v[2], tuple(fields)) + tuple(v[4:])
            if v[0] in ('unk', 'top'):
                # expand one level lazily
                if v[0] == 'unk':
                    cr = self.crate_by_name(v[3])
                    t = cr.types[v[1]]
                    fr = _FakeFrame(cr)
                    n = 0
                    if t["k"] == "tuple":
                        n = len(t["of"])
                    elif t["k"] == "adt":
                        ad = self.adt(fr, t)
                        n = len(ad["variants"][0]["fields"]) if ad and ad["variants"] else 0
                    fields = [self.proj_value(st, v, ('f', i)) for i in range(max(n, fi + 1))]
                    fields[fi] = self.update_value(st, fields[fi], path[1:], new)
                    return ('agg', v[1], 0, tuple(fields), v[3])
                fields = [TOP] * (fi + 1)
                fields[fi] = self.update_value(st, TOP, path[1:], new)
                return ('agg', None, 0, tuple(fields))
        if k == 'i':
            n = step[1]
            if v[0] == 'arr':
                items = list(v[1])
                while len(items) <= n:
                    items.append(TOP)
                items[n] = self.update_value(st, items[n], path[1:], new)
                return ('arr', tuple(items))
        if k == 'd':
            return self.update_value(st, v, path[1:], new)
        return TOP

    def resolve_place(self, st, fr, place):
        """-> (cell, path) ; follows derefs"""
        cell = ('L', fr.fid, place["local"])
        path = ()
        for e in place["proj"]:
            k = e["k"]
            if k == "deref":
                v = self.read(st, cell, path)
                if v[0] == 'ref':
                    cell, path = v[1], v[2]
                elif v[0] == 'unk':
                    cr = self.crate_by_name(v[3])
                    t = cr.types[v[1]]
                    if t["k"] in ("ref", "ptr"):
                        cell, path = ('V', v[2] + "*", t["to"], v[3]), ()
                    elif t["k"] == "adt" and t["path"].startswith("std::boxed::Box"):
                        cell, path = ('V', v[2] + "*", t["args"][0], v[3]), ()
                    else:
                        return None
                elif v[0] == 'str':
                    cell, path = ('S', v[1]), ()
                else:
                    return None
            elif k == "field":
                path = path + (('f', e["i"]),)
            elif k == "downcast":
                path = path + (('d', e["v"]),)
            elif k == "cindex":
                if e["from_end"]:
                    return None
                path = path + (('i', e["offset"]),)
            elif k == "index":
                iv = self.cell_read(st, ('L', fr.fid, e["local"]))
                ie = self.as_int(st, iv)
                if ie is not None and sx.is_const(ie):
                    path = path + (('i', sx.cval(ie)),)
                else:
                    return None
            else:
                return None
        return cell, path

    def read(self, st, cell, path):
        v = self.cell_read(st, cell)
        for step in path:
            v = self.proj_value(st, v, step)
        return v

    def write(self, st, cell, path, new):
        if not path:
            st.cells[cell] = new
            return
        base = self.cell_read(st, cell)
        st.cells[cell] = self.update_value(st, base, path, new)

    def read_place(self, st, fr, place):
        r = self.resolve_place(st, fr, place)
        if r is None:
            return TOP
        return self.read(st, r[0], r[1])

    def write_place(self, st, fr, place, v):
        r = self.resolve_place(st, fr, place)
        if r is None:
            st.events.append(('lost-write', fr.key, place))
            return
        if r[0][0] == 'V':
            # a store into memory that outlives this function (reached through an input or an opaque call's result)
            st.events.append(('store', r[0][1] + "".join(".%s" % (x[1],) for x in r[1] if x[0] == 'f'), self.describe(st, v), fr.key))
        self.write(st, r[0], r[1], v)

    # ---------------------------------------------------------------- operands / rvalues
    def const_value(self, st, fr, c):
        t = self.T(fr, c["ty"])
        if "int" in c:
            it = self.int_ty(t)
            raw = int(c["int"])
            if it:
                return INT(C(raw, it[0], it[1]))
            # scalar ADT constant (fieldless enum evaluated to its tag)
            if t["k"] == "adt":
                ad = self.adt(fr, t)
                if ad and ad["kind"] == "enum":
                    for v in ad["variants"]:
                        if int(v["discr"]) == raw:
                            return ('agg', c["ty"], v["ix"], (), fr.crate.name)
            return INT(C(raw, 64, False))
        if "str" in c:
            return ('str', c["str"])
        if "bytes" in c:
            return ('ref', ('K', bytes(c["bytes"])), ())
        if "fn" in c:
            return ('fnitem', c["fn"], c["ty"])
        if "promoted" in c:
            return self.eval_promoted(st, fr, c["promoted"])
        if "static" in c:
            return ('ref', ('V', "static " + c["static"], t.get("to"), fr.crate.name), ())
        if c.get("opaque") == "()":
            return UNIT
        if t["k"] == "tuple" and not t["of"]:
            return UNIT
        if t["k"] == "closure":
            return ('closure', t["path"], ())
        if t["k"] == "adt":
            # zero-sized / opaque ADT constant
            return ('unk', c["ty"], "const %s" % c.get("opaque", "?"), fr.crate.name)
        return TOP

    def eval_promoted(self, st, fr, key):
        """a promoted body: straight-line, returns a reference to a constant value; evaluate it in a scratch frame"""
        pk = ("bin::" + key) if fr.key.startswith("bin::") else key
        body = self.P.body.get(pk)
        if body is None:
            return TOP
        st.counter += 1
        fid = "prom%d" % st.counter
        pf = Frame(fid, pk, fr.crate)
        bb = 0
        for _ in range(64):
            bl = body["blocks"][bb]
            for s in bl["stmts"]:
                if s["k"] == "assign":
                    self.write_place(st, pf, s["place"], self.rvalue(st, pf, s["rv"]))
            t = bl["term"]
            if t["k"] == "return":
                return self.cell_read(st, ('L', fid, 0))
            if t["k"] == "goto":
                bb = t["target"]
                continue
            if t["k"] == "call" and t.get("target") is not None:
                c = t["callee"]
                fn = self.SM.TABLE.get(c.get("rpath") or c.get("path") or "")
                if fn is not None:
                    r = fn(self, st, pf, t, [self.operand(st, pf, a) for a in t["args"]], (pk, bb))
                    if r is not NotImplemented and isinstance(r, tuple) and r and r[0] in ('agg', 'int'):
                        self.write_place(st, pf, t["dest"], r)
                        bb = t["target"]
                        continue
                # e.g. Device::new in a promoted: treat as opaque
                self.write_place(st, pf, t["dest"], self.unk(body["locals"][t["dest"]["local"]]["ty"], "promoted-call", fr.crate))
                bb = t["target"]
                continue
            return TOP
        return TOP

    def operand(self, st, fr, o):
        if "const" in o:
            return self.const_value(st, fr, o["const"])
        p = o.get("copy") or o.get("move")
        if p is None:
            return TOP
        return self.read_place(st, fr, p)

    def place_ty(self, fr, place):
        body = self.P.body[fr.key]
        return body["locals"][place["local"]]["ty"] if not place["proj"] else None

    def rvalue(self, st, fr, rv):
        k = rv["k"]
        if k == "use":
            return self.operand(st, fr, rv["op"])
        if k in ("ref", "addr"):
            r = self.resolve_place(st, fr, rv["place"])
            if r is None:
                return TOP
            if r[0][0] == 'S' and not r[1]:
                return ('str', r[0][1])       # &*"literal" is the literal
            return ('ref', r[0], r[1])
        if k == "bin":
            a = self.operand(st, fr, rv["l"])
            b = self.operand(st, fr, rv["r"])
            op = rv["op"]
            ea = self.as_int(st, a)
            eb = self.as_int(st, b)
            if ea is None or eb is None:
                if op in ("Eq", "Ne") and a[0] == 'agg' and b[0] == 'agg':
                    return INT(C(int((a[2] == b[2]) == (op == "Eq")), 1, False))
                return INT(self.fresh_sym(st, "opaque-%s" % op, 1 if op in CMP else 64, False))
            bits, signed = sx.ty_of(ea)
            if op in CMP:
                return INT(sx.Cmp(op, ea, eb))
            if op.endswith("WithOverflow"):
                base = op[:-len("WithOverflow")]
                return ('agg', None, 0, (INT(sx.Bin(base, ea, eb, bits, signed)), INT(sx.Ovf(base, ea, eb, bits, signed))))
            if op.endswith("Unchecked"):
                op = op[:-len("Unchecked")]
            if op in ("Add", "Sub", "Mul", "Div", "Rem", "BitAnd", "BitOr", "BitXor", "Shl", "Shr"):
                if bits == 1 and op in ("BitAnd", "BitOr", "BitXor"):
                    return INT(sx.Bin(op, ea, eb, 1, False))
                return INT(sx.Bin(op, ea, eb, bits, signed))
            if op == "Offset":
                return TOP
            raise Unsupported("binop %s" % op)
        if k == "un":
            a = self.operand(st, fr, rv["o"])
            op = rv["op"]
            if op == "PtrMetadata":
                # length of a slice / array reference
                n = self.length_of(st, a)
                return INT(n) if n is not None else TOP
            ea = self.as_int(st, a)
            if ea is None:
                return TOP
            bits, signed = sx.ty_of(ea)
            if op in ("Not", "Neg"):
                return INT(sx.Un(op, ea, bits, signed))
            raise Unsupported("unop %s" % op)
        if k == "cast":
            a = self.operand(st, fr, rv["op"])
            t = self.T(fr, rv["ty"])
            kind = rv["kind"]
            it = self.int_ty(t)
            if kind.startswith("IntToInt") and it:
                ea = self.as_int(st, a)
                if ea is None:
                    # enum-to-int cast of a fieldless enum value
                    d = self.discr_of(st, fr, a)
                    if d is None:
                        return TOP
                    ea = d
                return INT(sx.Cast(ea, it[0], it[1]))
            if kind.startswith("PointerCoercion") or kind.startswith("PtrToPtr"):
                return a
            if kind.startswith("Transmute"):
                if it:
                    ea = self.as_int(st, a)
                    return INT(ea) if ea is not None else TOP
                if t["k"] in ("ptr", "ref"):
                    if a[0] == 'unk':
                        # Box internals transmuted to a raw pointer to the boxed value
                        return ('ref', ('V', a[2] + "*", t["to"], a[3]), ())
                    return a
                return a
            if kind.startswith("IntToFloat") or kind.startswith("FloatTo"):
                return TOP
            return a
        if k == "discr":
            v = self.read_place(st, fr, rv["place"])
            d = self.discr_of(st, fr, v)
            if d is None:
                return INT(self.fresh_sym(st, "discr?", 64, True))
            return INT(d)
        if k == "agg":
            kd = rv["kind"]
            ops = tuple(self.operand(st, fr, o) for o in rv["ops"])
            if kd["k"] == "array":
                return ('arr', ops)
            if kd["k"] == "tuple":
                return ('agg', None, 0, ops)
            if kd["k"] == "adt":
                tix = self.find_adt_type(fr, kd["path"])
                return ('agg', tix, kd["v"], ops, fr.crate.name, kd["path"], kd["vname"])
            if kd["k"] == "closure":
                return ('closure', kd["path"], ops)
            return TOP
        if k == "repeat":
            v = self.operand(st, fr, rv["op"])
            n = rv.get("n")
            if n is not None and n <= 64:
                return ('arr', tuple([v] * n))
            return TOP
        if k == "otherrv":
            return TOP
        raise Unsupported("rvalue %s" % k)

    def find_adt_type(self, fr, path):
        cache = fr.crate.__dict__.setdefault("_adt_ty_cache", {})
        if path not in cache:
            hit = None
            for i, t in enumerate(fr.crate.types):
                if t["k"] == "adt" and t["path"] == path:
                    hit = i
                    break
            cache[path] = hit
        return cache[path]

    def length_of(self, st, v):
        if v[0] == 'ref':
            tv = self.read(st, v[1], v[2])
            if tv[0] == 'arr':
                return C(len(tv[1]), 64, False)
            if tv[0] == 'vec':
                return tv[3]
            if tv[0] == 'unk':
                s = S(tv[2] + "#len", 64, False)
                st.doms.setdefault(s, sx.dom_range(0, (1 << 62)))
                return s
            if v[1][0] == 'K':
                return C(len(v[1][1]), 64, False)
        return None

    def fresh_sym(self, st, hint, bits, signed):
        st.counter += 1
        s = S("%s@%d" % (hint, st.counter), bits, signed)
        st.doms[s] = sx.dom_full(bits, signed)
        return s

    # ---------------------------------------------------------------- assumptions
    def assume(self, st, e, truth):
        """Refine value sets with (e == truth).  Returns False when the path becomes infeasible."""
        if sx.is_const(e):
            return bool(sx.cval(e)) == bool(truth)
        st.conds.append((e, bool(truth)))
        k = e[0]
        if k == 'un' and e[1] == 'Not':
            st.conds.pop()
            return self.assume(st, e[2], not truth)
        if k == 's':
            d = st.doms.get(e, sx.dom_full(*sx.ty_of(e)))
            d = sx.dom_filter_cmp(d, 'Ne' if truth else 'Eq', 0)
            st.doms[e] = d
            return not sx.dom_empty(d)
        if k == 'cmp':
            op, a, b = e[1], e[2], e[3]
            if not truth:
                op = {'Eq': 'Ne', 'Ne': 'Eq', 'Lt': 'Ge', 'Ge': 'Lt', 'Gt': 'Le', 'Le': 'Gt'}[op]
            if sx.is_const(a) and not sx.is_const(b):
                a, b = b, a
                op = {'Eq': 'Eq', 'Ne': 'Ne', 'Lt': 'Gt', 'Gt': 'Lt', 'Le': 'Ge', 'Ge': 'Le'}[op]
            if sx.is_const(b):
                return self.refine(st, a, op, sx.cval(b))
            # sym op sym etc.: try enumeration when both are tiny
            return self.refine_general(st, sx.Cmp(op, a, b))
        if k == 'bin' and e[1] in ('BitAnd', 'BitOr') and sx.ty_of(e)[0] == 1:
            # boolean connectives: a & b true -> both true ; a | b false -> both false
            if (e[1] == 'BitAnd') == bool(truth):
                return self.assume(st, e[2], truth) and self.assume(st, e[3], truth)
            return self.refine_general(st, e if truth else sx.Un('Not', e, 1, False))
        return self.refine_general(st, e if truth else sx.Un('Not', e, 1, False))

    def refine(self, st, a, op, c):
        """a op c with c constant"""
        if sx.ty_of(a)[0] == 1 and a[0] != 's' and op in ('Eq', 'Ne') and c in (0, 1):
            # boolean sub-term compared with a constant: assume the sub-term itself
            st.conds.pop()
            return self.assume(st, a, (c == 1) == (op == 'Eq'))
        if a[0] == 's':
            d = st.doms.get(a, sx.dom_full(*sx.ty_of(a)))
            d = sx.dom_filter_cmp(d, op, c)
            st.doms[a] = d
            return not sx.dom_empty(d)
        # value-preserving cast chains over a symbol: push the comparison through when the domain fits
        if a[0] == 'cast' and a[1][0] == 's':
            s = a[1]
            d = st.doms.get(s, sx.dom_full(*sx.ty_of(s)))
            tgt = sx.dom_full(a[2], a[3])
            if sx.dom_min(d) >= sx.dom_min(tgt) and sx.dom_max(d) <= sx.dom_max(tgt):
                d = sx.dom_filter_cmp(d, op, c)
                st.doms[s] = d
                return not sx.dom_empty(d)
        if len(sx.syms(a)) >= 2:
            # derived atom: the expression itself carries a value set (e.g. the branch displacement k - (pc + 1))
            d = st.doms.get(a, sx.dom_full(*sx.ty_of(a)))
            d = sx.dom_filter_cmp(d, op, c)
            st.doms[a] = d
            return not sx.dom_empty(d)
        return self.refine_general(st, sx.Cmp(op, a, C(c, *sx.ty_of(a))))

    def refine_general(self, st, cond):
        """cond must hold.  Enumerate when it depends on one symbol with a small domain; otherwise leave it recorded."""
        ss = list(sx.syms(cond))
        if len(ss) == 1:
            s = ss[0]
            d = sx.dom_norm(st.doms.get(s, sx.dom_full(*sx.ty_of(s))))
            if d[0] == 'set':
                def pred(v):
                    try:
                        return bool(sx.evaluate(cond, {s: v}))
                    except sx.Unevaluable:
                        return True
                d = sx.dom_filter_pred(d, pred)
                st.doms[s] = d
                return not sx.dom_empty(d)
        elif len(ss) == 2:
            d0 = sx.dom_norm(st.doms.get(ss[0], sx.dom_full(*sx.ty_of(ss[0]))))
            d1 = sx.dom_norm(st.doms.get(ss[1], sx.dom_full(*sx.ty_of(ss[1]))))
            if d0[0] == 'set' and d1[0] == 'set' and len(d0[1]) * len(d1[1]) <= 4096:
                ok0, ok1 = set(), set()
                for v0 in d0[1]:
                    for v1 in d1[1]:
                        try:
                            r = bool(sx.evaluate(cond, {ss[0]: v0, ss[1]: v1}))
                        except sx.Unevaluable:
                            r = True
                        if r:
                            ok0.add(v0)
                            ok1.add(v1)
                st.doms[ss[0]] = sx.dom_set(ok0)
                st.doms[ss[1]] = sx.dom_set(ok1)
                return bool(ok0)
        return True   # uninterpreted: kept in st.conds

    def bounds(self, st, e, depth=0):
        """(lo, hi) of an expression by interval arithmetic over the value sets, or None"""
        if depth > 12:
            return None
        k = e[0]
        if k == 'c':
            return e[1], e[1]
        if k == 's':
            d = st.doms.get(e, sx.dom_full(*sx.ty_of(e)))
            if sx.dom_empty(d):
                return None
            return sx.dom_min(d), sx.dom_max(d)
        if e in st.doms:
            d = st.doms[e]
            if not sx.dom_empty(d):
                return sx.dom_min(d), sx.dom_max(d)
        if k == 'cast':
            b = self.bounds(st, e[1], depth + 1)
            if b is None:
                return None
            t = sx.dom_full(e[2], e[3])
            if b[0] >= sx.dom_min(t) and b[1] <= sx.dom_max(t):
                return b
            return sx.dom_min(t), sx.dom_max(t)
        if k == 'bin':
            a = self.bounds(st, e[2], depth + 1)
            b = self.bounds(st, e[3], depth + 1)
            if a is None or b is None:
                return None
            op = e[1]
            t = sx.dom_full(e[4], e[5])
            r = None
            if op == 'Add':
                r = (a[0] + b[0], a[1] + b[1])
            elif op == 'Sub':
                r = (a[0] - b[1], a[1] - b[0])
            elif op == 'Mul':
                c = [a[0] * b[0], a[0] * b[1], a[1] * b[0], a[1] * b[1]]
                r = (min(c), max(c))
            elif op == 'Div' and b[0] > 0 and a[0] >= 0:
                r = (a[0] // b[1], a[1] // b[0])
            elif op == 'Rem' and b[0] > 0 and a[0] >= 0:
                r = (0, b[1] - 1)
            elif op == 'BitAnd' and a[0] >= 0 and b[0] >= 0:
                r = (0, min(a[1], b[1]))
            elif op == 'Shr' and a[0] >= 0 and b[0] >= 0 and b[1] < 64:
                r = (a[0] >> b[1], a[1] >> b[0])
            if r is None:
                return sx.dom_min(t), sx.dom_max(t)
            if r[0] < sx.dom_min(t) or r[1] > sx.dom_max(t):
                return sx.dom_min(t), sx.dom_max(t)
            return r
        bits, signed = sx.ty_of(e)
        t = sx.dom_full(bits, signed)
        return sx.dom_min(t), sx.dom_max(t)

    def overflow_impossible(self, st, e):
        """e = ('ovf', op, a, b, bits, signed): True when interval arithmetic or a recorded comparison excludes the overflow"""
        op, a, b, bits, signed = e[1], e[2], e[3], e[4], e[5]
        ba = self.bounds(st, a)
        bb = self.bounds(st, b)
        t = sx.dom_full(bits, signed)
        if ba is not None and bb is not None:
            if op == 'Add':
                r = (ba[0] + bb[0], ba[1] + bb[1])
            elif op == 'Sub':
                r = (ba[0] - bb[1], ba[1] - bb[0])
            else:
                c = [ba[0] * bb[0], ba[0] * bb[1], ba[1] * bb[0], ba[1] * bb[1]]
                r = (min(c), max(c))
            if r[0] >= sx.dom_min(t) and r[1] <= sx.dom_max(t):
                return True
        if op == 'Sub' and not signed:
            # a - b cannot underflow when the path knows a > b or a >= b  (the guard in front of an error message's difference)
            def strip(x):
                return x
            for ce, truth in st.conds:
                if ce[0] != 'cmp':
                    continue
                cop, ca, cb = ce[1], ce[2], ce[3]
                if not truth:
                    cop = {'Eq': 'Ne', 'Ne': 'Eq', 'Lt': 'Ge', 'Ge': 'Lt', 'Gt': 'Le', 'Le': 'Gt'}[cop]
                if (ca == a and cb == b and cop in ('Gt', 'Ge')) or (ca == b and cb == a and cop in ('Lt', 'Le')):
                    return True
        return False

    def can_be(self, st, e, truth):
        """Is (e == truth) feasible under the current value sets?  (over-approximate: True when unknown)"""
        if sx.is_const(e):
            return bool(sx.cval(e)) == bool(truth)
        if e[0] == 'ovf' and truth and self.overflow_impossible(st, e):
            return False
        if e[0] == 'un' and e[1] == 'Not' and e[2][0] == 'ovf' and not truth and self.overflow_impossible(st, e[2]):
            return False
        s2 = State()
        s2.doms = dict(st.doms)
        return self.assume(s2, e, truth)

    # ---------------------------------------------------------------- exploration
    def explore(self, key, args, doms=None, cells=None):
        self.paths = []
        self.capped = False
        body = self.P.body[key]
        st = State()
        if doms:
            st.doms.update(doms)
        if cells:
            st.cells.update(cells)
        fr = Frame("f0", key, self.P.crate_of[key])
        st.frames.append(fr)
        for i, a in enumerate(args):
            st.cells[('L', fr.fid, i + 1)] = a
        self.work = [st]
        while self.work:
            if len(self.paths) >= self.max_paths:
                self.capped = True
                break
            st = self.work.pop()
            try:
                self.run_path(st)
            except Unsupported as e:
                self.unsupported.append((str(e), list(st.trace[-3:])))
                self.paths.append(Path("unsupported:%s" % e, TOP, st, st.events, st.conds, st.trace))
        return self.paths

    def arg_unknowns(self, key, names=None):
        body = self.P.body[key]
        cr = self.P.crate_of[key]
        out = []
        if names is None:
            import canon_params
            frozen = canon_params.CANON.get(key)
            if frozen and len(frozen) == body["arg_count"]:
                names = frozen
        for i in range(1, body["arg_count"] + 1):
            l = body["locals"][i]
            nm = (names[i - 1] if names and i - 1 < len(names) and names[i - 1] else None) or l["name"] or ("arg%d" % i)
            out.append(('unk', l["ty"], nm, cr.name))
        return out

    def run_path(self, st):
        steps = 0
        while True:
            steps += 1
            if steps > 200000:
                raise Unsupported("step limit")
            fr = st.frames[-1]
            body = self.P.body[fr.key]
            bb = fr.bb
            n = fr.visited.get(bb, 0)
            if n >= self.loop_limit:
                self.paths.append(Path("loop", ('loop', fr.key, bb), st, st.events, st.conds, st.trace))
                return
            fr.visited[bb] = n + 1
            st.trace.append((fr.key, bb))
            if self.havoc_loops and n == 0:
                self.havoc_at_header(st, fr, bb)
            bl = body["blocks"][bb]
            for s in bl["stmts"]:
                if s["k"] == "assign":
                    v = self.rvalue(st, fr, s["rv"])
                    self.write_place(st, fr, s["place"], v)
                elif s["k"] == "setdiscr":
                    pass
            t = bl["term"]
            k = t["k"]
            if k == "goto":
                fr.bb = t["target"]
            elif k == "drop":
                fr.bb = t["target"]
            elif k == "switch":
                dv = self.operand(st, fr, t["discr"])
                e = self.as_int(st, dv)
                if e is None:
                    e = self.fresh_sym(st, "switch?", 64, False)
                if sx.is_const(e):
                    v = sx.cval(e)
                    bits, signed = sx.ty_of(e)
                    tgt = t["otherwise"]
                    for val, tb in t["targets"]:
                        if sx.wrap(int(val), bits, signed) == v:
                            tgt = tb
                    fr.bb = tgt
                    continue
                bits, signed = sx.ty_of(e)
                branches = []
                for val, tb in t["targets"]:
                    cv = sx.wrap(int(val), bits, signed)
                    branches.append((tb, [(sx.Cmp('Eq', e, C(cv, bits, signed)), True)]))
                branches.append((t["otherwise"], [(sx.Cmp('Eq', e, C(sx.wrap(int(val), bits, signed), bits, signed)), False) for val, _ in t["targets"]]))
                live = []
                for tb, assumptions in branches:
                    if self.P.body[fr.key]["blocks"][tb]["term"]["k"] == "unreachable" and not self.P.body[fr.key]["blocks"][tb]["stmts"]:
                        continue
                    s2 = st.copy()
                    ok = True
                    for ce, truth in assumptions:
                        if not self.assume(s2, ce, truth):
                            ok = False
                            break
                    if ok:
                        s2.frames[-1].bb = tb
                        live.append(s2)
                if not live:
                    return     # infeasible
                # continue with the first, queue the rest
                for s2 in live[1:]:
                    self.work.append(s2)
                st = live[0]
                continue
            elif k == "assert":
                msg = t["msg"]
                if msg in ("MisalignedPointerDereference", "NullPointerDereference"):
                    fr.bb = t["target"]
                    continue
                cv = self.operand(st, fr, t["cond"])
                e = self.as_int(st, cv)
                expected = t["expected"]
                if e is None:
                    e = self.fresh_sym(st, "assert?", 1, False)
                if self.can_be(st, e, not expected):
                    st.events.append(('may-panic', msg, fr.key, bb, bl["tspan"], sx.show(e)))
                    if not self.assume(st, e, expected):
                        self.paths.append(Path("panic", ('panic', msg), st, st.events, st.conds, st.trace))
                        return
                fr.bb = t["target"]
            elif k == "return":
                ret = self.cell_read(st, ('L', fr.fid, 0))
                if len(st.frames) == 1:
                    self.paths.append(Path(self.classify(st, fr, ret), ret, st, st.events, st.conds, st.trace))
                    return
                st.frames.pop()
                caller = st.frames[-1]
                if fr.post is not None and fr.post[0] == 'not':
                    e = self.as_int(st, ret)
                    ret = INT(sx.Un('Not', e, 1, False)) if e is not None else TOP
                elif fr.post is not None and fr.post[0] == 'wrapv':
                    ret = self.SM.mk_enum(self, caller, fr.post[1], fr.post[2], [ret])
                elif fr.post is not None:
                    pt = caller.crate.types[fr.post[1]]
                    ret = self.SM.mk_enum(self, caller, fr.post[1], 1 if pt.get("path") == "std::option::Option" else 0, [ret])
                self.write_place(st, caller, fr.dest, ret)
                caller.bb = fr.ret_target
            elif k == "unreachable":
                return
            elif k == "call":
                res = self.call(st, fr, bb, t, bl)
                if res == "stop":
                    return
                if isinstance(res, list):
                    # forked continuation states (summaries that split)
                    if not res:
                        return
                    for s2 in res[1:]:
                        self.work.append(s2)
                    st = res[0]
            elif k in ("resume", "terminate"):
                return
            else:
                raise Unsupported("terminator %s" % k)

    def loop_info(self, key):
        """header block -> set of int/bool user locals assigned inside the natural loop"""
        if key in self._loopinfo:
            return self._loopinfo[key]
        import graph as G
        body = self.P.body[key]
        cr = self.P.crate_of[key]
        info = {}
        pr = G.preds(body)
        for src, head in G.back_edges(body):
            nodes = {head, src}
            stack = [src]
            while stack:
                x = stack.pop()
                if x == head:
                    continue
                for q in pr.get(x, []):
                    if q not in nodes:
                        nodes.add(q)
                        stack.append(q)
            locs = info.setdefault(head, set())
            for x in nodes:
                bl = body["blocks"][x]
                for stt in bl["stmts"]:
                    if stt["k"] == "assign" and not stt["place"]["proj"]:
                        locs.add(stt["place"]["local"])
                t = bl["term"]
                if t["k"] == "call" and not t["dest"]["proj"]:
                    locs.add(t["dest"]["local"])
            keep = set()
            for l in locs:
                ld = body["locals"][l]
                if ld["name"] and self.int_ty(cr.types[ld["ty"]]):
                    keep.add(l)
            info[head] = keep
        self._loopinfo[key] = info
        return info

    def havoc_at_header(self, st, fr, bb):
        info = self.loop_info(fr.key)
        if bb not in info:
            return
        body = self.P.body[fr.key]
        for l in sorted(info[bb]):
            ld = body["locals"][l]
            st.cells[('L', fr.fid, l)] = ('unk', ld["ty"], "%s@loop" % ld["name"], fr.crate.name)
        st.events.append(('loop-havoc', fr.key, bb, tuple(body["locals"][l]["name"] for l in sorted(info[bb]))))

    def classify(self, st, fr, ret):
        if ret[0] == 'agg' and len(ret) > 6 and ret[5] == "std::result::Result":
            return ret[6]     # 'Ok' / 'Err'
        if ret[0] == 'unk':
            t = self.crate_by_name(ret[3]).types[ret[1]]
            if t["k"] == "adt" and t["path"] == "std::result::Result":
                return "Result?"
        return "ret"

    # ---------------------------------------------------------------- calls
    def describe(self, st, v, depth=0):
        if depth > 4:
            return "…"
        k = v[0]
        if k == 'int':
            return sx.show(v[1])
        if k == 'unk' or k == 'unkvar':
            return v[2]
        if k == 'ref':
            tv = self.read(st, v[1], v[2]) if v[1][0] != 'K' else ('bytes', v[1][1])
            if tv[0] in ('unk', 'unkvar'):
                return tv[2]
            if tv[0] == 'top':
                return "&" + self.cell_name(v[1]) if v[1][0] == 'V' else "&?"
            return self.describe(st, tv, depth + 1)
        if k == 'agg':
            name = "%s::%s" % (v[5].split("::")[-1], v[6]) if len(v) > 6 else "agg"
            if not v[3]:
                return name
            return "%s(%s)" % (name, ", ".join(self.describe(st, f, depth + 1) for f in v[3]))
        if k == 'str':
            return repr(v[1])
        if k == 'bytes':
            return repr(v[1])
        if k == 'arr':
            return "[%s]" % ", ".join(self.describe(st, f, depth + 1) for f in v[1])
        if k == 'vec':
            return v[4] if len(v) > 4 and v[4] else "vec"
        if k == 'fnitem':
            return v[1]
        if k == 'closure':
            return "closure " + v[1]
        return "?"

    def ret_ty(self, fr, t):
        body = self.P.body[fr.key]
        d = t["dest"]
        if not d["proj"]:
            return body["locals"][d["local"]]["ty"]
        return None

    def call(self, st, fr, bb, t, bl):
        c = t["callee"]
        rp = c.get("rpath") or c.get("path") or ""
        full = c.get("rfull") or c.get("full") or ""
        args = [self.operand(st, fr, a) for a in t["args"]]
        site = (fr.key, bb)
        if rp in ("std::option::Option::<T>::map", "std::result::Result::<T, E>::map") and len(args) == 2:
            r = self.call_map(st, fr, t, args, rp)
            if r is not None:
                return r
        if rp in ("std::option::Option::<&T>::cloned", "std::option::Option::<&T>::copied") and len(args) == 1:
            r = self.call_cloned(st, fr, t, args)
            if r is not None:
                return r
        if rp == "std::option::Option::<T>::or_else" and len(args) == 2:
            r = self.call_or_else(st, fr, t, args)
            if r is not None:
                return r
        if rp in self.COMBINATORS:
            r = self.call_combinator(st, fr, t, args, rp)
            if r is not None:
                return r
        if rp in ("std::cmp::impls::<impl std::cmp::PartialEq<&B> for &A>::eq", "std::cmp::impls::<impl std::cmp::PartialEq<&B> for &A>::ne") and len(args) == 2:
            # `&a == &b` on references: dispatch to the referent's own PartialEq::eq with one level of reference removed
            g = c.get("rgenerics") or c.get("generics") or []
            inner = self.P.impl_method(fr.key, "std::cmp::PartialEq", g[0], "eq") if g else None
            if inner is not None and self.should_inline(st, inner):
                a2 = [self.SM.deref_arg(self, st, a) for a in args]
                if all(x[0] in ('ref', 'unk') for x in a2):
                    r = self.do_inline(st, fr, t, inner, a2)
                    if rp.endswith("::ne"):
                        st.frames[-1].post = ('not',)
                    return r
        # 1. summaries (keyed on the resolved def-path)
        fn = self.extra_summaries.get(rp) or self.SM.lookup(rp, full)
        if fn is not None:
            r = fn(self, st, fr, t, args, site)
            if r is not NotImplemented:
                st.events.append(('modelled', site))
                return self.finish_call(st, fr, t, r, site)
        # 2. local bodies: inline
        targets = []
        for bbx, term, name, tg in self.P.call_sites(fr.key):
            if term is t:
                targets = [x for x in tg if not x.startswith("fmt:")]
        # (call_sites also adds fmt edges; the real callee is the resolved one)
        real = self.P.norm_path(fr.key, c.get("rpath")) if c.get("rkind") != "virtual" else None
        if c.get("rkind") == "virtual":
            real = None
        if real is None and c.get("rkind") in ("closure_once_shim",):
            real = self.P.norm_path(fr.key, c.get("rpath"))
        if real is None and rp.endswith(("::call", "::call_mut", "::call_once")) and args and args[0][0] in ('closure', 'ref'):
            clo = args[0]
            if clo[0] == 'ref':
                clo = self.read(st, clo[1], clo[2])
            if clo[0] == 'closure':
                real = self.P.norm_path(fr.key, clo[1])
        if real is not None and self.should_inline(st, real):
            return self.do_inline(st, fr, t, real, args)
        # 3. opaque
        r = self.opaque_call(st, fr, t, args, rp, full, site)
        return self.finish_call(st, fr, t, r, site)

    def call_cloned(self, st, fr, t, args):
        """Option<&T>::cloned / copied: `o.cloned()` is `o.map(|x| x.clone())` - None stays None, Some(&x) becomes Some(x)"""
        views = self.SM.enum_view(self, st, fr, args[0])
        rty = self.ret_ty(fr, t)
        if views is None or rty is None:
            return None
        out = []
        for ass, vix, get in views:
            s2 = st.copy()
            if not all(self.assume(s2, e, tr) for e, tr in ass):
                continue
            f2 = s2.frames[-1]
            val = self.SM.mk_enum(self, f2, rty, vix, [] if vix != 1 else [self.SM.deref_arg(self, s2, get(0))])
            self.write_place(s2, f2, t["dest"], val)
            f2.bb = t["target"]
            out.append(s2)
        return out

    def call_or_else(self, st, fr, t, args):
        """Option::or_else with a local closure: Some(x) stays as it is, None runs the closure (`a.or_else(|| b)` is the ladder
        `if let Some(x) = a { Some(x) } else { b }`)"""
        f = args[1]
        key = self.P.norm_path(fr.key, f[1]) if f[0] in ('closure', 'fnitem') else None
        views = self.SM.enum_view(self, st, fr, args[0])
        if key is None or views is None or not self.should_inline(st, key):
            return None
        out = []
        for ass, vix, get in views:
            s2 = st.copy()
            if not all(self.assume(s2, e, tr) for e, tr in ass):
                continue
            f2 = s2.frames[-1]
            if vix == 1:
                self.write_place(s2, f2, t["dest"], args[0])
                f2.bb = t["target"]
                out.append(s2)
                continue
            s2.counter += 1
            nf = Frame("f%d" % s2.counter, key, self.P.crate_of[key])
            nf.dest = t["dest"]
            nf.ret_target = t["target"]
            body = self.P.body[key]
            cargs = [f] if body["kind"] == "closure" else []
            for i, a in enumerate(cargs[:body["arg_count"]]):
                s2.cells[('L', nf.fid, i + 1)] = a
            s2.frames.append(nf)
            out.append(s2)
        return out

    # Option/Result adaptors as the ladders they abbreviate.  Variant indices: Option None=0 Some=1, Result Ok=0 Err=1.
    # per input variant:  ('keep', out variant)            same payload in the variant of the result type
    #                     ('payload',)                      the payload itself is the result
    #                     ('value', out variant|None, n)    argument n (wrapped in the variant)
    #                     ('none', out variant)             the variant without payload
    #                     ('call', out variant|None, n, passes payload)   run the closure / fn item in argument n (wrap its result)
    COMBINATORS = {
        "std::option::Option::<T>::ok_or_else": {1: ('keep', 0), 0: ('call', 1, 1, False)},
        "std::option::Option::<T>::ok_or": {1: ('keep', 0), 0: ('value', 1, 1)},
        "std::result::Result::<T, E>::map_err": {0: ('keep', 0), 1: ('call', 1, 1, True)},
        "std::option::Option::<T>::and_then": {1: ('call', None, 1, True), 0: ('none', 0)},
        "std::result::Result::<T, E>::and_then": {0: ('call', None, 1, True), 1: ('keep', 1)},
        "std::result::Result::<T, E>::or_else": {0: ('keep', 0), 1: ('call', None, 1, True)},
        "std::option::Option::<T>::unwrap_or_else": {1: ('payload',), 0: ('call', None, 1, False)},
        "std::result::Result::<T, E>::unwrap_or_else": {0: ('payload',), 1: ('call', None, 1, True)},
        "std::option::Option::<T>::map_or": {1: ('call', None, 2, True), 0: ('value', None, 1)},
        "std::result::Result::<T, E>::map_or": {0: ('call', None, 2, True), 1: ('value', None, 1)},
        "std::option::Option::<T>::map_or_else": {1: ('call', None, 2, True), 0: ('call', None, 1, False)},
        "std::result::Result::<T, E>::ok": {0: ('keep', 1), 1: ('none', 0)},
        "std::result::Result::<T, E>::err": {1: ('keep', 1), 0: ('none', 0)},
    }

    def call_combinator(self, st, fr, t, args, rp):
        spec = self.COMBINATORS[rp]
        views = self.SM.enum_view(self, st, fr, args[0])
        rty = self.ret_ty(fr, t)
        if views is None or rty is None:
            return None
        keys = {}
        for act in spec.values():
            if act[0] == 'call':
                f = args[act[2]] if act[2] < len(args) else None
                key = self.P.norm_path(fr.key, f[1]) if f is not None and f[0] in ('closure', 'fnitem') else None
                if key is None or not self.should_inline(st, key):
                    return None
                keys[act[2]] = (f, key)
        out = []
        for ass, vix, get in views:
            act = spec.get(vix)
            if act is None:
                return None
            s2 = st.copy()
            if not all(self.assume(s2, e, tr) for e, tr in ass):
                continue
            f2 = s2.frames[-1]
            if act[0] != 'call':
                if act[0] == 'keep':
                    val = self.SM.mk_enum(self, f2, rty, act[1], [get(0)])
                elif act[0] == 'payload':
                    val = get(0)
                elif act[0] == 'none':
                    val = self.SM.mk_enum(self, f2, rty, act[1], [])
                else:
                    val = args[act[2]] if act[1] is None else self.SM.mk_enum(self, f2, rty, act[1], [args[act[2]]])
                self.write_place(s2, f2, t["dest"], val)
                f2.bb = t["target"]
                out.append(s2)
                continue
            f, key = keys[act[2]]
            s2.counter += 1
            nf = Frame("f%d" % s2.counter, key, self.P.crate_of[key])
            nf.dest = t["dest"]
            nf.ret_target = t["target"]
            if act[1] is not None:
                nf.post = ('wrapv', rty, act[1])
            body = self.P.body[key]
            payload = [get(0)] if act[3] else []
            cargs = ([f] + payload) if body["kind"] == "closure" else payload
            for i, a in enumerate(cargs[:body["arg_count"]]):
                s2.cells[('L', nf.fid, i + 1)] = a
            s2.frames.append(nf)
            out.append(s2)
        return out

    def call_map(self, st, fr, t, args, rp):
        """Option::map / Result::map with a local closure or fn item: fork on the variant, run the callee on the payload"""
        f = args[1]
        key = None
        if f[0] == 'closure':
            key = self.P.norm_path(fr.key, f[1])
        elif f[0] == 'fnitem':
            key = self.P.norm_path(fr.key, f[1])
        views = self.SM.enum_view(self, st, fr, args[0])
        rty = self.ret_ty(fr, t)
        if key is None or views is None or rty is None or not self.should_inline(st, key):
            return None
        is_opt = "Option" in rp
        good = 1 if is_opt else 0
        out = []
        for ass, vix, get in views:
            s2 = st.copy()
            if not all(self.assume(s2, e, tr) for e, tr in ass):
                continue
            f2 = s2.frames[-1]
            if vix != good:
                val = self.SM.mk_enum(self, f2, rty, vix, [] if is_opt else [get(0)])
                self.write_place(s2, f2, t["dest"], val)
                f2.bb = t["target"]
                out.append(s2)
                continue
            s2.counter += 1
            nf = Frame("f%d" % s2.counter, key, self.P.crate_of[key])
            nf.dest = t["dest"]
            nf.ret_target = t["target"]
            nf.post = ('wrap', rty)
            body = self.P.body[key]
            cargs = [f, get(0)] if body["kind"] == "closure" else [get(0)]
            for i, a in enumerate(cargs[:body["arg_count"]]):
                s2.cells[('L', nf.fid, i + 1)] = a
            s2.frames.append(nf)
            out.append(s2)
        return out

    def should_inline(self, st, key):
        if key in self.opaque:
            return False
        if self.inline_only is not None and key not in self.inline_only:
            return False
        if len(st.frames) >= self.max_depth:
            return False
        if any(f.key == key for f in st.frames):
            return False
        if key not in self.P.body:
            return False
        # a callee with loops is summarised as an opaque call (its loops would otherwise cut the caller's path)
        if key not in self._loopy:
            import graph as G
            self._loopy[key] = bool(G.back_edges(self.P.body[key]))
        if self._loopy[key] and key not in self.inline_loopy and not (self.inline_loopy_from_root and len(st.frames) == 1):
            return False
        return True

    def do_inline(self, st, fr, t, key, args):
        st.counter += 1
        nf = Frame("f%d" % st.counter, key, self.P.crate_of[key])
        nf.dest = t["dest"]
        nf.ret_target = t["target"]
        body = self.P.body[key]
        # closures: (env, args-tuple) calling convention through Fn::call -> body(env, a, b, ...)
        if body["kind"] == "closure" and len(args) == 2 and body["arg_count"] != 2 or (
                body["kind"] == "closure" and len(args) == 2 and args[1][0] == 'agg' and args[1][1] is None and body["arg_count"] == 1 + len(args[1][3])):
            tup = args[1]
            args = [args[0]] + (list(tup[3]) if tup[0] == 'agg' else [])
        for i, a in enumerate(args[:body["arg_count"]]):
            st.cells[('L', nf.fid, i + 1)] = a
        if t["target"] is None:
            # diverging local call: explore it anyway (its paths end in panics)
            pass
        st.frames.append(nf)
        return None

    def opaque_call(self, st, fr, t, args, rp, full, site):
        """fresh named unknown of the return type; &mut arguments are havocked"""
        body = self.P.body[fr.key]
        st.events.append(('call', rp, tuple(self.describe(st, a) for a in args), site))
        for i, a in enumerate(args):
            if a[0] == 'ref' and a[1][0] != 'K':
                aty = None
                o = t["args"][i]
                p = o.get("move") or o.get("copy")
                if p is not None and not p["proj"]:
                    aty = self.T(fr, body["locals"][p["local"]]["ty"])
                if aty is not None and aty["k"] == "ref" and aty["mut"]:
                    st.counter += 1
                    self.write(st, a[1], a[2], ('unk', aty["to"], "havoc(%s)@%d" % (rp.split("::")[-1], st.counter), fr.crate.name))
        rty = self.ret_ty(fr, t)
        if rty is None:
            return TOP
        short = rp.replace("std::", "").replace("core::", "")
        name = "%s(%s)" % (short.split("::")[-1] if "<" not in short else short, ", ".join(self.describe(st, a) for a in args))
        if not self.SM.PURE.search(rp):
            st.counter += 1
            name = "%s@%d" % (name, st.counter)
        return ('unk', rty, name, fr.crate.name)

    def finish_call(self, st, fr, t, r, site):
        """r: a value, or ('fork', [(assumptions, value, events)...]), or ('diverge',)"""
        if isinstance(r, tuple) and r and r[0] == 'diverge':
            self.paths.append(Path("diverge:%s" % r[1], TOP, st, st.events, st.conds, st.trace))
            return "stop"
        if isinstance(r, tuple) and r and r[0] == 'fork':
            out = []
            for assumptions, val, evs in r[1]:
                s2 = st.copy()
                ok = True
                for e, truth in assumptions:
                    if not self.assume(s2, e, truth):
                        ok = False
                        break
                if not ok:
                    continue
                for ev in evs:
                    if ev[0] in ('range-advance', 'vec-set'):
                        self.write(s2, ev[1], ev[2], ev[3])
                    else:
                        s2.events.append(ev)
                f2 = s2.frames[-1]
                if t["target"] is None:
                    continue
                self.write_place(s2, f2, t["dest"], val)
                f2.bb = t["target"]
                out.append(s2)
            return out
        if t["target"] is None:
            self.paths.append(Path("diverge", TOP, st, st.events, st.conds, st.trace))
            return "stop"
        self.write_place(st, fr, t["dest"], r)
        fr.bb = t["target"]
        return None


class _FakeFrame:
    def __init__(self, crate):
        self.crate = crate
        self.key = ""


CMP = ("Eq", "Ne", "Lt", "Le", "Gt", "Ge")
