"""C03 — relative branches and jumps reach exactly the target that was named.

(P) on the E1 exploration of instruction::process: for the 20 branch conditions, brbs/brbc, rjmp and rcall the value that feeds the
displacement field is a derived term whose linear form must be exactly  target − current_address − 1, its accepted value set on
Ok paths must be exactly the field's range (so two's-complement truncation into the field is injective and every other distance
leaves through an Err path), and the field bits are the low bits of that term at the right position (same comparison as C01).
(N) in pass_2_internal the current_address argument and the value of the special symbol `pc` are the same local, and the store
of `pc` dominates the call of the encoder."""
import encoder as E
import facts as F
import graph as G
import mirutil as MU
import sx
from common import Reporter, loc_of


def pc_glue(P, rep, prefix="C03.glue"):
    """pass 2, one round of the item loop: `pc` is stored for the item before the encoder runs, it is the very counter the encoder gets as
    current_address, and the counter does not move in between"""
    # ---- glue in pass 2
    key = "builder::pass2::pass_2_internal"
    b = P.body.get(key)
    if b is None:
        rep.unprovable(prefix + "|anchor", "pass_2_internal not found")
        return
    ch = MU.Chaser(b)
    idom = G.dominators(b)
    proc = [(bb, t) for bb, t, n, tg in P.call_sites(key) if "instruction::process" in tg]
    setsp = [(bb, t) for bb, t, n, tg in P.call_sites(key) if any(x.endswith("::set_special") for x in tg)]
    if len(proc) != 1 or not setsp:
        rep.unprovable(prefix + "|shape", "encoder call / set_special call not found in pass_2_internal (%d/%d)" % (len(proc), len(setsp)))
        return
    pbb, pt = proc[0]
    addr_root, addr_proj, _ = ch.root(pt["args"][2], through_calls=False)
    pcs = []
    for sbb, stt in setsp:
        locs, consts, calls, places = MU.backward_slice(b, [stt["args"][1]])
        if any(c.get("str") == "pc" for c in consts):
            pcs.append((sbb, stt))
    # within one round of the item loop: every store of `pc` from which the encoder call can still be reached must store the very
    # counter the encoder gets, unmodified in between, and at least one such store lies on every path to the encoder call
    import rules_C16
    loops = [(h, nodes) for h, nodes in rules_C16.natural_loops(b).items() if pbb in nodes]
    head, nodes = min(loops, key=lambda x: len(x[1])) if loops else (None, set(range(len(b["blocks"]))))

    def reaches_encoder(x):
        return pbb in G.reach_blocks(b, x, lambda y: y == head and y != x)

    def good(sbb, stt):
        vroot, vproj, _ = ch.root(stt["args"][2], through_calls=False)
        d = ch.single_def(vroot)
        src = None
        if d and d[0] == "stmt" and d[2]["k"] == "agg" and d[2]["kind"].get("vname") == "Const" and d[2]["ops"]:
            src, sproj, _ = ch.root(d[2]["ops"][0], through_calls=False)
        same = src is not None and src == addr_root and not addr_proj
        between = G.reach_blocks(b, sbb, lambda x: x == pbb or x == head)
        wr = False
        for x in between:
            if x == sbb:
                continue
            for st in b["blocks"][x]["stmts"]:
                if st["k"] == "assign" and st["place"]["local"] == addr_root and pbb in G.reach_blocks(b, x, lambda y: y == head and y != x):
                    wr = True
        return same, not wr

    live = [(sbb, stt) for sbb, stt in pcs if sbb in nodes and sbb != pbb and reaches_encoder(sbb)]
    rep.count("stores of `pc` that can reach the encoder call within one item", len(live))
    doms = [x for x in live if G.dominates(idom, x[0], pbb)]
    rep.ob(prefix + "|pc-before-encode", bool(doms), "a store of `pc` lies on every path from the start of the item to the encoder call" if doms else
           "the encoder can run for an item without `pc` having been stored for that item (a `pc`-relative target then uses the address of an earlier item)",
           loc=loc_of(b["blocks"][pbb]["tspan"]))
    bad_same = [x for x in live if not good(*x)[0]]
    bad_stable = [x for x in live if not good(*x)[1]]
    rep.ob(prefix + "|same-counter", not bad_same,
           "`pc` is Expr::Const of the very counter (_%d) that is passed to the encoder as current_address (copies and casts only)" % addr_root if not bad_same else
           "`pc` is not a plain copy of the counter passed to the encoder as current_address (offset added or different value)",
           loc=loc_of(b["blocks"][(bad_same or live or [(pbb, None)])[0][0]]["tspan"]))
    rep.ob(prefix + "|counter-stable", not bad_stable, "the counter is not modified between the `pc` store and the encoder call" if not bad_stable else
           "the counter is modified between the `pc` store and the encoder call")


def run(tier):
    rep = Reporter("C03", tier, "proof", "linear-form and value-set dataflow on the relative-displacement term of the encoder; def-use/dominance in pass 2")
    rep.explanation = ("For each relative instruction the displacement term is recovered from the path (a derived atom with its own value set), "
                       "its linear form over (target value, current_address) is compared with k − pc − 1, the value set with the field "
                       "range, the field placement with the ISA pattern. All distances are covered because the operands are symbols over i64/u32.")
    rep.trusted = ["rustc nightly MIR of /repo", "spec/avr_isa.json", "E1 linear-form extraction (sx.linear)"]
    rep.assumptions = ["label values are the emission addresses (C02)", "expression evaluation is C05"]
    P = G.Program(F.load("dev"))
    A = E.analyse(P)
    rep.count("paths of process explored", A["n_paths"])
    if A["capped"] or A["unsupported"]:
        rep.unprovable("C03.explore", "exploration of process incomplete")
    nrel = 0
    for (form, core, kinds), g in sorted(A["groups"].items()):
        r = g["row"]
        rels = [o for o in r["operands"] if o["kind"] == "rel"]
        if not rels:
            continue
        nrel += 1
        ro = rels[0]
        L = ro["letter"]
        tag = "%s" % form
        # linear form
        lins = g["rel_linear"]
        ok_lin = bool(lins)
        shown = None
        for li in lins:
            lin = li["linear"]
            shown = li["expr"]
            if lin is None:
                ok_lin = False
                continue
            consts = lin.get("const", 0)
            tgt = [k for k in lin if k != "const" and k.startswith("run(")]
            pc = [k for k in lin if k == "current_address"]
            others = [k for k in lin if k != "const" and k not in tgt and k not in pc]
            if not (len(tgt) == 1 and lin[tgt[0]] == 1 and len(pc) == 1 and lin[pc[0]] == -1 and consts == -1 and not others):
                ok_lin = False
        # a success path on which no single range-checked displacement term feeds the field (the term is adjusted on the way) is no better
        relf = [f for f in g["findings"] if f[0] in ("rel", "bytes") and not f[1]]
        if relf:
            ok_lin = False
        rep.ob("C03.linear|%s" % tag, ok_lin,
               "%s: displacement = target − current_address − 1 (%s)" % (form, shown) if ok_lin else
               ("%s: on some success path the field is not fed by the one range-checked term target − current_address − 1: %s" % (form, relf[0][2]) if relf else
                "%s: the displacement term is not target − current_address − 1: %s" % (form, [l["linear"] for l in lins] or "no term found")),
               detail={"terms": lins},
               sample={"row": form, "displacement term": shown, "linear form": lins[0]["linear"] if lins else None})
        acc = g["accepted"].get(L)
        leg = sx.dom_range(ro["lo"], ro["hi"])
        ok_dom = acc is not None and sx.dom_eq(acc, leg)
        rep.ob("C03.range|%s" % tag, ok_dom,
               "%s: builds iff %d <= displacement <= %d" % (form, ro["lo"], ro["hi"]) if ok_dom else
               "%s: accepted displacement set %s differs from the field range %d..%d (out-of-range wraps or in-range is rejected)" % (
                   form, sx.dom_show(acc) if acc else "-", ro["lo"], ro["hi"]),
               detail={"accepted": sx.dom_show(acc) if acc else None})
        enc = [f for f in g["findings"] if f[0] == "encoding"]
        ok_enc = bool(enc) and all(f[1] for f in enc)
        rep.ob("C03.field|%s" % tag, ok_enc,
               "%s: field = two's complement of the displacement at the ISA position (%s)" % (form, r["pattern"]) if ok_enc else
               "%s: displacement field mis-placed: %s" % (form, "; ".join(f[2] for f in enc if not f[1]) or "no comparison"))
    rep.floor("relative instruction forms", nrel, 22)
    pc_glue(P, rep)
    # the target that was named: a label called r16_loop or zero is a label, not a register with something behind it
    import grammar
    import layout_match
    g, problems = grammar.load_checked(P)
    for pr in problems:
        rep.unprovable("C03.grammar|cross-check", "grammar reader disagrees with the compiled parser: %s" % pr)
    layout_match.use_conditions(P)
    layout_match.identifier_operands(g, rep, "C03.target", shapes=("target", "branch-target", "call-target"), floor=40)
    # the label a branch names has the value pass 1 gave it: pass 1 must count every instruction as long as pass 2 makes it
    import rules_C02
    from common import Rekey
    rules_C02.clause_a(P, Rekey(rep, "C02.a|", "C03.layout|length|"))
    rules_C02.clause_bc(P, Rekey(rep, "C02.b|instruction", "C03.layout|instruction"))
    import rules_C10
    rules_C10.equ_is_lazy(P, rep, "C03.target|equ-of-pc", "`.equ here = pc` / ... / `rjmp here` jumps to the rjmp itself (displacement -1), not to the place of the .equ line")
    return rep
