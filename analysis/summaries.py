"""E1 summaries of std / byteorder / failure functions, keyed on the *resolved* def-path, so swapping LittleEndian for
BigEndian or checked_add for wrapping_add changes the abstract result.  Each summary is a few lines and pure Python.

signature:  fn(M, st, fr, term, args, site) -> value | ('fork', [(assumptions, value, events)]) | ('diverge', why) | NotImplemented
"""
import re

import sx
from sx import C, S

TABLE = {}
PATTERNS = []


def summary(*names):
    def deco(f):
        for n in names:
            TABLE[n] = f
        return f
    return deco


def pattern(rx):
    def deco(f):
        PATTERNS.append((re.compile(rx), f))
        return f
    return deco


def lookup(rp, full):
    f = TABLE.get(rp)
    if f:
        return f
    for rx, f in PATTERNS:
        if rx.search(rp) or rx.search(full):
            return f
    return None


# ------------------------------------------------------------------------------------------------ helpers
def mk_enum(M, fr, tyix, vix, fields):
    t = fr.crate.types[tyix]
    path = t.get("path", "")
    names = {"std::option::Option": ["None", "Some"], "std::result::Result": ["Ok", "Err"],
             "std::ops::ControlFlow": ["Continue", "Break"]}.get(path)
    vname = names[vix] if names else M.variant_name(fr, t, vix)
    return ('agg', tyix, vix, tuple(fields), fr.crate.name, path, vname)


def enum_view(M, st, fr, v):
    """-> list of (assumptions, variant_ix, payload getter) for an Option/Result-like value"""
    if v[0] == 'agg':
        return [([], v[2], lambda i, v=v: v[3][i] if i < len(v[3]) else ('top',))]
    if v[0] == 'unk':
        d = M.discr_of(st, fr, v)
        if d is None:
            return None
        cr = M.crate_by_name(v[3])
        t = cr.types[v[1]]
        ad = cr.adts.get(t["path"])
        out = []
        for var in ad["variants"]:
            vix = var["ix"]
            uv = M.proj_value(st, v, ('d', vix))
            out.append(([(sx.Cmp('Eq', d, C(int(var["discr"]), 64, True)), True)], vix,
                        lambda i, uv=uv: M.proj_value(st, uv, ('f', i))))
        return out
    return None


def deref_arg(M, st, a):
    """value behind a reference argument (or the value itself)"""
    if a[0] == 'ref':
        if a[1][0] == 'K':
            return ('bytes', a[1][1])
        return M.read(st, a[1], a[2])
    if a[0] == 'unk':
        cr = M.crate_by_name(a[3])
        t = cr.types[a[1]]
        if t["k"] in ("ref", "ptr"):
            return ('unk', t["to"], a[2] + "*", a[3])
    return a


def ret_unk(M, st, fr, t, name):
    rty = M.ret_ty(fr, t)
    if rty is None:
        return ('top',)
    return ('unk', rty, name, fr.crate.name)


# ------------------------------------------------------------------------------------------------ control: ?, errors
@pattern(r"^<std::result::Result<T, E> as std::ops::Try>::branch$")
def try_branch(M, st, fr, t, args, site):
    rty = M.ret_ty(fr, t)
    if rty is None:
        return NotImplemented
    cf = fr.crate.types[rty]              # ControlFlow<Result<Infallible,E>, T>
    res_ty = cf["args"][0]
    views = enum_view(M, st, fr, args[0])
    if views is None:
        return NotImplemented
    out = []
    for assumptions, vix, get in views:
        if vix == 0:
            out.append((assumptions, mk_enum(M, fr, rty, 0, [get(0)]), []))
        else:
            out.append((assumptions, mk_enum(M, fr, rty, 1, [mk_enum(M, fr, res_ty, 1, [get(0)])]), []))
    return ('fork', out)


@pattern(r"as std::ops::FromResidual<std::result::Result<std::convert::Infallible, E>>>::from_residual$")
def from_residual(M, st, fr, t, args, site):
    rty = M.ret_ty(fr, t)
    if rty is None:
        return NotImplemented
    r = args[0]
    payload = r[3][0] if r[0] == 'agg' and r[3] else ('top',)
    rt = fr.crate.types[rty]
    ety = rt["args"][1]
    src = M.describe(st, payload)
    st.events.append(('propagate', src, site))
    if payload[0] in ('unk',) and payload[1] == ety:
        conv = payload
    else:
        conv = ('unk', ety, "from(%s)" % src, fr.crate.name)
    return mk_enum(M, fr, rty, 1, [conv])


@summary("failure::err_msg")
def err_msg(M, st, fr, t, args, site):
    return ret_unk(M, st, fr, t, "err_msg(%s)" % M.describe(st, args[0]))


@summary("std::hint::must_use", "std::convert::identity", "std::convert::From::from#identity")
def identity(M, st, fr, t, args, site):
    return args[0]


@pattern(r"^core::fmt::rt::Argument::<'_>::new_(display|debug|lower_hex|upper_hex|octal|binary|lower_exp|upper_exp|pointer)$")
def fmt_argument(M, st, fr, t, args, site):
    kind = (t["callee"].get("path") or "").rsplit("new_", 1)[-1]
    g = t["callee"].get("generics") or []
    tyname = fr.crate.types[g[0]]["s"] if g else "?"
    return ret_unk(M, st, fr, t, "%s<%s>:%s" % (kind, tyname, M.describe(st, args[0])))


@pattern(r"^std::fmt::Arguments::<'a>::new$|^std::fmt::Arguments::<'a>::from_str$|^std::fmt::Arguments::<'a>::new_const$")
def fmt_arguments(M, st, fr, t, args, site):
    parts = []
    for a in args:
        v = deref_arg(M, st, a)
        if v[0] == 'bytes':
            parts.append(decode_template(v[1]))
        elif v[0] == 'arr':
            parts.append("; ".join(M.describe(st, x) for x in v[1]))
        else:
            parts.append(M.describe(st, v))
    return ret_unk(M, st, fr, t, "fmt{%s}" % " | ".join(parts))


def decode_template(b):
    """rustc's compact format_args template: <len><literal bytes> ... 0xC0.. placeholders, 0 terminator (best effort, for reports)"""
    out = []
    i = 0
    while i < len(b):
        n = b[i]
        if n == 0:
            break
        if n < 0x80:
            out.append(b[i + 1:i + 1 + n].decode("utf-8", "replace"))
            i += 1 + n
        else:
            out.append("{}")
            i += 1
            # optional operand bytes follow some placeholder opcodes; they are < 0x20 and not a plausible literal length here
            if i < len(b) and b[i] not in (0,) and b[i] < 0x09 and (i + 1 >= len(b) or b[i + 1] >= 0x80 or b[i + 1] == 0 or b[i] > len(b) - i - 1 or True) and False:
                i += 1
    return "".join(out)


@summary("std::fmt::format", "alloc::fmt::format")
def fmt_format(M, st, fr, t, args, site):
    return ret_unk(M, st, fr, t, "format(%s)" % M.describe(st, args[0]))


@summary("std::process::exit")
def process_exit(M, st, fr, t, args, site):
    return ('diverge', "exit(%s)" % M.describe(st, args[0]))


@pattern(r"^std::rt::begin_panic|panicking::panic|^core::panicking::|^std::rt::panic_fmt|::unwrap_failed$|::expect_failed$")
def panics(M, st, fr, t, args, site):
    st.events.append(('panic-call', t["callee"].get("rpath"), site))
    return ('diverge', "panic")


# ------------------------------------------------------------------------------------------------ clone / deref wrappers
@pattern(r" as std::clone::Clone>::clone$|^std::clone::impls::<impl std::clone::Clone for .*>::clone$|^std::clone::Clone::clone$")
def clone(M, st, fr, t, args, site):
    v = deref_arg(M, st, args[0])
    return v


TRANSPARENT_REF = (
    "<std::vec::Vec<T, A> as std::ops::Deref>::deref", "<std::vec::Vec<T, A> as std::ops::DerefMut>::deref_mut",
    "<std::string::String as std::ops::Deref>::deref", "std::string::String::as_str", "std::vec::Vec::<T, A>::as_slice",
    "<std::path::PathBuf as std::ops::Deref>::deref", "std::path::PathBuf::as_path", "std::string::String::as_bytes",
    "core::str::<impl str>::as_bytes", "<std::cell::Ref<'_, T> as std::ops::Deref>::deref",
    "<std::cell::RefMut<'_, T> as std::ops::Deref>::deref", "<std::cell::RefMut<'_, T> as std::ops::DerefMut>::deref_mut",
    "<I as std::iter::IntoIterator>::into_iter", "std::borrow::Borrow::borrow", "<T as std::borrow::Borrow<T>>::borrow",
    "<std::string::String as std::convert::AsRef<str>>::as_ref", "<std::string::String as std::borrow::Borrow<str>>::borrow",
)


@summary(*TRANSPARENT_REF)
def transparent(M, st, fr, t, args, site):
    a = args[0]
    if a[0] == 'ref':
        tv = M.read(st, a[1], a[2]) if a[1][0] != 'K' else None
        # Ref/RefMut guards are represented by the reference they guard
        if tv is not None and tv[0] == 'ref' and "cell::Ref" in (t["callee"].get("rpath") or ""):
            return tv
    return a


@summary("<std::rc::Rc<T, A> as std::ops::Deref>::deref", "<std::rc::Rc<T, A> as std::convert::AsRef<T>>::as_ref",
         "<std::boxed::Box<T, A> as std::ops::Deref>::deref", "<std::sync::LazyLock<T, F> as std::ops::Deref>::deref")
def rc_deref(M, st, fr, t, args, site):
    v = deref_arg(M, st, args[0])
    if v[0] == 'unk':
        cr = M.crate_by_name(v[3])
        ty = cr.types[v[1]]
        inner = ty["args"][0] if ty["k"] == "adt" and ty["args"] else None
        if inner is not None:
            return ('ref', ('V', v[2] + ".rc", inner, v[3]), ())
    if v[0] == 'box':
        return ('ref', v[1], ())
    return NotImplemented


@summary("std::cell::RefCell::<T>::borrow", "std::cell::RefCell::<T>::borrow_mut")
def refcell_borrow(M, st, fr, t, args, site):
    a = args[0]
    v = deref_arg(M, st, a)
    if v[0] == 'unk':
        cr = M.crate_by_name(v[3])
        ty = cr.types[v[1]]
        inner = ty["args"][0] if ty["k"] == "adt" and ty["args"] else None
        if inner is not None:
            st.events.append(('borrow', t["callee"]["rpath"].split("::")[-1], v[2], site))
            return ('ref', ('V', v[2] + ".cell", inner, v[3]), ())
    return NotImplemented


def _cell_of(M, st, a):
    """the virtual memory cell behind a &Cell<T> argument (named after the access path of the Cell), or None"""
    v = deref_arg(M, st, a)
    if v[0] == 'unk':
        cr = M.crate_by_name(v[3])
        ty = cr.types[v[1]]
        inner = ty["args"][0] if ty["k"] == "adt" and ty.get("path") == "std::cell::Cell" and ty["args"] else None
        if inner is not None:
            return ('V', v[2] + ".value", inner, v[3])
    return None


@summary("std::cell::Cell::<T>::get")
def cell_get(M, st, fr, t, args, site):
    c = _cell_of(M, st, args[0])
    if c is None:
        return NotImplemented
    return M.read(st, c, ())


@summary("std::cell::Cell::<T>::set")
def cell_set(M, st, fr, t, args, site):
    c = _cell_of(M, st, args[0])
    if c is None:
        return NotImplemented
    M.write(st, c, (), args[1])
    st.events.append(('store', M.cell_name(c), M.describe(st, args[1]), site))
    return ('agg', None, 0, ())


# ------------------------------------------------------------------------------------------------ vectors / bytes
def vec_value(segs, name=None):
    return ('vec', None, tuple(segs), None, name)


def vec_len(M, st, v):
    """length expression of a vec value: sum over segments"""
    if v[0] == 'vec':
        total = C(0, 64, False)
        for seg in v[2]:
            if seg[0] == 'items':
                total = sx.Bin('Add', total, C(len(seg[1]), 64, False), 64, False)
            else:
                total = sx.Bin('Add', total, seg[2], 64, False)
        return total
    if v[0] in ('unk', 'unkvar'):
        if v[0] == 'unk':
            ty = M.crate_by_name(v[3]).types[v[1]]
            if ty["k"] == "array" and ty.get("len") is not None:
                return C(ty["len"], 64, False)
        s = S(v[2] + "#len", 64, False)
        st.doms.setdefault(s, sx.dom_range(0, 1 << 62))
        return s
    if v[0] == 'arr':
        return C(len(v[1]), 64, False)
    if v[0] == 'bytes':
        return C(len(v[1]), 64, False)
    if v[0] == 'str':
        return C(len(v[1].encode()), 64, False)
    return None


def as_segments(M, st, v):
    """turn an iterable value into vec segments"""
    if v[0] == 'vec':
        return list(v[2])
    if v[0] == 'arr':
        return [('items', tuple(v[1]))]
    if v[0] == 'bytes':
        return [('items', tuple(('int', C(b, 8, False)) for b in v[1]))]
    if v[0] in ('unk', 'unkvar'):
        return [('blob', v[2], vec_len(M, st, v))]
    return None


def merge_items(segs):
    out = []
    for s in segs:
        if s[0] == 'items' and out and out[-1][0] == 'items':
            out[-1] = ('items', out[-1][1] + s[1])
        elif s[0] == 'items' and not s[1]:
            continue
        else:
            out.append(s)
    return out


@summary("std::vec::Vec::<T>::new", "std::vec::Vec::<T>::with_capacity")
def vec_new(M, st, fr, t, args, site):
    return vec_value([])


@summary("std::vec::Vec::<T, A>::push")
def vec_push(M, st, fr, t, args, site):
    a = args[0]
    if a[0] != 'ref':
        return NotImplemented
    v = M.read(st, a[1], a[2])
    segs = as_segments(M, st, v)
    if segs is None:
        return NotImplemented
    M.write(st, a[1], a[2], vec_value(merge_items(segs + [('items', (args[1],))])))
    st.events.append(('push', M.cell_name(a[1]), M.describe(st, args[1]), site))
    return ('agg', None, 0, ())


@pattern(r"^<std::vec::Vec<T, A> as std::iter::Extend<(&'a )?T>>::extend$")
def vec_extend(M, st, fr, t, args, site):
    a = args[0]
    if a[0] != 'ref':
        return NotImplemented
    v = M.read(st, a[1], a[2])
    segs = as_segments(M, st, v)
    src = args[1]
    if src[0] == 'ref':
        src = deref_arg(M, st, src)
    add = as_segments(M, st, src)
    if segs is None or add is None:
        return NotImplemented
    M.write(st, a[1], a[2], vec_value(merge_items(segs + add)))
    st.events.append(('extend', M.cell_name(a[1]), M.describe(st, src), site))
    return ('agg', None, 0, ())


@summary("std::vec::Vec::<T, A>::len", "core::slice::<impl [T]>::len", "std::string::String::len", "core::str::<impl str>::len")
def any_len(M, st, fr, t, args, site):
    v = deref_arg(M, st, args[0])
    n = vec_len(M, st, v)
    if n is None:
        return NotImplemented
    return ('int', n)


@summary("std::vec::Vec::<T, A>::is_empty", "core::slice::<impl [T]>::is_empty", "std::string::String::is_empty", "core::str::<impl str>::is_empty")
def any_is_empty(M, st, fr, t, args, site):
    v = deref_arg(M, st, args[0])
    n = vec_len(M, st, v)
    if n is None:
        return NotImplemented
    return ('int', sx.Cmp('Eq', n, C(0, 64, False)))


@pattern(r"^<std::vec::Vec<T, A> as std::ops::Index<I>>::index$|^<std::vec::Vec<T, A> as std::ops::IndexMut<I>>::index_mut$|^core::slice::index::<impl std::ops::Index<I> for \[T\]>::index$")
def vec_index(M, st, fr, t, args, site):
    a = args[0]
    ie = M.as_int(st, args[1])
    if a[0] != 'ref' or ie is None:
        return NotImplemented
    v = M.read(st, a[1], a[2]) if a[1][0] != 'K' else ('bytes', a[1][1])
    n = vec_len(M, st, v)
    name = M.describe(st, a)
    in_bounds = None
    if n is not None:
        in_bounds = not M.can_be(st, sx.Cmp('Lt', ie, n), False)
    st.events.append(('index', name, sx.show(ie), site, in_bounds, fr.crate.name))
    if n is not None and not in_bounds:
        # continue on the in-bounds side (the other side panics): record the assumption
        if not M.assume(st, sx.Cmp('Lt', ie, n), True):
            return ('diverge', "index out of bounds")
    if sx.is_const(ie):
        return ('ref', a[1], a[2] + (('i', sx.cval(ie)),))
    return ret_unk(M, st, fr, t, "%s[%s]" % (name, sx.show(ie)))


@pattern(r"^core::slice::<impl \[T\]>::to_vec$|^std::slice::<impl \[T\]>::to_vec$")
def to_vec(M, st, fr, t, args, site):
    v = deref_arg(M, st, args[0])
    segs = as_segments(M, st, v)
    if segs is None:
        return NotImplemented
    return vec_value(segs)


def _write_bytes(M, st, buf, e, nbytes, little):
    if buf[0] != 'ref':
        return False
    items = []
    for i in range(nbytes):
        items.append(('int', sx.Cast(sx.Bin('Shr', e, C(8 * i, *sx.ty_of(e)), *sx.ty_of(e)), 8, False)))
    if not little:
        items.reverse()
    cur = M.read(st, buf[1], buf[2])
    if cur[0] == 'arr' and len(cur[1]) >= nbytes:
        new = tuple(items) + tuple(cur[1][nbytes:])
    else:
        new = tuple(items)
    M.write(st, buf[1], buf[2], ('arr', new))
    return True


@pattern(r"^<byteorder::(LittleEndian|BigEndian) as byteorder::ByteOrder>::write_(u16|u32|u64|i16|i32|i64)$")
def bo_write(M, st, fr, t, args, site):
    rp = t["callee"]["rpath"]
    little = "LittleEndian" in rp
    n = {"16": 2, "32": 4, "64": 8}[re.search(r"write_[ui](\d+)$", rp).group(1)]
    e = M.as_int(st, args[1])
    if e is None:
        return NotImplemented
    if not _write_bytes(M, st, args[0], e, n, little):
        return NotImplemented
    st.events.append(('byteorder', "little" if little else "big", n, site))
    return ('agg', None, 0, ())


# ------------------------------------------------------------------------------------------------ integers
def _opt(M, fr, t, some_val=None):
    rty = M.ret_ty(fr, t)
    if some_val is None:
        return mk_enum(M, fr, rty, 0, [])
    return mk_enum(M, fr, rty, 1, [some_val])


@pattern(r"^core::num::<impl (i|u)(8|16|32|64|size)>::checked_(add|sub|mul)$")
def checked_arith(M, st, fr, t, args, site):
    op = {"add": "Add", "sub": "Sub", "mul": "Mul"}[t["callee"]["rpath"].rsplit("_", 1)[-1]]
    a = M.as_int(st, args[0])
    b = M.as_int(st, args[1])
    if a is None or b is None:
        return NotImplemented
    bits, signed = sx.ty_of(a)
    ovf = sx.Ovf(op, a, b, bits, signed)
    return ('fork', [([(ovf, False)], _opt(M, fr, t, ('int', sx.Bin(op, a, b, bits, signed))), []),
                     ([(ovf, True)], _opt(M, fr, t), [])])


@pattern(r"^core::num::<impl (i|u)(8|16|32|64|size)>::checked_(div|rem)$")
def checked_div(M, st, fr, t, args, site):
    op = {"div": "Div", "rem": "Rem"}[t["callee"]["rpath"].rsplit("_", 1)[-1]]
    a = M.as_int(st, args[0])
    b = M.as_int(st, args[1])
    if a is None or b is None:
        return NotImplemented
    bits, signed = sx.ty_of(a)
    zero = sx.Cmp('Eq', b, C(0, bits, signed))
    out = [([(zero, True)], _opt(M, fr, t), [])]
    if signed:
        minv = -(1 << (bits - 1))
        both = sx.Bin('BitAnd', sx.Cmp('Eq', a, C(minv, bits, signed)), sx.Cmp('Eq', b, C(-1, bits, signed)), 1, False)
        out.append(([(zero, False), (both, True)], _opt(M, fr, t), []))
        out.append(([(zero, False), (both, False)], _opt(M, fr, t, ('int', sx.Bin(op, a, b, bits, signed))), []))
    else:
        out.append(([(zero, False)], _opt(M, fr, t, ('int', sx.Bin(op, a, b, bits, signed))), []))
    return ('fork', out)


@pattern(r"^core::num::<impl (i|u)(8|16|32|64|size)>::checked_neg$")
def checked_neg(M, st, fr, t, args, site):
    a = M.as_int(st, args[0])
    if a is None:
        return NotImplemented
    bits, signed = sx.ty_of(a)
    minv = -(1 << (bits - 1)) if signed else 0
    ismin = sx.Cmp('Eq', a, C(minv, bits, signed)) if signed else sx.Cmp('Ne', a, C(0, bits, signed))
    return ('fork', [([(ismin, False)], _opt(M, fr, t, ('int', sx.Un('Neg', a, bits, signed))), []),
                     ([(ismin, True)], _opt(M, fr, t), [])])


@pattern(r"^core::num::<impl (i|u)(8|16|32|64|size)>::checked_(shl|shr)$")
def checked_shift(M, st, fr, t, args, site):
    op = {"shl": "Shl", "shr": "Shr"}[t["callee"]["rpath"].rsplit("_", 1)[-1]]
    a = M.as_int(st, args[0])
    b = M.as_int(st, args[1])
    if a is None or b is None:
        return NotImplemented
    bits, signed = sx.ty_of(a)
    inr = sx.Cmp('Lt', b, C(bits, *sx.ty_of(b)))
    return ('fork', [([(inr, True)], _opt(M, fr, t, ('int', sx.Bin(op, a, b, bits, signed))), []),
                     ([(inr, False)], _opt(M, fr, t), [])])


@pattern(r"^core::num::<impl (i|u)(8|16|32|64|size)>::wrapping_(add|sub|mul|shl|shr|neg)$")
def wrapping_arith(M, st, fr, t, args, site):
    nm = t["callee"]["rpath"].rsplit("_", 1)[-1]
    a = M.as_int(st, args[0])
    if a is None:
        return NotImplemented
    bits, signed = sx.ty_of(a)
    st.events.append(('wrapping', nm, site))
    if nm == "neg":
        return ('int', sx.Un('Neg', a, bits, signed))
    b = M.as_int(st, args[1])
    if b is None:
        return NotImplemented
    op = {"add": "Add", "sub": "Sub", "mul": "Mul", "shl": "Shl", "shr": "Shr"}[nm]
    return ('int', sx.Bin(op, a, b, bits, signed))


@pattern(r"^core::num::<impl i64>::reverse_bits$")
def reverse_bits(M, st, fr, t, args, site):
    a = M.as_int(st, args[0])
    if a is None:
        return NotImplemented
    return ('int', sx.Fn('reverse_bits64', [a], 64, True))


@pattern(r"^core::num::<impl (i|u)(8|16|32|64|size)>::(saturating_\w+|overflowing_\w+|pow|abs|rotate_left|rotate_right|swap_bytes|count_ones|leading_zeros|trailing_zeros|unsigned_abs|rem_euclid|div_euclid|signum|min|max)$")
def other_int(M, st, fr, t, args, site):
    nm = t["callee"]["rpath"].rsplit("::", 1)[-1]
    es = [M.as_int(st, a) for a in args]
    if any(e is None for e in es):
        return NotImplemented
    rty = M.ret_ty(fr, t)
    it = M.int_ty(fr.crate.types[rty]) if rty is not None else None
    if it is None:
        return NotImplemented
    return ('int', sx.Fn(nm, es, it[0], it[1]))


# ------------------------------------------------------------------------------------------------ strings
STR_IDS = {}


def str_id(lit):
    if lit not in STR_IDS:
        STR_IDS[lit] = len(STR_IDS) + 1
    return STR_IDS[lit]


def str_sym(M, st, name):
    s = S(name + "#str", 32, False)
    st.doms.setdefault(s, sx.dom_range(0, (1 << 31)))
    return s


def str_view(M, st, v):
    """('lit', text) | ('sym', name) | None"""
    if v[0] == 'ref':
        v = deref_arg(M, st, v)
    if v[0] == 'str':
        return ('lit', v[1])
    if v[0] in ('unk', 'unkvar'):
        return ('sym', v[2])
    if v[0] == 'ref':
        return str_view(M, st, v)
    return None


@pattern(r"^core::str::traits::<impl std::cmp::PartialEq for str>::eq$|^<std::string::String as std::cmp::PartialEq<&'a str>>::eq$|^<std::string::String as std::cmp::PartialEq<str>>::eq$|^<std::string::String as std::cmp::PartialEq>::eq$|^<str as std::cmp::PartialEq<std::string::String>>::eq$|^<&'a str as std::cmp::PartialEq<std::string::String>>::eq$")
def str_eq(M, st, fr, t, args, site):
    a = str_view(M, st, args[0])
    b = str_view(M, st, args[1])
    if a is None or b is None:
        return NotImplemented
    if a[0] == 'lit' and b[0] == 'lit':
        return ('int', C(int(a[1] == b[1]), 1, False))
    if a[0] == 'lit':
        a, b = b, a
    if b[0] == 'lit':
        st.events.append(('streq', a[1], b[1], site))
        return ('int', sx.Cmp('Eq', str_sym(M, st, a[1]), C(str_id(b[1]), 32, False)))
    return ('int', sx.Cmp('Eq', str_sym(M, st, a[1]), str_sym(M, st, b[1])))


@summary("std::str::<impl str>::to_lowercase", "std::str::<impl str>::to_ascii_lowercase", "core::str::<impl str>::to_ascii_lowercase")
def to_lower(M, st, fr, t, args, site):
    v = str_view(M, st, args[0])
    if v is None:
        return NotImplemented
    if v[0] == 'lit':
        return ('str', v[1].lower())
    nm = v[1] if v[1].startswith("lower(") else "lower(%s)" % v[1]
    return ret_unk(M, st, fr, t, nm)


@summary("<str as std::string::ToString>::to_string", "<std::string::String as std::convert::From<&str>>::from", "std::borrow::ToOwned::to_owned",
         "<str as std::borrow::ToOwned>::to_owned")
def str_to_string(M, st, fr, t, args, site):
    v = deref_arg(M, st, args[0])
    return v


# ------------------------------------------------------------------------------------------------ containers (pure lookups)
@pattern(r"^std::collections::BTreeSet::<T, A>::contains$|^std::collections::HashSet::<T, S, A>::contains$")
def set_contains(M, st, fr, t, args, site):
    name = "contains(%s, %s)" % (M.describe(st, args[0]), M.describe(st, args[1]))
    s = S(name, 1, False)
    st.doms.setdefault(s, sx.dom_set([0, 1]))
    st.events.append(('contains', M.describe(st, args[0]), M.describe(st, args[1]), site))
    return ('int', s)


@pattern(r"^std::collections::HashMap::<K, V, S, A>::contains_key$")
def map_contains(M, st, fr, t, args, site):
    name = "contains_key(%s, %s)" % (M.describe(st, args[0]), M.describe(st, args[1]))
    s = S(name, 1, False)
    st.doms.setdefault(s, sx.dom_set([0, 1]))
    st.events.append(('contains_key', M.describe(st, args[0]), M.describe(st, args[1]), site))
    return ('int', s)


# ------------------------------------------------------------------------------------------------ Option / Result helpers
@pattern(r"^std::option::Option::<T>::(is_some|is_none)$|^std::result::Result::<T, E>::(is_ok|is_err)$")
def is_variant(M, st, fr, t, args, site):
    nm = t["callee"]["rpath"].rsplit("::", 1)[-1]
    v = deref_arg(M, st, args[0])
    views = enum_view(M, st, fr, v)
    if views is None:
        return NotImplemented
    want = {"is_some": 1, "is_none": 0, "is_ok": 0, "is_err": 1}[nm]
    return ('fork', [(ass, ('int', C(int(vix == want), 1, False)), []) for ass, vix, get in views])


@pattern(r"^std::option::Option::<T>::(unwrap|expect)$|^std::result::Result::<T, E>::(unwrap|expect)$")
def unwrap(M, st, fr, t, args, site):
    v = args[0]
    views = enum_view(M, st, fr, v)
    if views is None:
        return NotImplemented
    is_opt = "Option" in t["callee"]["rpath"]
    good = 1 if is_opt else 0
    out = []
    for ass, vix, get in views:
        if vix == good:
            out.append((ass, get(0), []))
        else:
            # the failing side panics: record and drop
            s2 = st.copy()
            if all(M.assume(s2, e, tr) for e, tr in ass):
                st.events.append(('may-panic', 'unwrap', fr.key, site[1], None, M.describe(st, v)))
    if not out:
        # only the failing side is left on this path (a helper read in returned the Err / None itself): the path ends in the panic.  With
        # no continuation the state is dropped, and the record of the panic would be lost with it: it is kept with the machine
        # (robust.e1_events reads it; the path sets the other rules work on stay as they were)
        if not hasattr(M, "panic_records"):
            M.panic_records = []
        M.panic_records.append(('may-panic', 'unwrap', fr.key, site[1], None, M.describe(st, v)))
    return ('fork', out)


@pattern(r"^std::option::Option::<T>::unwrap_or$|^std::result::Result::<T, E>::unwrap_or$")
def unwrap_or(M, st, fr, t, args, site):
    views = enum_view(M, st, fr, args[0])
    if views is None:
        return NotImplemented
    good = 1 if "Option" in t["callee"]["rpath"] else 0
    return ('fork', [(ass, get(0) if vix == good else args[1], []) for ass, vix, get in views])


@pattern(r"^std::option::Option::<T>::as_ref$|^std::option::Option::<T>::as_mut$")
def opt_as_ref(M, st, fr, t, args, site):
    a = args[0]
    v = deref_arg(M, st, a)
    views = enum_view(M, st, fr, v)
    if views is None or a[0] != 'ref':
        return NotImplemented
    rty = M.ret_ty(fr, t)
    out = []
    for ass, vix, get in views:
        if vix == 0:
            out.append((ass, mk_enum(M, fr, rty, 0, []), []))
        else:
            out.append((ass, mk_enum(M, fr, rty, 1, [('ref', a[1], a[2] + (('d', 1), ('f', 0)))]), []))
    return ('fork', out)


# functions whose opaque result may be named by their arguments (pure lookups between mutations)
PURE = re.compile(r"^context::Context::get_|^<context::CommonContext as context::Context>::get_|^expr::Expr::run(_nested)?$|^device::Device::|^parser::nesting_is_parsable$|"
                  r"^std::collections::HashMap::<K, V, S, A>::get$|^std::collections::BTreeSet::<T, A>::get$|"
                  r"^std::path::Path::|^std::ffi::OsStr::|^core::str::<impl str>::(trim|parse|chars|lines)|^instruction::|directive::GetData>::|^directive::Operand::")


# ------------------------------------------------------------------------------------------------ literal tables (maplit)
@pattern(r"^std::collections::BTreeSet::<T>::new$|^std::collections::HashSet::<T, S>::new$")
def set_new(M, st, fr, t, args, site):
    return vec_value([], "set")


@pattern(r"^std::collections::BTreeSet::<T, A>::insert$")
def set_insert(M, st, fr, t, args, site):
    a = args[0]
    if a[0] != 'ref':
        return NotImplemented
    v = M.read(st, a[1], a[2])
    if v[0] != 'vec':
        return NotImplemented
    M.write(st, a[1], a[2], vec_value(merge_items(list(v[2]) + [('items', (args[1],))]), "set"))
    return ('int', C(1, 1, False))


@pattern(r"^std::collections::HashMap::<K, V>::with_capacity$|^std::collections::HashMap::<K, V>::new$")
def map_new(M, st, fr, t, args, site):
    st.counter += 1
    return ('map', st.counter)


@pattern(r"^std::collections::HashMap::<K, V, S, A>::insert$")
def map_insert(M, st, fr, t, args, site):
    a = args[0]
    if a[0] != 'ref':
        return NotImplemented
    v = M.read(st, a[1], a[2])
    if v[0] != 'map':
        return NotImplemented      # inserts into unknown (input) maps stay opaque
    st.events.append(('map-insert', v[1], args[1], args[2], site))
    rty = M.ret_ty(fr, t)
    return mk_enum(M, fr, rty, 0, [])


# ------------------------------------------------------------------------------------------------ iterators (loop heads)
# An iterator over an input sequence is ('iter', source name, adapters); `next` forks into None and Some(element) where the
# element is the named unknown  <source>[i]  — one loop iteration then stands for any position in the sequence.
@pattern(r"^<&'a std::vec::Vec<T, A> as std::iter::IntoIterator>::into_iter$|^core::slice::<impl \[T\]>::iter$|^std::vec::Vec::<T, A>::iter$|"
         r"^<&'a \[T\] as std::iter::IntoIterator>::into_iter$|^<std::vec::Vec<T, A> as std::iter::IntoIterator>::into_iter$|^core::slice::<impl \[T\]>::iter_mut$")
def make_iter(M, st, fr, t, args, site):
    v = deref_arg(M, st, args[0])
    if v[0] in ('unk', 'unkvar'):
        by_value = "as std::iter::IntoIterator>::into_iter" in t["callee"]["rpath"] and t["callee"]["rpath"].startswith("<std::vec::Vec")
        return ('iter', v[2], (), v[3], by_value)
    return NotImplemented


@pattern(r"^core::slice::<impl \[T\]>::chunks$|^core::slice::<impl \[T\]>::chunks_exact$")
def make_chunks(M, st, fr, t, args, site):
    v = deref_arg(M, st, args[0])
    n = M.as_int(st, args[1])
    if v[0] in ('unk', 'unkvar') and n is not None and sx.is_const(n) and sx.cval(n) > 0:
        return ('iter', v[2], (("chunks", sx.cval(n)),), v[3], False)
    return NotImplemented


@summary("std::iter::repeat")
def iter_repeat(M, st, fr, t, args, site):
    """`repeat(v)`: the endless source; only `repeat(v).take(n)` is given a meaning (n copies of v, a fill like Vec::resize's)"""
    return ('iter', "repeat:%s" % M.describe(st, args[0]), (), fr.crate.name, True)


@pattern(r"^std::iter::Iterator::(enumerate|skip|rev|take|step_by|filter|map|peekable|chain|zip|cloned|copied)$")
def iter_adapter(M, st, fr, t, args, site):
    v = args[0]
    if v[0] != 'iter':
        return NotImplemented
    nm = t["callee"]["rpath"].rsplit("::", 1)[-1]
    if nm == "take" and v[1].startswith("repeat:") and not v[2]:
        n = M.as_int(st, args[1])
        if n is None:
            return NotImplemented
        return vec_value([('blob', "fill(%s)" % v[1][len("repeat:"):], n)])
    extra = M.describe(st, args[1]) if len(args) > 1 else ""
    return ('iter', v[1], v[2] + ((nm, extra),), v[3], v[4])


@pattern(r" as std::iter::Iterator>::next$|^std::iter::Iterator::next$")
def iter_next(M, st, fr, t, args, site):
    a = args[0]
    v = deref_arg(M, st, a)
    if v[0] != 'iter':
        return NotImplemented
    rty = M.ret_ty(fr, t)
    if rty is None:
        return NotImplemented
    ot = fr.crate.types[rty]
    if ot["k"] != "adt" or ot["path"] != "std::option::Option":
        return NotImplemented
    ety = ot["args"][0]
    et = fr.crate.types[ety]
    ads = [x[0] for x in v[2]]
    if any(x not in ("enumerate", "skip", "rev", "take", "step_by", "filter", "peekable", "chain", "chunks") for x in ads):
        return NotImplemented
    chunk_n = None
    for x in v[2]:
        if x[0] == "chunks":
            chunk_n = x[1]
    st.events.append(('iter-next', v[1], v[2], site))
    nth = st.notes.get("iter:" + v[1], 0)
    st.notes["iter:" + v[1]] = nth + 1
    elem_name = "%s[i]" % v[1] if nth == 0 else "%s[i+%d]" % (v[1], nth)
    isym = S("i(%s)" % v[1], 64, False)
    st.doms.setdefault(isym, sx.dom_range(0, 1 << 62))
    if chunk_n is not None:
        # chunks(n): every element is a non-empty slice of at most n items; there are ceil(len/n) of them
        elem_name = "%s[chunk i]" % v[1] if nth == 0 else "%s[chunk i+%d]" % (v[1], nth)
        cl = S(elem_name + "#len", 64, False)
        st.doms[cl] = sx.dom_range(1, chunk_n)
        srclen = st.doms.get(S(v[1] + "#len", 64, False))
        if srclen is not None and sx.dom_max(srclen) < (1 << 40):
            st.doms[isym] = sx.dom_range(0, max(0, -(-sx.dom_max(srclen) // chunk_n) - 1))

    def elem_of(ty_ix):
        tt = fr.crate.types[ty_ix]
        if tt["k"] == "ref":
            return ('ref', ('V', elem_name, tt["to"], v[3]), ())
        return ('unk', ty_ix, elem_name, v[3])

    if "enumerate" in ads and et["k"] == "tuple" and len(et["of"]) == 2:
        some = ('agg', ety, 0, (('int', isym), elem_of(et["of"][1])), fr.crate.name)
    else:
        some = elem_of(ety)
    none_s = S("more(%s)" % v[1] if nth == 0 else "more%d(%s)" % (nth, v[1]), 1, False)
    st.doms.setdefault(none_s, sx.dom_set([0, 1]))
    budget = getattr(M, "iter_budget", None)
    if budget is not None and nth >= budget:
        # iteration budget used up on this path: the sequence ends here (paths then run on to the function's exit)
        return ('fork', [([(none_s, False)], mk_enum(M, fr, rty, 0, []), [])])
    return ('fork', [([(none_s, False)], mk_enum(M, fr, rty, 0, []), []),
                     ([(none_s, True)], mk_enum(M, fr, rty, 1, [some]), [])])


@pattern(r"^std::iter::range::<impl std::iter::Iterator for std::ops::Range<A>>::next$")
def range_next(M, st, fr, t, args, site):
    a = args[0]
    if a[0] != 'ref':
        return NotImplemented
    v = M.read(st, a[1], a[2])
    if v[0] != 'agg' or len(v[3]) != 2:
        return NotImplemented
    lo = M.as_int(st, v[3][0])
    hi = M.as_int(st, v[3][1])
    if lo is None or hi is None:
        return NotImplemented
    rty = M.ret_ty(fr, t)
    bits, signed = sx.ty_of(lo)
    st.events.append(('range-next', sx.show(lo), sx.show(hi), site, lo, hi))
    budget = getattr(M, "iter_budget", None)
    if budget is not None:
        k = "range:%s:%d" % site
        used = st.notes.get(k, 0)
        st.notes[k] = used + 1
        if used >= budget:
            return ('fork', [([], mk_enum(M, fr, rty, 0, []), [])])
    nxt = ('agg', v[1], v[2], (('int', sx.Bin('Add', lo, C(1, bits, signed), bits, signed)), v[3][1])) + tuple(v[4:])
    more = sx.Cmp('Lt', lo, hi)
    # Some: the range advances; None: unchanged
    out = []
    s2assump = [(more, True)]
    out.append((s2assump, mk_enum(M, fr, rty, 1, [('int', lo)]), [('range-advance', a[1], a[2], nxt)]))
    out.append(([(more, False)], mk_enum(M, fr, rty, 0, []), []))
    return ('fork', out)


# ------------------------------------------------------------------------------------------------ ranges used as predicates
@summary("std::ops::RangeInclusive::<Idx>::new")
def range_incl_new(M, st, fr, t, args, site):
    """`lo..=hi`: (start, end, exhausted=false), the field order of the std struct"""
    rty = M.ret_ty(fr, t)
    if rty is None:
        return NotImplemented
    return ('agg', rty, 0, (args[0], args[1], ('int', C(0, 1, False))), fr.crate.name)


@summary("std::ops::RangeInclusive::<Idx>::contains", "std::ops::Range::<Idx>::contains")
def range_contains(M, st, fr, t, args, site):
    """`(lo..=hi).contains(&v)` is `lo <= v && v <= hi` (`lo..hi`: `v < hi`): the same three ways through as the written-out comparison"""
    r = deref_arg(M, st, args[0])
    v = M.as_int(st, deref_arg(M, st, args[1]))
    if r[0] != 'agg' or len(r[3]) < 2 or v is None:
        return NotImplemented
    lo = M.as_int(st, r[3][0])
    hi = M.as_int(st, r[3][1])
    if lo is None or hi is None:
        return NotImplemented
    incl = "RangeInclusive" in t["callee"]["rpath"]
    if incl:
        ex = M.as_int(st, r[3][2]) if len(r[3]) > 2 else None
        if ex is None or not sx.is_const(ex) or sx.cval(ex) != 0:
            return NotImplemented
    below = sx.Cmp('Lt', v, lo)
    above = sx.Cmp('Gt' if incl else 'Ge', v, hi)
    T_, F_ = ('int', C(1, 1, False)), ('int', C(0, 1, False))
    return ('fork', [([(below, True)], F_, []),
                     ([(below, False), (above, True)], F_, []),
                     ([(below, False), (above, False)], T_, [])])


# ------------------------------------------------------------------------------------------------ vec![a, b, ..] lowering
def _find_arr(v, depth=0):
    if v is None or depth > 6:
        return None
    if v[0] == 'arr':
        return v
    if v[0] == 'agg':
        for f in v[3]:
            r = _find_arr(f, depth + 1)
            if r is not None:
                return r
    return None


@pattern(r"^std::boxed::box_assume_init_into_vec_unsafe$|^std::slice::<impl \[T\]>::into_vec$")
def box_into_vec(M, st, fr, t, args, site):
    a = args[0]
    if a[0] == 'unk':
        cell = None
        for c in st.cells:
            if c[0] == 'V' and c[1] == a[2] + "*":
                cell = c
        if cell is not None:
            arr = _find_arr(st.cells[cell])
            if arr is not None:
                return vec_value([('items', tuple(arr[1]))])
    return NotImplemented


@summary("std::vec::Vec::<T, A>::resize")
def vec_resize(M, st, fr, t, args, site):
    """v.resize(new_len, value): known on the growing side (the shrinking side truncates and is modelled only for constant vectors)"""
    a = args[0]
    if a[0] != 'ref':
        return NotImplemented
    v = M.read(st, a[1], a[2])
    segs = as_segments(M, st, v)
    n = M.as_int(st, args[1])
    if segs is None or n is None:
        return NotImplemented
    cur = vec_len(M, st, vec_value(segs))
    grow = sx.Cmp('Gt', n, cur)
    fill = ('blob', "fill(%s)" % M.describe(st, args[2]), sx.Bin('Sub', n, cur, 64, False))
    out = []
    s_grow = [(grow, True)]
    out.append((s_grow, ('agg', None, 0, ()), [('vec-set', a[1], a[2], vec_value(merge_items(segs + [fill])))]))
    # not growing: unchanged when equal; truncation when smaller is reported as an event
    out.append(([(grow, False)], ('agg', None, 0, ()), [('resize-no-grow', M.cell_name(a[1]), sx.show(n), site)]))
    return ('fork', out)


@pattern(r"^std::result::Result::<T, E>::(ok|err)$")
def result_ok(M, st, fr, t, args, site):
    nm = t["callee"]["rpath"].rsplit("::", 1)[-1]
    views = enum_view(M, st, fr, args[0])
    rty = M.ret_ty(fr, t)
    if views is None or rty is None:
        return NotImplemented
    keep = 0 if nm == "ok" else 1
    return ('fork', [(ass, mk_enum(M, fr, rty, 1, [get(0)]) if vix == keep else mk_enum(M, fr, rty, 0, []), []) for ass, vix, get in views])
