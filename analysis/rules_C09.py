"""C09 — a macro call behaves as its body with the call's arguments substituted  (four necessary clauses only).

Round-trip equality of arbitrary bodies is behavioural; claimed are the structural conditions without which it cannot hold:
(N) name matching is case-insensitive on both sides (E4): the key inserted into `macroses` at definition and the key used at call time
    are both provably lower-cased;
(N) argument re-rendering is re-parse-safe: macro_expand substitutes Display text of parsed operands; a printer of a construct whose
    children can bind looser than the construct (BinaryExpr, UnaryExpr) must emit literal parentheses around itself or branch on
    child/operator discriminants (precedence-aware: then the rule is silent); Func/IndexOps printers emit the grammar's own syntax;
(N) every expanded segment is spliced once: inside the loop over the segments returned by macro_expand, the segment handed to the
    recursive splice must depend on the loop element;
(P) undefined macro -> Err; `@n` keys are "@" + the operand index."""
import re

import absint
import facts as F
import graph as G
import mirutil as MU
import norm
import rules_C10
import sx
from common import Reporter, loc_of


def decode_template(b):
    """rustc's compact format_args! template -> [('lit', text) | ('arg',)]  or None"""
    out = []
    i = 0
    b = bytes(b)
    while i < len(b):
        n = b[i]
        if n == 0:
            return out
        if n < 0x80:
            if i + 1 + n > len(b):
                return None
            out.append(('lit', b[i + 1:i + 1 + n].decode("utf-8", "replace")))
            i += 1 + n
        else:
            out.append(('arg',))
            i += 1
    return out


def fmt_templates(P, key):
    """templates (decoded) passed to fmt::Arguments::new in a body, with the Argument constructors' generic types"""
    b = P.body[key]
    res = []
    for bb, t, name, tg in P.call_sites(key):
        full, rp = MU.callee_names(t)
        if rp.startswith("std::fmt::Arguments::<'a>::new"):
            locs, consts, calls, places = MU.backward_slice(b, t["args"][:1])
            tpl = [c["bytes"] for c in consts if "bytes" in c]
            strs = [c["str"] for c in consts if "str" in c]
            res.append((decode_template(tpl[0]) if tpl else ([('lit', strs[0])] if strs else None), bb))
    return res


def write_sites(P, key):
    """-> ([(bb, text before the first argument, text after the last argument, shown)], [(bb, helper key)]) for a printer body"""
    b = P.body[key]
    sites = []
    helpers = []
    for bb, t, name, tg in P.call_sites(key):
        full, rp = MU.callee_names(t)
        if rp.startswith("std::fmt::Arguments::<'a>::new") or rp.startswith("std::fmt::Arguments::<'a>::from_str"):
            locs, consts, calls, places = MU.backward_slice(b, t["args"][:1])
            tplb = [c["bytes"] for c in consts if "bytes" in c]
            strs = [c["str"] for c in consts if "str" in c]
            tpl = decode_template(tplb[0]) if tplb else ([('lit', strs[0])] if strs else None)
            if tpl is None:
                sites.append((bb, None, None, "<unreadable>"))
                continue
            fa = next((i for i, x in enumerate(tpl) if x[0] == 'arg'), None)
            la = max((i for i, x in enumerate(tpl) if x[0] == 'arg'), default=None)
            lits = "".join(x[1] for x in tpl if x[0] == 'lit')
            before = "".join(x[1] for x in tpl[:fa] if x[0] == 'lit') if fa is not None else lits
            after = "".join(x[1] for x in tpl[la + 1:] if x[0] == 'lit') if la is not None else lits
            sites.append((bb, before, after, '"%s"' % "".join(x[1] if x[0] == 'lit' else "{}" for x in tpl)))
        elif rp == "std::fmt::Formatter::<'a>::write_str":
            lit = [a["const"]["str"] for a in t["args"] if "const" in a and "str" in a["const"]]
            sites.append((bb, lit[0], lit[0], '"%s"' % lit[0]) if lit else (bb, None, None, "<unreadable>"))
        else:
            for x in tg:
                if x in P.body and not x.startswith("fmt:") and " as std::fmt::" not in x and x != key and not x.startswith("std::") and "Arguments" not in rp and "Argument" not in rp:
                    real = P.norm_path(key, t["callee"].get("rpath"))
                    if real == x:
                        helpers.append((bb, x))
    return sites, helpers


def flatten_sites(P, key, ty):
    """calls, in the printer or the helpers it uses, that print a *nested* value of type `ty` (taken out of an Expr) with a helper or the
    printer body itself instead of through Display -> [(function, 'left'|'right'|'?')]"""
    adt = P.lib.adts[ty]
    fnames = [f["name"] for f in adt["variants"][0]["fields"]]
    seen = {key}
    work = [key]
    fam = []
    while work:
        k = work.pop()
        fam.append(k)
        for bb, h in write_sites(P, k)[1]:
            if h not in seen:
                seen.add(h)
                work.append(h)
    out = []

    def origin_of(k, op, depth=0):
        """which field of the enclosing value an operand expression comes from"""
        b = P.body[k]
        ch = MU.Chaser(b, transparent={"<std::boxed::Box<T, A> as std::ops::Deref>::deref", "<std::boxed::Box<T, A> as std::convert::AsRef<T>>::as_ref"})
        r = ch.root(op)
        if r[0] is None:
            return "?"
        flds = [e for e in r[1] if e["k"] == "field"]
        lt = P.tys(k, b["locals"][r[0]]["ty"])
        if ty in lt and flds:
            nm = fnames[flds[0]["i"]] if flds[0]["i"] < len(fnames) else "?"
            return nm if nm in ("left", "right") else "?"
        if 1 <= r[0] <= b["arg_count"] and depth < 3:
            # a parameter: look at what the family's call sites pass
            res = set()
            for k2 in fam:
                for bb, t, name, tg in P.call_sites(k2):
                    if k in tg and P.norm_path(k2, t["callee"].get("rpath")) == k and len(t["args"]) >= r[0]:
                        res.add(origin_of(k2, t["args"][r[0] - 1], depth + 1))
            if len(res) == 1:
                return res.pop()
            return "right" if "right" in res else "?"
        return "?"

    for k in fam:
        b = P.body[k]
        ch = MU.Chaser(b, transparent={"<std::boxed::Box<T, A> as std::ops::Deref>::deref", "<std::boxed::Box<T, A> as std::convert::AsRef<T>>::as_ref"})
        for bb, t, name, tg in P.call_sites(k):
            real = P.norm_path(k, t["callee"].get("rpath"))
            if real not in fam or not t["args"]:
                continue
            r = ch.root(t["args"][0])
            dcs = [e for e in r[1] if e["k"] == "downcast"]
            if not dcs:
                continue             # the receiver is the value being printed itself, not one taken out of an operand
            # the Expr that was taken apart: the chased place up to the downcast
            idx = r[1].index(dcs[0])
            inner = {"local": r[0], "proj": r[1][:idx]}
            out.append((k, origin_of(k, inner)))
    return out


def splice_headers(P, rep, prefix):
    _splice_headers(P, rep, prefix, "builder::pass0::pass0_internal", "splicing a macro expansion", True)
    _splice_headers(P, rep, prefix + "|pass0-entry", "builder::pass0::build_pass_0", "handing the parsed segments to pass 0", False)
    plain_items(P, rep, prefix)
    if prefix.startswith("C09"):
        closing_segment(P, rep, prefix)
        every_segment_type(P, rep, prefix)


def every_segment_type(P, rep, prefix):
    """a macro call is expanded wherever it stands: pass 0 walks every parsed segment and every segment of an expansion, whatever its
    type (the walk lies on every round of the two segment loops), and a body is parsed starting in the segment type of its call"""
    import rules_C16
    for key, what in (("builder::pass0::build_pass_0", "parsed"), ("builder::pass0::pass0_internal", "expanded")):
        b = P.body.get(key)
        if b is None:
            rep.unprovable("%s|every-segment-type|%s" % (prefix, what), "%s not found" % key)
            continue
        idom = G.dominators(b)
        rec = [bb for bb, t, n, tg in P.call_sites(key) if "builder::pass0::pass0_internal" in tg]
        ok = False
        for head, nodes in rules_C16.natural_loops(b).items():
            inl = [x for x in rec if x in nodes]
            if not inl:
                continue
            # the loop over segments (its iterator yields Segment values), not the item loop that merely contains it
            nexts = [x for x in nodes if b["blocks"][x]["term"]["k"] == "call" and MU.callee_names(b["blocks"][x]["term"])[1].endswith("::next") and
                     "Segment" in MU.callee_names(b["blocks"][x]["term"])[0] and "CodePoint" not in MU.callee_names(b["blocks"][x]["term"])[0]]
            if not nexts:
                continue
            srcs = [s_ for s_, h_ in G.back_edges(b) if h_ == head]
            if any(all(G.dominates(idom, x, s_) for s_ in srcs) for x in inl):
                ok = True
        rep.ob("%s|every-segment-type|%s" % (prefix, what), ok,
               "every %s segment is walked for macro calls, whatever its type" % what if ok else
               "not every %s segment is walked for macro calls (the walk is skipped for some segment types): a macro called while .eseg or .dseg is selected is never expanded" % what)
    k = "builder::pass0::macro_expand"
    b = P.body.get(k)
    if b is not None:
        fn = [f["name"] for f in P.lib.adts["parser::Segment"]["variants"][0]["fields"]]
        okt = False
        for bl in b["blocks"]:
            for st in bl["stmts"]:
                if st["k"] == "assign" and st["rv"]["k"] == "agg" and st["rv"]["kind"].get("path") == "parser::Segment":
                    o = st["rv"]["ops"][fn.index("t")]
                    locs, consts, calls, places = MU.backward_slice(b, [o])
                    okt = any(MU.callee_names(c)[1].endswith("Pass0Context::last_segment") for c in calls)
        rep.ob("%s|every-segment-type|body-start" % prefix, okt,
               "a macro body is parsed starting in the segment type its call stands in" if okt else
               "a macro body is always parsed as if it stood in one fixed segment type: data a macro emits when called from .eseg lands in flash")


def closing_segment(P, rep, prefix):
    """Which segments of a macro body's expansion are handed back: an empty one must not be dropped for being empty alone — the one a
    segment directive at the end of the body opens is what the caller's following lines go to.  So wherever the family of macro_expand
    decides by Segment::is_empty, that decision also looks at the position of the segment (a length or index comparison)."""
    fam = [k for k in P.body if k == "builder::pass0::macro_expand" or k.startswith("builder::pass0::macro_expand::{closure")]
    found = 0
    bad = []
    for k in fam:
        b = P.body[k]
        for bb, t, name, tg in P.call_sites(k):
            if "parser::Segment::is_empty" not in tg:
                continue
            found += 1
            # everything the emptiness flows into (copies, !, |, &) up to a switch or the closure's return value
            tainted = {t["dest"]["local"]}
            grew = True
            while grew:
                grew = False
                for bl in b["blocks"]:
                    for st in bl["stmts"]:
                        if st["k"] != "assign" or st["place"]["proj"]:
                            continue
                        rv = st["rv"]
                        ops = [rv.get("op"), rv.get("o"), rv.get("l"), rv.get("r")]
                        if any(o and MU.op_place(o) and MU.op_place(o)["local"] in tainted for o in ops) and st["place"]["local"] not in tainted:
                            tainted.add(st["place"]["local"])
                            grew = True
            deciders = []
            for bi, bl in enumerate(b["blocks"]):
                tt = bl["term"]
                if tt["k"] == "switch" and MU.op_place(tt["discr"]) and MU.op_place(tt["discr"])["local"] in tainted:
                    deciders.append(tt["discr"])
            if 0 in tainted:
                deciders.append({"copy": {"local": 0, "proj": []}})
            positional = False
            for d in deciders:
                locs, consts, calls, places = MU.backward_slice(b, [d])
                if any(re.search(r"::len$", MU.callee_names(c)[1]) for c in calls):
                    positional = True
                # short-circuit `a && b`: the position test may sit on the other side of a branch that joins into the decision
            if not positional:
                # look at the whole function: an integer equality with a length that reaches the same push / return
                for bl in b["blocks"]:
                    for st in bl["stmts"]:
                        if st["k"] == "assign" and st["rv"]["k"] == "bin" and st["rv"]["op"] in ("Eq", "Ne", "Lt", "Le", "Gt", "Ge"):
                            locs, consts, calls, places = MU.backward_slice(b, [st["rv"]["l"], st["rv"]["r"]])
                            if any(re.search(r"::len$", MU.callee_names(c)[1]) for c in calls) and any(re.search(r"Enumerate|enumerate", MU.callee_names(c)[1]) for c in calls):
                                positional = True
            if not positional:
                bad.append(k)
    rep.ob("%s|closing-segment" % prefix, found >= 1 and not bad,
           "where an expansion's segments are kept or dropped by emptiness, the segment's position is looked at as well: the empty segment that a closing segment directive opens is handed back" if found >= 1 and not bad else
           ("segments of a macro expansion are dropped for being empty alone (%s): after a body that ends with `.cseg` (a macro that declares a variable in .dseg and switches back) the caller's following lines go to the wrong segment" % bad[0].split("pass0::")[-1]
            if bad else "no emptiness decision found in macro_expand"))


def plain_items(P, rep, prefix):
    """an item that is not a macro call goes to the output's last segment exactly once, unchanged (its line and the item itself)"""
    import absint
    import sx
    fn = "builder::pass0::pass0_internal"
    M = absint.Machine(P, max_depth=3, opaque={"builder::pass0::macro_expand"}, loop_limit=1)
    M.iter_budget = 1
    paths = M.explore(fn, M.arg_unknowns(fn))
    if M.capped or M.unsupported:
        rep.unprovable("%s|plain-items|explore" % prefix, "exploration of pass0_internal incomplete: %s" % M.unsupported[:2])
        return
    n = 0
    bad = None
    for p in paths:
        cs = [sx.show(e) for e, t in p.conds]
        yielded = any(sx.show(e) == "more(segment.items)" and t for e, t in p.conds)
        is_macro = any(":Instruction.0#d == " in sx.show(e) and t and "Custom" in str(P.lib.adts["instruction::operation::Operation"]["variants"][int(sx.show(e).rsplit("== ", 1)[1].rstrip(")"), 0)]["name"]) for e, t in p.conds
                       if ":Instruction.0#d == " in sx.show(e) and sx.show(e).startswith("(segment.items[i].1:Instruction.0#d"))
        if not yielded or is_macro:
            continue
        if p.exit == "Err":
            # a depth error for a plain item would be wrong
            bad = bad or "a plain item can fail in pass 0 (%s)" % cs[-1:]
            continue
        n += 1
        pushes = [e for e in p.events if e[0] == 'push']
        ok = len(pushes) == 1 and pushes[0][2] == "agg(segment.items[i].0, segment.items[i].1)" and "last(context*.segments" in pushes[0][1]
        if not ok:
            bad = bad or "a plain item is not pushed once, unchanged, to the output's last segment (pushes: %s)" % [(e[1][-40:], e[2][:60]) for e in pushes]
    rep.ob("%s|plain-items" % prefix, bad is None and n >= 2,
           "every item that is not a macro call is appended once, with its line, to the output's last segment (%d paths)" % n if bad is None and n >= 2 else
           (bad or "only %d plain-item paths found" % n))


def _splice_headers(P, rep, prefix, key, doing, with_decision):
    """The segments a macro expansion produced are put into the output with their own start address and type, and the decision whether
    the first of them continues the output's current segment compares it with the output's last segment.
    (parser::Segment fields are looked up by name; sources are `expanded[0]` = Index(vec, 0) or the element of the splice loop)"""
    b = P.body.get(key)
    if b is None:
        rep.unprovable("%s|anchor" % prefix, "%s not found" % key)
        return
    fn = [f["name"] for f in P.lib.adts["parser::Segment"]["variants"][0]["fields"]]
    fa, ft = fn.index("address"), fn.index("t")
    ch = MU.Chaser(b)

    def source(op):
        """-> (kind, id, field path) of a value taken out of an expanded segment"""
        r = ch.root(op, through_calls=False)
        for _ in range(4):
            # a value that went through a tuple (`let (a, t) = (x.address, x.t)`): step through  t = (p, q); t.i
            if r[0] is None or not r[1] or r[1][0]["k"] != "field":
                break
            d0 = ch.single_def(r[0])
            if not (d0 and d0[0] == "stmt" and d0[2]["k"] == "agg" and d0[2]["kind"].get("k") == "tuple" and r[1][0]["i"] < len(d0[2]["ops"])):
                break
            rest = r[1][1:]
            r2 = ch.root(d0[2]["ops"][r[1][0]["i"]], through_calls=False)
            r = (r2[0], list(r2[1]) + rest, r2[2])
        if r[0] is None:
            return None
        flds = MU.proj_fields(r[1])
        d = ch.single_def(r[0])
        if d and d[0] == "call":
            rp = MU.callee_names(d[2])[1]
            if rp.endswith("as std::ops::Index<I>>::index") or "ops::Index<" in MU.callee_names(d[2])[0]:
                v = ch.root(d[2]["args"][0], through_calls=False)[0]
                ix = d[2]["args"][1].get("const", {}).get("int") if "const" in d[2]["args"][1] else "?"
                return ("index", (v, ix), flds)
            if rp.endswith("::next") and "Iterator" in rp:
                return ("elem", r[0], flds[1:] if flds[:1] == [0] else flds)
            if rp.endswith("Pass0Context::last_segment") or "RefCell" in rp or "Clone>::clone" in rp or "unwrap" in rp or "Deref>::deref" in rp:
                locs, consts, calls, places = MU.backward_slice(b, d[2]["args"][:1])
                if any(MU.callee_names(c)[1].endswith("Pass0Context::last_segment") for c in calls) or rp.endswith("Pass0Context::last_segment"):
                    return ("last", None, flds)
        if 1 <= r[0] <= b["arg_count"]:
            return ("param", r[0], flds)
        return ("other", r[0], flds)

    adds = [(bb, t) for bb, t, n, tg in P.call_sites(key) if any(x.endswith("Pass0Context::add_segment") for x in tg)]
    rep.count("segments opened while %s" % doing, len(adds))
    first_adds = []
    for bb, t in adds:
        r = ch.root(t["args"][1], through_calls=False)
        d = ch.single_def(r[0]) if r[0] is not None else None
        where = loc_of(b["blocks"][bb]["tspan"])
        if d and d[0] == "call" and MU.callee_names(d[2])[1] == "<parser::Segment as std::clone::Clone>::clone":
            src = source(d[2]["args"][0])
            ok = src is not None and src[0] in ("index", "elem") and not src[2]
            rep.ob("%s|header|clone" % prefix, ok, "a non-code segment of the expansion is taken over whole" if ok else
                   "a segment cloned into the output is not one of the expanded segments", loc=where)
        elif d and d[0] == "stmt" and d[2]["k"] == "agg" and d[2]["kind"].get("path") == "parser::Segment":
            sa, st_ = source(d[2]["ops"][fa]), source(d[2]["ops"][ft])
            ok = sa is not None and st_ is not None and sa[0] in ("index", "elem") and sa[:2] == st_[:2] and sa[2] == [fa] and st_[2] == [ft]
            rep.ob("%s|header|%s" % (prefix, "first" if sa and sa[0] == "index" else "further"), ok,
                   "the output segment opened for an expanded segment carries that segment's start address and type" if ok else
                   "a segment opened while splicing does not carry the expanded segment's own address and type (address from %s, type from %s): an `.org` inside the macro body is lost" % (sa, st_), loc=where)
            if sa and sa[0] == "index":
                first_adds.append((bb, sa))
        else:
            what = MU.callee_names(d[2])[1] if d and d[0] == "call" else "an unrecognised value"
            rep.ob("%s|header|other" % prefix, False,
                   "a segment opened while splicing a macro expansion is built by %s, not from the expanded segment's address and type: an `.org` (or segment switch) inside the macro body is lost" % what, loc=where)
    # the decision for the first expanded segment
    for bb, sa in (first_adds if with_decision else []):
        got = set()
        for bi, bl in enumerate(b["blocks"]):
            cands = []
            for st in bl["stmts"]:
                if st["k"] == "assign" and st["rv"]["k"] == "bin" and st["rv"]["op"] in ("Ne", "Eq"):
                    cands.append((st["rv"]["l"], st["rv"]["r"]))
            t = bl["term"]
            if t["k"] == "call" and (re.search(r"PartialEq>::(ne|eq)$", MU.callee_names(t)[0]) or re.search(r"PartialEq(<.*>)?::(ne|eq)$", MU.callee_names(t)[1])) and len(t["args"]) == 2:
                cands.append((t["args"][0], t["args"][1]))
            for l, r_ in cands:
                a, c = source(l), source(r_)
                for x, y, yop in ((a, c, r_), (c, a, l)):
                    if x and x[0] == "index" and x[:2] == sa[:2] and len(x[2]) == 1:
                        if y and y[0] == "last" and y[2] == x[2]:
                            # read in the same round: every loop the comparison stands in also holds the read of the last segment
                            # (an earlier item of the same segment - another macro call - may have opened segments since)
                            import rules_C16 as R16
                            locs_, consts_, calls_, places_ = MU.backward_slice(b, [yop])
                            reads = [bj for bj, blj in enumerate(b["blocks"]) if blj["term"]["k"] == "call" and
                                     any(blj["term"] is c_ for c_ in calls_) and MU.callee_names(blj["term"])[1].endswith("Pass0Context::last_segment")]
                            inside = all(bj in nodes for head, nodes in R16.natural_loops(b).items() if bi in nodes for bj in reads)
                            got.add((x[2][0], "last" if reads and inside else "last-stale"))
                        elif isinstance(yop, dict) and "const" in yop and yop["const"].get("int") is not None:
                            got.add((x[2][0], "const %s" % yop["const"]["int"]))
                        else:
                            got.add((x[2][0], "other"))
        # what the expansion was seeded with: the body's first segment starts as (type of the segment the call stands in, no address);
        # an address or type that differs from the seed at the end is the body's own
        seed = seed_of_expansion(P)
        want_addr = (fa, "const %s" % seed["address"]) if seed and seed["address"] is not None else None
        ok = (ft, "last") in got and want_addr is not None and want_addr in got and seed["type_from_last"]
        rep.ob("%s|first-segment-decision" % prefix, ok,
               "the first expanded segment continues the current output segment exactly when it still is what the expansion was seeded with: no address of its own (%s) and the type of the output's last segment" % (seed["address"],) if ok else
               ("the type the first expanded segment is compared with was read from the output's last segment before the loop over the items, not in the round of the call: after a macro call that left another segment selected, the next call on the same level is spliced by the stale type"
                if (ft, "last-stale") in got else
                "the seed of an expansion carries the caller's address (not a constant): an `.org` in the body that equals it is taken for no `.org`, and a segment directive at the start of the body keeps the foreign address" if seed and seed["address"] is None else
                "the first expanded segment's address/type are not compared with what the expansion was seeded with (seed %s, comparisons found: %s): after a macro that left another segment selected or moved the origin, the next expansion lands in the wrong place" % (seed, sorted(got))),
               loc=loc_of(b["blocks"][bb]["tspan"]))
    rep.floor("segments opened while %s" % doing, len(adds), 2 if with_decision else 1)


BODY_TEXT_API = re.compile(r"(^|::)(join|concat|to_lowercase|to_uppercase|to_ascii_lowercase|to_ascii_uppercase|retain|remove|truncate|insert|insert_str|replace_range|drain)$")


def _is_body_text(P, k, op, depth):
    """the operand is (part of) a stored body line: what it is computed from is paired with the line's CodePoint, comes out of
    document::code_text, or is a text parameter that a caller in builder::pass0 fills with such a value"""
    b = P.body[k]
    locs, consts, calls, places = MU.backward_slice(b, [op])
    if any("code_text" in MU.callee_names(c)[1] for c in calls):
        return True
    tys = [P.tys(k, b["locals"][l]["ty"]) for l in locs]
    if any("CodePoint" in x and ("str" in x or "String" in x) for x in tys):
        return True
    if depth >= 2 or "{closure#" in k:
        return False
    params = [l for l in locs if 1 <= l <= b["arg_count"] and any(x in P.tys(k, b["locals"][l]["ty"]) for x in ("str", "String"))]
    for l in params:
        for k2 in P.body:
            if not k2.startswith("builder::pass0::"):
                continue
            for _, t2, _, tg2 in P.call_sites(k2):
                if k in tg2 and len(t2["args"]) >= l and _is_body_text(P, k2, t2["args"][l - 1], depth + 1):
                    return True
    return False


def body_text_verbatim(P, rep, prefix="C09.body-text|verbatim"):
    """Between the stored body and the line parser the text of a body line is changed in one place only: the per-character walk that
    puts the arguments in (decided by C09.placeholder).  Everywhere else in the macro pipeline (module builder::pass0) a line is copied
    or left out whole: nothing there searches, splits, trims, joins or re-cases the text - what is a blank inside a quoted text and
    what is layout is known to the grammar alone (document::code_text hands out the line without its trailing comment)."""
    import rules_C14
    sub = {k for k in P.body if re.match(r"^builder::pass0::\w+$", k) and
           any(MU.callee_names(t)[1] == "std::string::String::push_str" for _, t, _, _ in P.call_sites(k))}
    scope = sorted(k for k in P.body if k.startswith("builder::pass0::") and "#promoted" not in k and k.split("::{closure#")[0] not in sub)
    n = 0
    for k in scope:
        b = P.body[k]
        for bb, t, name, tg in P.call_sites(k):
            full, rp = MU.callee_names(t)
            if not t["args"] or b["blocks"][bb]["tspan"].get("exp"):
                continue
            if not (rules_C14.RAW_TEXT_API.search(rp) or BODY_TEXT_API.search(rp)):
                continue
            # only text: the receiver's type mentions str / String
            a0 = t["args"][0]
            pl = a0.get("copy") or a0.get("move")
            aty = P.tys(k, b["locals"][pl["local"]]["ty"]) if pl is not None else ""
            if pl is not None and pl["proj"] and not any(x in aty for x in ("str", "String")):
                aty = "str?"
            if not any(x in aty for x in ("str", "String", "char")):
                continue
            if not _is_body_text(P, k, t["args"][0], 0):
                continue
            n += 1
            api = rp.rsplit("::", 1)[-1]
            rep.ob("%s|%s|%s" % (prefix, k, api), False,
                   "%s in %s works on the text of a line of a macro body (%s) outside the walk that puts the arguments in: blanks, quotes and letter "
                   "case inside a quoted text or character constant are data, and only the grammar knows where those are" % (api, k, rp),
                   loc=loc_of(b["blocks"][bb]["tspan"]))
    rep.ob(prefix, n == 0,
           "outside the argument walk the macro pipeline copies body lines whole: no text-inspecting or text-rewriting call in %d functions of builder::pass0" % len(scope) if n == 0 else
           "%d call(s) in builder::pass0 look into or rewrite the text of body lines outside the argument walk" % n)
    rep.floor("functions of the macro pipeline (builder::pass0)", len(scope), 10)


def placeholder(P, rep, key):
    """`@n` stands for the text of operand n.  Two implementations are recognised: the one that searches the line for the text "@<index>"
    for every operand (format "@{}" of an enumerate() index), and the one that reads the line once (function `substitute`), which is
    decided per character by abstract interpretation: a character that is not `@`, or an `@` with no operand behind its digit, is copied;
    `@` + digit d is replaced by arguments[d] (decimal digit value, used as the index unchanged) and the digit is consumed."""
    sub = [k for k in P.reachable([key]) if re.match(r"^builder::pass0::\w+$", k) and k != key and
           any(MU.callee_names(t)[1] == "std::string::String::push_str" for _, t, _, _ in P.call_sites(k))]
    if not sub:
        tpls = fmt_templates(P, key)
        keys = ["".join(x[1] if x[0] == 'lit' else "{}" for x in tpl) for tpl, bb in tpls if tpl]
        okk = "@{}" in keys
        enum = any(MU.callee_names(t)[1].endswith("Iterator::enumerate") for _, t, _, _ in P.call_sites(key))
        rep.ob("C09.placeholder", okk and enum, "`@n` is replaced by the text of operand n (format \"@{}\" of the enumerate index)" if okk and enum else
               "placeholder keys are not \"@\" + operand index (templates %s, enumerate %s)" % (keys, enum))
        return
    fn = sub[0]
    M = absint.Machine(P, max_depth=3, loop_limit=1)
    M.havoc_loops = True
    paths = M.explore(fn, M.arg_unknowns(fn))
    if M.capped or M.unsupported:
        rep.unprovable("C09.placeholder", "exploration of %s incomplete: %s" % (fn, M.unsupported[:2]))
        return
    why = []
    kinds = set()
    for p in paths:
        if p.exit not in ("loop", "Err"):
            continue
        calls = [e for e in p.events if e[0] == 'call']
        nexts = [e for e in calls if e[1].endswith("Iterator>::next")]
        pushes = [e for e in calls if e[1] == "std::string::String::push"]
        pstrs = [e for e in calls if e[1] == "std::string::String::push_str"]
        if not nexts:
            continue
        is_at = None
        found = None
        for e, t in p.conds:
            sh = sx.show(e)
            m = re.match(r"^\((.*):Some\.0 == (0x[0-9a-f]+|\d+)\)$", sh)
            if m and int(m.group(2), 0) == ord("@"):
                is_at = t
            # the operand looked up: Option::and_then kept opaque, or (adaptors read as the ladders they abbreviate) slice::get itself
            m = re.match(r"^\((.*and_then.*|slice::<impl \[T\]>::get\(arguments\*, .*to_digit.*)#d == ([01])\)$", sh)
            if m:
                found = (m.group(2) == "1") == t
        if is_at is None:
            why.append("a character is handled without being compared with '@'")
            continue
        if is_at and found:
            kinds.add("replace")
            ok = len(pstrs) == 1 and not pushes and len(nexts) == 2 and ("and_then" in str(pstrs[0][2][1]) or str(pstrs[0][2][1]).startswith("slice::<impl [T]>::get(arguments*, ")) and ":Some.0" in str(pstrs[0][2][1])
            if not ok:
                why.append("`@` + digit with an operand behind it does not append exactly that operand and consume the digit (appends %s, %d characters taken)" % (
                    [str(x[2][1])[:50] for x in pstrs + pushes], len(nexts)))
        else:
            kinds.add("copy-at" if is_at else "copy")
            ok = len(pushes) == 1 and not pstrs and len(nexts) == 1 and str(pushes[0][2][1]).endswith(":Some.0") and "next" in str(pushes[0][2][1])
            if not ok:
                why.append("a character that is no placeholder is not copied as it is (%s)" % [str(x[2][1])[:50] for x in pstrs + pushes])
    if kinds != {"replace", "copy-at", "copy"}:
        why.append("the three cases (plain character, `@` without operand, `@n`) were not all found: %s" % sorted(kinds))
    # the digit and the index: to_digit(10) on the looked-at character, slice::get(arguments, n as usize)
    digit_ok = index_ok = False
    for k in P.body:
        if not k.startswith(fn + "::{closure"):
            continue
        b = P.body[k]
        ch = MU.Chaser(b)
        for bb, t, n, tg in P.call_sites(k):
            rp = MU.callee_names(t)[1]
            if rp.endswith("char>::to_digit"):
                root = ch.root(t["args"][0], through_calls=False)
                digit_ok = "const" in t["args"][1] and t["args"][1]["const"].get("int") == "10" and root[0] == 2
            if rp.endswith("[T]>::get"):
                r0 = ch.root(t["args"][0], through_calls=False)
                r1 = ch.root(t["args"][1], through_calls=False)
                index_ok = r0[0] == 1 and r1[0] == 2 and not MU.proj_fields(r1[1])
    # what is walked is the body line itself, whole: the characters come from the text parameter, not from a part of it
    bsub = P.body[fn]
    chs = MU.Chaser(bsub)
    walked = [t_ for _, t_, _, _ in P.call_sites(fn) if MU.callee_names(t_)[1].endswith("str>::chars") or MU.callee_names(t_)[1].endswith("str>::char_indices")]
    whole = len(walked) == 1
    if whole:
        r_ = chs.root(walked[0]["args"][0], through_calls=False)
        whole = r_[0] is not None and 1 <= r_[0] <= bsub["arg_count"] and not [e for e in r_[1] if e["k"] not in ("deref", "addrof", "via")] and \
            "str" in P.tys(fn, bsub["locals"][r_[0]]["ty"])
    if not whole:
        why.append("the characters that are walked are not those of the whole body line (a part of it was cut off or it was worked on first)")
    if not digit_ok:
        why.append("the digit behind `@` is not read as a decimal digit of the character that was looked at")
    if not index_ok:
        why.append("the operand is not looked up at the digit's value in the argument list")
    # the argument list: the operands' texts in their order
    b = P.body[key]
    names = [MU.callee_names(t)[1] for _, t, _, _ in P.call_sites(key)]
    order_ok = any(n.endswith("Iterator::collect") for n in names) and any(n.endswith("Iterator::map") for n in names) and \
        not any(re.search(r"Iterator::(rev|skip|step_by|filter|take|skip_while|chain|zip)$", n) for n in names)
    if not order_ok:
        why.append("the argument texts are not simply the operands' texts in their order")
    rep.ob("C09.placeholder", not why, "`@n` is replaced by the text of operand n, every other character is copied (decided per character on %s)" % fn if not why else
           "placeholder substitution: %s" % "; ".join(sorted(set(why))[:3]))


def _sym_of_call(p, ev):
    """the printed name of the value a call event returned, as far as it shows in later events / conditions"""
    return ""


def expansion_is_deferred(P, rep, key, consequence):
    """A macro call assembles what its body would assemble *at that point*.  Where the line loop only records the call and the body is
    read later (pass 0, after the whole text has been parsed), everything that is decided while reading lines - conditionals on
    definitions, .equ/.define, messages, includes - happens for the body after it has happened for every line of the file."""
    loop = "parser::parse_iter"
    expand = "builder::pass0::macro_expand"
    if loop not in P.body or expand not in P.body:
        rep.unprovable(key, "parse_iter / macro_expand not found")
        return
    in_line_loop = expand in P.reachable([loop])
    later = expand in P.reachable(["builder::pass0::build_pass_0"])
    reparse = loop in P.reachable([expand])
    deferred = (not in_line_loop) and later and reparse
    rep.ob(key, not deferred, "macro bodies are read where the call stands" if not deferred else
           "the line loop only records a macro call; its body is read in pass 0, after the whole file has been parsed, through the same line loop and against the final tables: %s" % consequence)


def seed_of_expansion(P):
    """the Segment value macro_expand starts the body in: {'address': constant or None, 'type_from_last': bool}"""
    key = "builder::pass0::macro_expand"
    b = P.body.get(key)
    if b is None:
        return None
    fn = [f["name"] for f in P.lib.adts["parser::Segment"]["variants"][0]["fields"]]
    fa, ft = fn.index("address"), fn.index("t")
    ch = MU.Chaser(b)
    seeds = []
    for bl in b["blocks"]:
        for st in bl["stmts"]:
            if st["k"] == "assign" and st["rv"]["k"] == "agg" and st["rv"]["kind"].get("path") == "parser::Segment":
                seeds.append(st["rv"]["ops"])
    if len(seeds) != 1:
        return None
    ops = seeds[0]
    addr = ops[fa]["const"].get("int") if "const" in ops[fa] else None
    locs, consts, calls, places = MU.backward_slice(b, [ops[ft]])
    from_last = any(MU.callee_names(c)[1].endswith("Pass0Context::last_segment") for c in calls)
    return {"address": addr, "type_from_last": from_last}


def printers_rule(P, rep):
    """the operand printers keep the grouping of what they print (the text is parsed again)"""
    # ---- 2. printers
    printers = {}
    for imp in P.lib.impls:
        if imp["trait"] == "std::fmt::Display" and not imp["derived"]:
            ty = P.lib.types[imp["self"]]["s"]
            for name, path in imp["methods"]:
                if name == "fmt" and path in P.body:
                    printers[ty] = path
    reach = P.reachable([printers.get("instruction::InstructionOps", "")]) if "instruction::InstructionOps" in printers else set()
    rep.count("Display impls reachable from the operand printer", len([p for p in printers.values() if p in reach]))
    for ty in ("expr::BinaryExpr", "expr::UnaryExpr"):
        key = printers.get(ty)
        if key is None or key not in reach:
            rep.unprovable("C09.print|%s" % ty, "printer of %s not found among the Display impls reachable from InstructionOps" % ty)
            continue
        b = P.body[key]
        sites, helpers = write_sites(P, key)
        # a switch on the discriminant of an expression value (not of a `?` result) = precedence-aware printing
        aware = False
        for bl in b["blocks"]:
            for st in bl["stmts"]:
                if st["k"] == "assign" and st["rv"]["k"] == "discr":
                    tys = P.tys(key, b["locals"][st["rv"]["place"]["local"]]["ty"])
                    if not re.search(r"ControlFlow<|^std::result::Result<", tys):
                        aware = True
        if any(sx_ is None for sx_ in [s_[1] for s_ in sites]):
            rep.unprovable("C09.print|%s" % ty, "a format template of the %s printer is not readable" % ty)
            continue
        idom = G.dominators(b)
        allbb = [s_[0] for s_ in sites] + [h[0] for h in helpers]
        first = [s_ for s_ in sites if "(" in s_[1] and all(G.dominates(idom, s_[0], x) for x in allbb)]
        last = [s_ for s_ in sites if ")" in s_[2] and all(G.dominates(idom, x, s_[0]) for x in allbb)]
        shown = " ".join(s_[3] for s_ in sites) + ("".join(" + %s()" % h[1].split("::")[-1] for h in helpers))
        if aware:
            rep.ob("C09.print|%s" % ty, True, "printer of %s branches on the shape of an operand (precedence-aware): its parentheses are not judged" % ty, nontrivial=False)
        else:
            ok = bool(first) and bool(last)
            rep.ob("C09.print|%s" % ty, ok,
                   "%s is printed inside parentheses (%s): its grouping survives textual substitution and re-parsing" % (ty.split("::")[-1], shown) if ok else
                   "%s is printed as %s without enclosing parentheses and without looking at operator precedence: `m 1+2` with body `@0*2` re-parses as 1+2*2" % (ty.split("::")[-1], shown),
                   loc=loc_of(b["span"]), detail={"writes": shown})
        # flattening: a nested expression of the same type printed by a helper instead of its own Display loses its parentheses; that is
        # harmless only for the left operand (all binary operators group to the left)
        if ty == "expr::BinaryExpr":
            fl = flatten_sites(P, key, ty)
            bad = [x for x in fl if x[1] != "left"]
            # the text is parsed again under the nesting limit of the line parser: a chain a+b+c+... must not arrive one level deeper
            # per term, or a macro argument that is fine when written directly is refused (left operands of the same operator go
            # without parentheses of their own)
            leftflat = any(x[1] == "left" for x in fl)
            rep.ob("C09.print|%s|chain" % ty, leftflat,
                   "a chain of one operator is re-rendered flat on its left side: its nesting does not grow with its length" if leftflat else
                   "every binary expression is re-rendered inside parentheses of its own, so a chain of n operators reaches the parser nested n deep: beyond the parser's nesting limit (64) a macro argument like 1+2+...+70 is refused although the same expression written directly assembles")
            rep.ob("C09.print|%s|nested" % ty, not bad,
                   "nested binary expressions are printed through their own Display (with their parentheses)%s" % (" or flattened on the left side only" if fl else "") if not bad else
                   "%s prints a nested binary expression taken from the %s operand without its parentheses: `m 10-(3-1)` re-parses as 10-3-1" % (bad[0][0].split("::")[-1], "right" if bad[0][1] == "right" else "left or right"),
                   detail={"sites": fl})
    # Func / IndexOps / Expr printers emit the grammar's concrete syntax
    want = {"expr::Expr": {"{}({})", "{}"}, "instruction::IndexOps": {"{}", "{}+", "-{}", "{}+{}"}, "instruction::InstructionOps": {"{}"}}
    for ty, shapes in want.items():
        key = printers.get(ty)
        if key is None:
            rep.unprovable("C09.print|%s" % ty, "printer of %s not found" % ty)
            continue
        got = set()
        for tpl, bb in fmt_templates(P, key):
            if tpl is None:
                got.add("<unreadable>")
            else:
                got.add("".join(x[1] if x[0] == 'lit' else "{}" for x in tpl))
        rep.ob("C09.print|%s" % ty, got == shapes, "%s prints the grammar's own syntax %s" % (ty.split("::")[-1], sorted(got)) if got == shapes else
               "%s prints %s, the grammar expects %s" % (ty.split("::")[-1], sorted(got), sorted(shapes)))


def run(tier):
    rep = Reporter("C09", tier, "other", "lower-case typestate on macro-table keys; syntactic re-parse-safety of the operand printers (format templates read from MIR); def-use of the splice loop; path rules on macro_expand")
    rep.explanation = ("Macro expansion re-renders each parsed argument to text and re-parses the body, so it can only be faithful if (1) definition "
                       "and call agree on the name's case, (2) the printers of compound expressions keep their grouping, (3) every segment the "
                       "expansion produced is spliced exactly once, (4) an unknown macro is an error. Each is a necessary structural condition, "
                       "decided on MIR. Not decided: equality of expansion and hand-expansion in general, nested conditionals in bodies (C08), "
                       "recursion depth (C16).")
    rep.trusted = ["rustc nightly MIR", "E4 (analysis/norm.py)", "decoding of rustc's format_args template bytes"]
    P = G.Program(F.load("dev"))
    N = norm.Norm(P)
    # ---- 1. macro-table keys
    sites = rules_C10.map_sites(P, "parser::Macro", ("macroses",))
    # the call-time lookup goes through the `macroses` parameter of macro_expand (a plain &HashMap): add HashMap::get sites there
    extra = []
    for k in ("builder::pass0::macro_expand",):
        if k in P.body:
            for bb, t, name, tg in P.call_sites(k):
                if rules_C10.MAP_METHODS.match(MU.callee_names(t)[1]):
                    extra.append((k, bb, t, "macroses", MU.callee_names(t)[1].rsplit("::", 1)[-1]))
    allsites = sites + [e for e in extra if (e[0], e[1]) not in {(s[0], s[1]) for s in sites}]
    rep.count("macro-table access sites", len(allsites))
    kinds = set()
    for k, bb, t, fname, meth in allsites:
        ok, why = N.operand(k, t["args"][1])
        kinds.add(meth)
        rep.ob("C09.case|%s|%s" % (k, meth), ok,
               "macro table %s in %s: the name is lower-cased (%s)" % (meth, k.split("::")[-1], why) if ok else
               "macro table %s in %s: the name is not provably lower-cased — %s; a macro defined as `Foo` cannot be called (calls are lower-cased)" % (meth, k.split("::")[-1], why),
               loc=loc_of(P.body[k]["blocks"][bb]["tspan"]), detail={"reason": why})
    rep.ob("C09.case|sites", {"insert", "get"} <= kinds, "both the definition (insert) and the call (get) side of the macro table were found", kind="unprovable", nontrivial=False)
    printers_rule(P, rep)
    # ---- 3a. headers of the spliced segments
    splice_headers(P, rep, "C09.splice")
    # ---- 3. splice loop
    key = "builder::pass0::pass0_internal"
    b = P.body.get(key)
    if b is None:
        rep.unprovable("C09.splice|anchor", "pass0_internal not found")
    else:
        idom = G.dominators(b)
        loops = {}
        pr = G.preds(b)
        for src, head in G.back_edges(b):
            nodes = {head, src}
            stack = [src]
            while stack:
                x = stack.pop()
                if x == head:
                    continue
                for q in pr.get(x, []):
                    if q not in nodes:
                        nodes.add(q)
                        stack.append(q)
            loops.setdefault(head, set()).update(nodes)
        rec = [(bb, t) for bb, t, n, tg in P.call_sites(key) if key in tg]
        rep.count("recursive splice calls", len(rec))
        nloopcalls = 0
        for bb, t in rec:
            # innermost loop containing this call whose header's iterator yields Segment elements
            inner = None
            for head, nodes in loops.items():
                if bb in nodes and (inner is None or len(nodes) < len(loops[inner])):
                    inner = head
            if inner is None:
                continue
            # element of that loop: dest of the Iterator::next call in the header region
            nxt = None
            own = set(loops[inner])
            for h2, n2 in loops.items():
                if h2 != inner and n2 < loops[inner]:
                    own -= n2
            for x in own:
                tt = b["blocks"][x]["term"]
                if tt["k"] == "call" and MU.callee_names(tt)[1].endswith("::next"):
                    g = tt["callee"].get("generics") or []
                    ts = " ".join(P.tys(key, gi) for gi in g) + " " + MU.callee_names(tt)[0]
                    if "Segment" in ts:
                        nxt = tt
            if nxt is None:
                continue       # the outer item loop: the segment is the function's own parameter there
            nloopcalls += 1
            locs, consts, calls, places = MU.backward_slice(b, t["args"][:1])
            dep = nxt["dest"]["local"] in locs
            idx0 = [c for c in calls if "Index" in MU.callee_names(c)[1]]
            rep.ob("C09.splice|loop-element", dep,
                   "inside the loop over the expanded segments the spliced segment is the loop's own element" if dep else
                   "inside the loop over the expanded segments the recursive splice is given a value that does not depend on the loop element%s: every further segment re-splices the same one" % (
                       " (a constant index into the vector)" if idx0 else ""), loc=loc_of(b["blocks"][bb]["tspan"]))
        rep.ob("C09.splice|found", nloopcalls >= 1,
               "the further code segments of an expansion are run through pass 0 again inside the loop over them (%d recursive call(s)): macro calls in them are expanded too" % nloopcalls if nloopcalls >= 1 else
               "the code segments after the first one of a macro expansion are not run through pass 0 again (no recursive call inside the loop over them): a macro call written after a segment switch or `.org` in a macro body is never expanded")
    # ---- 4. undefined macro -> Err ; @n keys
    key = "builder::pass0::macro_expand"
    if key in P.body:
        M = absint.Machine(P, max_depth=3, opaque={"parser::parse_iter"}, loop_limit=2)
        M.iter_budget = 1
        paths = M.explore(key, M.arg_unknowns(key))
        # the discriminant of the table lookup itself (not of something computed from what was found)
        lookup = re.compile(r"^[\w:<>, ]*::get\(macroses\*[^()]*\)#d$")
        none = [p for p in paths if any(isinstance(s, tuple) and s[0] == 's' and lookup.match(s[1]) and sx.dom_size(d) == 1 and sx.dom_min(d) == 0 for s, d in p.state.doms.items())]
        ok = bool(none) and all(p.exit == "Err" for p in none)
        rep.ob("C09.undefined", ok, "calling a macro that is not in the table is an error" if ok else "an undefined macro call does not fail (%s)" % [p.exit for p in none][:3])
        placeholder(P, rep, key)
        body_text_verbatim(P, rep)
        # parse errors of the re-parsed body propagate
        prop = [p for p in paths if p.exit == "Err" and any(e[0] == 'propagate' and "parse_iter" in e[1] for e in p.events)]
        rep.ob("C09.body-errors", bool(prop), "an error while re-parsing the substituted body (e.g. a left-over @n) fails the build" if prop else
               "errors of the re-parsed body are not propagated")
    else:
        rep.unprovable("C09.undefined", "macro_expand not found")
    expansion_is_deferred(P, rep, "C09.timing|body-read-after-parse", "a body sees `.define`/`.equ` lines that stand behind the call (`.ifdef FLAG` in a body called before `#define FLAG` takes the defined arm), and a body cannot use a `.equ` that the same body defines for the lines after the call only at parse time (`m` defining BASE, `.org BASE` after the call fails)")
    return rep
