"""C09 — a macro call behaves as its body with the call's arguments substituted  (four necessary clauses only).

Round-trip equality of arbitrary bodies is behavioural; claimed are the structural conditions without which it cannot hold:
(N) name matching is case-insensitive on both sides (E4): the key inserted into `macroses` at definition and the key used at call time
    are both provably lower-cased;
(N) argument re-rendering is re-parse-safe: macro_expand substitutes Display text of parsed operands; a printer of a construct whose
    children can bind looser than the construct (BinaryExpr, UnaryExpr) must emit literal parentheses around itself or branch on
    child/operator discriminants (precedence-aware: then the rule is silent); Func/IndexOps printers emit the grammar's own syntax;
(N) every expanded segment is spliced once: inside the loop over the segments returned by macro_expand, the segment handed to the
    recursive splice must depend on the loop element;
(P) undefined macro -> Err; `@n` keys are "@" + the operand index."""
import re

import absint
import facts as F
import graph as G
import mirutil as MU
import norm
import rules_C10
import sx
from common import Reporter, loc_of


def decode_template(b):
    """rustc's compact format_args! template -> [('lit', text) | ('arg',)]  or None"""
    out = []
    i = 0
    b = bytes(b)
    while i < len(b):
        n = b[i]
        if n == 0:
            return out
        if n < 0x80:
            if i + 1 + n > len(b):
                return None
            out.append(('lit', b[i + 1:i + 1 + n].decode("utf-8", "replace")))
            i += 1 + n
        else:
            out.append(('arg',))
            i += 1
    return out


def fmt_templates(P, key):
    """templates (decoded) passed to fmt::Arguments::new in a body, with the Argument constructors' generic types"""
    b = P.body[key]
    res = []
    for bb, t, name, tg in P.call_sites(key):
        full, rp = MU.callee_names(t)
        if rp.startswith("std::fmt::Arguments::<'a>::new"):
            locs, consts, calls, places = MU.backward_slice(b, t["args"][:1])
            tpl = [c["bytes"] for c in consts if "bytes" in c]
            strs = [c["str"] for c in consts if "str" in c]
            res.append((decode_template(tpl[0]) if tpl else ([('lit', strs[0])] if strs else None), bb))
    return res


def run(tier):
    rep = Reporter("C09", tier, "other", "lower-case typestate on macro-table keys; syntactic re-parse-safety of the operand printers (format templates read from MIR); def-use of the splice loop; path rules on macro_expand")
    rep.explanation = ("Macro expansion re-renders each parsed argument to text and re-parses the body, so it can only be faithful if (1) definition "
                       "and call agree on the name's case, (2) the printers of compound expressions keep their grouping, (3) every segment the "
                       "expansion produced is spliced exactly once, (4) an unknown macro is an error. Each is a necessary structural condition, "
                       "decided on MIR. Not decided: equality of expansion and hand-expansion in general, nested conditionals in bodies (C08), "
                       "recursion depth (C16).")
    rep.trusted = ["rustc nightly MIR", "E4 (analysis/norm.py)", "decoding of rustc's format_args template bytes"]
    P = G.Program(F.load("dev"))
    N = norm.Norm(P)
    # ---- 1. macro-table keys
    sites = rules_C10.map_sites(P, "parser::Macro", ("macroses",))
    # the call-time lookup goes through the `macroses` parameter of macro_expand (a plain &HashMap): add HashMap::get sites there
    extra = []
    for k in ("builder::pass0::macro_expand",):
        if k in P.body:
            for bb, t, name, tg in P.call_sites(k):
                if rules_C10.MAP_METHODS.match(MU.callee_names(t)[1]):
                    extra.append((k, bb, t, "macroses", MU.callee_names(t)[1].rsplit("::", 1)[-1]))
    allsites = sites + [e for e in extra if (e[0], e[1]) not in {(s[0], s[1]) for s in sites}]
    rep.count("macro-table access sites", len(allsites))
    kinds = set()
    for k, bb, t, fname, meth in allsites:
        ok, why = N.operand(k, t["args"][1])
        kinds.add(meth)
        rep.ob("C09.case|%s|%s" % (k, meth), ok,
               "macro table %s in %s: the name is lower-cased (%s)" % (meth, k.split("::")[-1], why) if ok else
               "macro table %s in %s: the name is not provably lower-cased — %s; a macro defined as `Foo` cannot be called (calls are lower-cased)" % (meth, k.split("::")[-1], why),
               loc=loc_of(P.body[k]["blocks"][bb]["tspan"]), detail={"reason": why})
    rep.ob("C09.case|sites", {"insert", "get"} <= kinds, "both the definition (insert) and the call (get) side of the macro table were found", kind="unprovable", nontrivial=False)
    # ---- 2. printers
    printers = {}
    for imp in P.lib.impls:
        if imp["trait"] == "std::fmt::Display" and not imp["derived"]:
            ty = P.lib.types[imp["self"]]["s"]
            for name, path in imp["methods"]:
                if name == "fmt" and path in P.body:
                    printers[ty] = path
    reach = P.reachable([printers.get("instruction::InstructionOps", "")]) if "instruction::InstructionOps" in printers else set()
    rep.count("Display impls reachable from the operand printer", len([p for p in printers.values() if p in reach]))
    for ty in ("expr::BinaryExpr", "expr::UnaryExpr"):
        key = printers.get(ty)
        if key is None or key not in reach:
            rep.unprovable("C09.print|%s" % ty, "printer of %s not found among the Display impls reachable from InstructionOps" % ty)
            continue
        b = P.body[key]
        tpls = fmt_templates(P, key)
        switches = [bl for bl in b["blocks"] if bl["term"]["k"] == "switch" and not bl["cleanup"]]
        # a switch on a discriminant read = precedence-aware printing: silent by design
        aware = False
        for bl in b["blocks"]:
            for st in bl["stmts"]:
                if st["k"] == "assign" and st["rv"]["k"] == "discr":
                    aware = True
        if aware:
            rep.ob("C09.print|%s" % ty, True, "printer of %s branches on a discriminant (precedence-aware): not judged" % ty, nontrivial=False)
            continue
        if len(tpls) != 1 or tpls[0][0] is None:
            rep.unprovable("C09.print|%s" % ty, "format template of the %s printer not readable" % ty)
            continue
        tpl = tpls[0][0]
        first_arg = next((i for i, x in enumerate(tpl) if x[0] == 'arg'), None)
        last_arg = max((i for i, x in enumerate(tpl) if x[0] == 'arg'), default=None)
        before = "".join(x[1] for x in tpl[:first_arg] if x[0] == 'lit') if first_arg is not None else ""
        after = "".join(x[1] for x in tpl[last_arg + 1:] if x[0] == 'lit') if last_arg is not None else ""
        ok = "(" in before and ")" in after
        shown = "".join(x[1] if x[0] == 'lit' else "{}" for x in tpl)
        rep.ob("C09.print|%s" % ty, ok,
               "%s is printed as \"%s\": its grouping survives textual substitution and re-parsing" % (ty.split("::")[-1], shown) if ok else
               "%s is printed as \"%s\" without parentheses and without looking at operator precedence: `m 1+2` with body `@0*2` re-parses as 1+2*2" % (ty.split("::")[-1], shown),
               loc=loc_of(b["span"]), detail={"template": shown})
    # Func / IndexOps / Expr printers emit the grammar's concrete syntax
    want = {"expr::Expr": {"{}({})", "{}"}, "instruction::IndexOps": {"{}", "{}+", "-{}", "{}+{}"}, "instruction::InstructionOps": {"{}"}}
    for ty, shapes in want.items():
        key = printers.get(ty)
        if key is None:
            rep.unprovable("C09.print|%s" % ty, "printer of %s not found" % ty)
            continue
        got = set()
        for tpl, bb in fmt_templates(P, key):
            if tpl is None:
                got.add("<unreadable>")
            else:
                got.add("".join(x[1] if x[0] == 'lit' else "{}" for x in tpl))
        rep.ob("C09.print|%s" % ty, got == shapes, "%s prints the grammar's own syntax %s" % (ty.split("::")[-1], sorted(got)) if got == shapes else
               "%s prints %s, the grammar expects %s" % (ty.split("::")[-1], sorted(got), sorted(shapes)))
    # ---- 3. splice loop
    key = "builder::pass0::pass0_internal"
    b = P.body.get(key)
    if b is None:
        rep.unprovable("C09.splice|anchor", "pass0_internal not found")
    else:
        idom = G.dominators(b)
        loops = {}
        pr = G.preds(b)
        for src, head in G.back_edges(b):
            nodes = {head, src}
            stack = [src]
            while stack:
                x = stack.pop()
                if x == head:
                    continue
                for q in pr.get(x, []):
                    if q not in nodes:
                        nodes.add(q)
                        stack.append(q)
            loops.setdefault(head, set()).update(nodes)
        rec = [(bb, t) for bb, t, n, tg in P.call_sites(key) if key in tg]
        rep.count("recursive splice calls", len(rec))
        nloopcalls = 0
        for bb, t in rec:
            # innermost loop containing this call whose header's iterator yields Segment elements
            inner = None
            for head, nodes in loops.items():
                if bb in nodes and (inner is None or len(nodes) < len(loops[inner])):
                    inner = head
            if inner is None:
                continue
            # element of that loop: dest of the Iterator::next call in the header region
            nxt = None
            own = set(loops[inner])
            for h2, n2 in loops.items():
                if h2 != inner and n2 < loops[inner]:
                    own -= n2
            for x in own:
                tt = b["blocks"][x]["term"]
                if tt["k"] == "call" and MU.callee_names(tt)[1].endswith("::next"):
                    g = tt["callee"].get("generics") or []
                    ts = " ".join(P.tys(key, gi) for gi in g) + " " + MU.callee_names(tt)[0]
                    if "Segment" in ts:
                        nxt = tt
            if nxt is None:
                continue       # the outer item loop: the segment is the function's own parameter there
            nloopcalls += 1
            locs, consts, calls, places = MU.backward_slice(b, t["args"][:1])
            dep = nxt["dest"]["local"] in locs
            idx0 = [c for c in calls if "Index" in MU.callee_names(c)[1]]
            rep.ob("C09.splice|loop-element", dep,
                   "inside the loop over the expanded segments the spliced segment is the loop's own element" if dep else
                   "inside the loop over the expanded segments the recursive splice is given a value that does not depend on the loop element%s: every further segment re-splices the same one" % (
                       " (a constant index into the vector)" if idx0 else ""), loc=loc_of(b["blocks"][bb]["tspan"]))
        rep.ob("C09.splice|found", nloopcalls >= 1, "splice loop over the expanded segments found (%d recursive call(s) inside it)" % nloopcalls, kind="unprovable", nontrivial=False)
    # ---- 4. undefined macro -> Err ; @n keys
    key = "builder::pass0::macro_expand"
    if key in P.body:
        M = absint.Machine(P, max_depth=3, opaque={"parser::parse_iter"}, loop_limit=2)
        M.iter_budget = 1
        paths = M.explore(key, M.arg_unknowns(key))
        none = [p for p in paths if any(isinstance(s, tuple) and s[0] == 's' and "::get(macroses*" in s[1] and s[1].endswith("#d") and sx.dom_size(d) == 1 and sx.dom_min(d) == 0 for s, d in p.state.doms.items())]
        ok = bool(none) and all(p.exit == "Err" for p in none)
        rep.ob("C09.undefined", ok, "calling a macro that is not in the table is an error" if ok else "an undefined macro call does not fail (%s)" % [p.exit for p in none][:3])
        tpls = fmt_templates(P, key)
        keys = ["".join(x[1] if x[0] == 'lit' else "{}" for x in tpl) for tpl, bb in tpls if tpl]
        okk = "@{}" in keys
        b = P.body[key]
        enum = any(MU.callee_names(t)[1].endswith("Iterator::enumerate") for _, t, _, _ in P.call_sites(key))
        rep.ob("C09.placeholder", okk and enum, "`@n` is replaced by the text of operand n (format \"@{}\" of the enumerate index)" if okk and enum else
               "placeholder keys are not \"@\" + operand index (templates %s, enumerate %s)" % (keys, enum))
        # parse errors of the re-parsed body propagate
        prop = [p for p in paths if p.exit == "Err" and any(e[0] == 'propagate' and "parse_iter" in e[1] for e in p.events)]
        rep.ob("C09.body-errors", bool(prop), "an error while re-parsing the substituted body (e.g. a left-over @n) fails the build" if prop else
               "errors of the re-parsed body are not propagated")
    else:
        rep.unprovable("C09.undefined", "macro_expand not found")
    return rep
