"""C12, the .device clause: an unknown device is an error, a second selection is an error, and what is stored is the table's row."""
import re

import absint
import sx


def device_directive(P, rep):
    import rules_C08 as C8
    fn = "directive::Directive::parse"
    if fn not in P.body:
        rep.unprovable("C12.device|anchor", "Directive::parse not found")
        return
    dv = C8.dvariants(P)
    inv = {n: d for d, n in dv.items()}
    if "Device" not in inv:
        rep.unprovable("C12.device|anchor", "Directive::Device not found")
        return
    M = absint.Machine(P, max_depth=4, opaque={"expr::Expr::run", "parser::parse_file_internal"})
    paths = M.explore(fn, M.arg_unknowns(fn), doms={sx.S("self*#d", 64, True): sx.dom_set([inv["Device"]])})
    rep.count("paths of the .device arm", len(paths))
    if M.capped or M.unsupported or any(p.exit not in ("Ok", "Err") for p in paths):
        rep.unprovable("C12.device|explore", "exploration of the .device arm incomplete: %s %s" % (M.unsupported[:2], sorted({p.exit for p in paths})))
        return
    oks = [p for p in paths if p.exit == "Ok"]
    errs = [p for p in paths if p.exit == "Err"]

    def facts(p):
        lookup = None          # True: found in the table, False: not found
        stored_differs = False
        stored_none = False
        for e, t in p.conds:
            sh = sx.show(e)
            m = re.match(r"^\((.*)#d == (\d+)\)$", sh)
            if m and "HashMap::<K, V, S, A>::get(static device::DEVICES" in m.group(1) and ":Some" not in m.group(1).split("get(", 1)[1].rsplit(")", 1)[-1]:
                found = (m.group(2) == "1") == t
                lookup = found
            if m and m.group(1).endswith("common_context.device.rc.cell"):
                is_none = (m.group(2) == "0") == t
                stored_none = stored_none or is_none
            if ".device.rc.cell:Some.0." in sh:
                # comparisons of the stored device with the defaults: `field == const` that is false, or a set comparison that is false
                eqform = re.search(r" == 0x[0-9a-f]+\)$| == \d+\)$", sh) is not None
                if "PartialEq>::eq(" in sh or "PartialEq>::ne(" in sh:
                    # value of the eq call compared with 0/1
                    m2 = re.search(r"\)(?:@\d+)? == (\d)\)$", sh)
                    val = t if m2 is None else ((m2.group(1) == "1") == t)
                    if "PartialEq>::ne(" in sh:
                        val = not val
                    if not val:
                        stored_differs = True
                elif eqform and not t:
                    stored_differs = True
        return lookup, stored_none, stored_differs

    bad_ok = []
    replaced_ok = True
    for p in oks:
        lookup, stored_none, differs = facts(p)
        reps = [e for e in p.events if e[0] == 'call' and e[1] == "std::cell::RefCell::<T>::replace" and "common_context.device" in str(e[2][0])]
        if lookup is not True:
            bad_ok.append("the directive succeeds although the name was not found in the device table")
        if differs:
            bad_ok.append("the directive succeeds although a device other than the default is already selected")
        if len(reps) != 1:
            replaced_ok = False
            bad_ok.append("a successful .device does not store exactly one device (%d stores)" % len(reps))
        else:
            val = str(reps[0][2][1])
            if not (val.startswith("Option::Some(") and "get(static device::DEVICES" in val and ":Some.0" in val):
                replaced_ok = False
                bad_ok.append("the stored device is %s, not the row found in the table" % val[:80])
    unknown_err = any(facts(p)[0] is False for p in errs)
    second_err = sum(1 for p in errs if facts(p)[2])
    rep.ob("C12.device|unknown", unknown_err and not any("not found" in x for x in bad_ok),
           "a name that is not in the device table fails the build" if unknown_err and not any("not found" in x for x in bad_ok) else
           "an unknown device name does not fail the build")
    okk = second_err >= 1 and not any("already selected" in x for x in bad_ok)
    rep.ob("C12.device|second", okk, "a second .device (the stored device differs from the defaults in any field: %d error paths) fails the build" % second_err if okk else
           ([x for x in bad_ok if "already selected" in x] or ["no error path for a device that is already selected"])[0])
    okr = bool(oks) and replaced_ok
    rep.ob("C12.device|stored-row", okr, "a successful .device stores a copy of the table row that was looked up, once" if okr else
           ([x for x in bad_ok if "store" in x] or ["no successful path"])[0])
    # the name that is looked up is the directive's operand
    okn = bool(oks) and all(any(e[0] == 'call' and e[1].endswith("HashMap::<K, V, S, A>::get") and "opts*" in str(e[2][1]) for e in p.events) for p in oks)
    rep.ob("C12.device|operand", okn, "the name looked up is the directive's operand" if okn else "the device name looked up is not taken from the directive's operand")
    # exactly one name: a successful path knows that the operand list has one element (a second name is not dropped silently)
    lens = []
    for p in oks:
        ds = [d for s, d in p.state.doms.items() if isinstance(s, tuple) and s[0] == 's' and s[1].startswith("opts*") and s[1].endswith("#len")]
        lens.append(ds[0] if len(ds) == 1 else None)
    ok1 = bool(oks) and all(d is not None and sx.dom_min(d) == 1 and sx.dom_max(d) == 1 for d in lens)
    rep.ob("C12.device|one-name", ok1, "a successful .device has exactly one operand" if ok1 else
           "a .device with more than one operand succeeds: the first name is selected and the others are ignored (operand count on success paths: %s)" % (
               [sx.dom_show(d) if d is not None else "not inspected" for d in lens]))
