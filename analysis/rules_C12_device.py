def device_directive(P, rep):
    pass
