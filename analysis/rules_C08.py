"""C08 — conditional assembly assembles exactly the selected branch.

The implementation is a two-table protocol; both tables are *extracted from MIR on every run* with E1:
  PARSE  Directive::parse: (directive, outcome of its condition) -> next-item mode          (conditions stay symbolic)
  SCAN   parser::skip:      (mode, class of the scanned line, nesting counter == 0 ?) -> continue / counter±1 / stop and resume at
         this line / stop and resume at the next line                                       (counter symbolic: loop-carried state havocked)
  DISPATCH parse_iter: how the resumed line is dispatched and the mode reset.
The extracted machine is composed with the reference semantics of C08 (first true arm, else when none; unselected lines inert) as a
product automaton over line classes and explored exhaustively by breadth-first search over product states for nesting depth <= 4
(model checking; no repository code runs — the machine *is* the extracted table).  A reachable product state where the two disagree on
"is this plain line assembled", or where the implementation evaluates a condition the reference does not evaluate, is a violation keyed by
the shortest skeleton.  Plus (N) skipped lines are inert: the scan loop reaches no effectful callee."""
import re
from collections import deque

import absint
import facts as F
import graph as G
import mirutil as MU
import sx
from common import Reporter

DEPTH = 4
OPENERS = ("If", "IfDef", "IfNDef")


def dvariants(P):
    return {int(v["discr"]): v["name"] for v in P.lib.adts["directive::Directive"]["variants"]}


def modes(P):
    return {int(v["discr"]): v["name"] for v in P.lib.adts["parser::NextItem"]["variants"]}


def find_dom(st, pred):
    for s, d in st.doms.items():
        if isinstance(s, tuple) and s[0] == 's' and pred(s[1]):
            return s, d
    return None, None


# ------------------------------------------------------------------------------------------------ SCAN
def scan_table(P, rep):
    """-> {mode: [(line class set, czero: True|False|None, action)]}  action = ('cont', dc) | ('this',) | ('next',) | ('none',)"""
    fn = "parser::skip"
    # the generated parser is opaque: what counts is which of its entry points is asked about the line, and what is done with the answer
    parser_entries = {k for k in P.body if re.match(r"^document::document::\w+$", k) and not k.split("::")[-1].startswith("__")}
    M = absint.Machine(P, max_depth=5, opaque=parser_entries, loop_limit=1)
    M.havoc_loops = True
    paths = M.explore(fn, M.arg_unknowns(fn))
    if M.capped or M.unsupported:
        rep.unprovable("C08.scan|explore", "exploration of skip incomplete: %s" % M.unsupported[:2])
    dv = dvariants(P)
    mv = modes(P)
    docv = {int(v["discr"]): v["name"] for v in P.lib.adts["document::Document"]["variants"]}
    b = P.body[fn]
    # loop-carried integer locals (the nesting counter, flags): whatever the loop-havoc step replaced by symbols
    Mtmp = absint.Machine(P)
    cl = sorted({l for locs in Mtmp.loop_info(fn).values() for l in locs})
    table = {}
    effects = []
    untrusted = set()
    import rules_C16
    guard_names = {g_.split("::")[-1] for g_ in rules_C16.nesting_guards(P)}
    # only locals whose loop-entry value is actually read (appears in a path condition) are loop-carried state
    read = set()
    for p in paths:
        for e, t in p.conds:
            for sy in sx.syms(e):
                if sy[1].endswith("@loop"):
                    read.add(sy[1][:-5])
    cl = [i for i in cl if b["locals"][i]["name"] in read]
    classifiers = set()
    for p in paths:
        st = p.state
        _, md = find_dom(st, lambda n: n == "ni#d")
        if md is None:
            rep.unprovable("C08.scan|mode", "a path of skip does not constrain the mode")
            continue
        path_modes = [mv[x] for x in sx.dom_iter(sx.dom_norm(md))]
        mode = path_modes[0]
        # line class: said by the *classifier*, the parser entry whose answer's directive is looked at (or, on a path that found no
        # directive, the entry that was asked first)
        _, nd = find_dom(st, lambda n: re.match(r"^next\(.*\)@\d+#d$", n) is not None)
        xs, xd = find_dom(st, lambda n: n.endswith(":DirectiveLine.1#d"))
        asked = []
        for e, t in p.conds:
            m = re.match(r"^\((\w+)\(next\(.*?\)@\d+#d == [01]\)$", sx.show(e))
            if m and m.group(1) not in asked and "document::document::" + m.group(1) in parser_entries:
                asked.append(m.group(1))
        classifier = re.match(r"^(\w+)\(", xs[1]).group(1) if xs is not None else (asked[0] if asked else None)
        if classifier:
            classifiers.add(classifier)
        _, ld = find_dom(st, lambda n: classifier is not None and re.match(r"^%s\(.*\)@\d+#d$" % classifier, n) is not None)
        _, dd = find_dom(st, lambda n: classifier is not None and n.startswith(classifier + "(") and n.endswith(":Ok.0#d"))
        if nd is not None and sx.dom_size(nd) == 1 and sx.dom_min(nd) == 0:
            cls = {"<eof>"}
        elif ld is not None and sx.dom_size(ld) == 1 and sx.dom_min(ld) == 1:
            cls = {"<unparsable>"}
        elif dd is not None and not (sx.dom_size(dd) == 1 and docv.get(sx.dom_min(dd)) == "DirectiveLine"):
            cls = {"<plain>"}
        elif xd is not None:
            cls = {dv[x] for x in sx.dom_iter(sx.dom_norm(xd))}
        elif nd is None:
            cls = {"<no-scan>"}
        else:
            cls = {"<plain>"}
        # whether the line is well formed, when that is asked besides its class: the full line parser's verdict (and the nesting guard in
        # front of it, whose refusal makes the line unparsable everywhere).  A decision taken on the text of the line by anything else says
        # nothing about the line: such a path may be taken by a line of any class
        wf = None
        for e, t in p.conds:
            sh = sx.show(e)
            if ":Some.0.1" not in sh:
                continue
            m = re.match(r"^\(+([\w:<> ]+?)\(", sh)
            head = m.group(1).split("::")[-1] if m else "?"
            if head == classifier:
                continue
            if head == "line":
                # (line(..)#d == 0) true: Ok
                isok = t if sh.endswith("#d == 0)") else ((not t) if sh.endswith("#d == 1)") else None)
                if isok is None:
                    cls = {"<any>"}
                    untrusted.add(sh[:120])
                elif wf is not False:
                    wf = isok
                continue
            if head in guard_names:
                refused = t if sh.endswith("== 0)") else (not t)
                if refused:
                    if classifier == "line" or classifier is None:
                        cls = {"<unparsable>"}
                    wf = False
                continue
            cls = {"<any>"}
            untrusted.add(sh[:120])
        # counter condition
        czero = None
        csym = None
        for e, t in p.conds:
            sh = sx.show(e)
            m = re.match(r"^\((\w+)@loop (==|!=|>) 0\)$", sh)
            if m:
                # the nesting counter is or is not zero, whichever way the test is written
                czero = t if m.group(2) == "==" else (not t)
        # action
        if p.exit == "loop":
            dc = 0
            for i in cl:
                v = st.cells.get(('L', 'f0', i))
                if v is not None:
                    e = M.as_int(st, v)
                    if e is not None:
                        sh = sx.show(e)
                        m = re.match(r"^\((\w+)@loop ([+-]) (\d+)\)$", sh)
                        if m:
                            dc = int(m.group(3)) * (1 if m.group(2) == "+" else -1)
                        elif not re.match(r"^\w+@loop$", sh) and sh != "0":
                            rep.unprovable("C08.scan|counter", "nesting counter updated to %s" % sh)
            act = ('cont', dc)
        elif p.exit == "ret":
            rv = p.ret
            flag = False
            unterminated = False
            if rv[0] == 'agg' and rv[1] is None and len(rv[3]) in (2, 3):
                comps = [M.as_int(st, x) for x in rv[3][1:]]
                if any(fe is None or not sx.is_const(fe) for fe in comps):
                    rep.unprovable("C08.scan|flag", "a flag component of skip's result is not constant on a path")
                    continue
                flag = bool(sx.cval(comps[0]))
                unterminated = len(comps) > 1 and bool(sx.cval(comps[1]))
                rv = rv[3][0]
            d = M.describe(st, rv)
            if d.startswith("Option::Some("):
                act = ('this', flag)
            elif d == "Option::None":
                act = ('none', flag, unterminated)
            elif re.match(r"^next\(.*\)@\d+$", d):
                act = ('next', flag)
            else:
                rep.unprovable("C08.scan|return", "skip returns %s" % d)
                continue
        else:
            rep.unprovable("C08.scan|exit", "a path of skip ends with %s" % p.exit)
            continue
        for m_ in path_modes:
            table.setdefault(m_, []).append((cls, czero, act, wf))
        # inertness: events of effectful calls on scan paths (other than next/line/clone of the macro name)
        for ev in p.events:
            if ev[0] == 'call' and any(m_ in ("EndIf", "EndChain") for m_ in path_modes) and "EndMacro" not in path_modes:
                nm = ev[1]
                if not (nm.endswith("Iterator::next") or nm in parser_entries or "Drop" in nm or "drop" in nm):
                    effects.append(nm)
    rep.ob("C08.scan|text-predicate", not untrusted, "while skipping, a line's role is decided only by the line parser's result (and the nesting guard in front of it)" if not untrusted else
           "while skipping, skip() branches on the text of the line with %s — a test that is not the line parser: a line of any class (an `.endif` with a label, a `#else`) may take that branch" % sorted(untrusted)[0],
           detail=sorted(untrusted))
    scan_table.classifiers = sorted(classifiers)
    return table, sorted(set(effects)), len(paths)


def scan_step(table, mode, cls, c, wf=True):
    """action of the extracted scanner for one line (wf: whether the whole line is well formed)"""
    hits = []
    for classes, czero, act, need_wf in table.get(mode, []):
        if cls in classes or (cls != "<eof>" and "<any>" in classes) or (cls not in KNOWN and "<other>" in classes):
            if (czero is None or czero == (c == 0)) and (need_wf is None or need_wf == wf):
                hits.append(act)
    return hits


KNOWN = {"If", "IfDef", "IfNDef", "ElIf", "Else", "Endif", "<plain>", "<unparsable>", "<eof>"}


# ------------------------------------------------------------------------------------------------ PARSE
def parse_table(P, rep):
    return parse_table_for(P, rep, ["If", "ElIf", "IfDef", "IfNDef", "Else", "Endif"])


def parse_table_for(P, rep, want):
    """-> {(directive, cond True/False/None): (mode | 'Err', evaluates_condition)}"""
    parse_table_for.definedness = set()
    fn = "directive::Directive::parse"
    dv = dvariants(P)
    mv = modes(P)
    inv = {n: d for d, n in dv.items()}
    M = absint.Machine(P, max_depth=4, opaque={"expr::Expr::run", "parser::parse_file_internal", "context::Context::exist"})
    body = P.body[fn]
    args = M.arg_unknowns(fn)
    doms = {sx.S("self*#d", 64, True): sx.dom_set(inv[w] for w in want)}
    paths = M.explore(fn, args, doms=doms)
    if M.capped or M.unsupported:
        rep.unprovable("C08.parse|explore", "exploration of Directive::parse incomplete: %s" % M.unsupported[:2])
    table = {}
    for p in paths:
        st = p.state
        _, sd = find_dom(st, lambda n: n == "self*#d")
        if sd is None or sx.dom_size(sd) != 1:
            continue
        d = dv[sx.dom_min(sd)]
        # condition outcome: run(..):Ok.0 == 0  or contains_key
        cond = None
        evaluated = False
        for e, t in p.conds:
            sh = sx.show(e)
            if re.match(r"^\(run\(.*\):Ok\.0 == 0\)$", sh):
                cond = not t
                evaluated = True
        for s, dd in st.doms.items():
            # whether the name is defined: asked of the flag table alone (contains_key) or of every kind of name (exist)
            if isinstance(s, tuple) and s[0] == 's' and (s[1].startswith("contains_key(") or re.match(r"^exist\(.*\)(@\d+)?$", s[1])) and sx.dom_size(dd) == 1 \
                    and d in ("IfDef", "IfNDef"):
                defined = bool(sx.dom_min(dd))
                cond = defined if d == "IfDef" else (not defined)
                evaluated = True
                parse_table_for.definedness.add("flags only" if s[1].startswith("contains_key(") else "every kind of name")
            if isinstance(s, tuple) and s[0] == 's' and s[1].startswith("run(") and s[1].endswith("#d"):
                evaluated = True
        if p.exit == "Ok":
            r = p.ret[3][0]
            if r[0] == 'agg':
                mode = mv.get(int(P.lib.adts["parser::NextItem"]["variants"][r[2]]["discr"]))
            else:
                rep.unprovable("C08.parse|mode|%s" % d, "returned mode of %s not constant" % d)
                continue
            # well-formed operand list only: values[0] exists and has the right kind; other paths are error handling (C15/C16)
            table.setdefault((d, cond), set()).add((mode, evaluated))
        elif p.exit == "Err":
            pass
    return table, len(paths)


# ------------------------------------------------------------------------------------------------ DISPATCH
def dispatch_facts(P, rep):
    """one iteration of parse_iter with skip / line / Directive::parse opaque.
    -> facts + table {(directive or '<other>', flag or None): 'parse' | mode name}"""
    fn = "parser::parse_iter"
    M = absint.Machine(P, max_depth=4, opaque={"parser::skip", "document::document::line", "directive::Directive::parse"}, loop_limit=1)
    paths = M.explore(fn, M.arg_unknowns(fn))
    mv = modes(P)
    dv = dvariants(P)
    b = P.body[fn]
    nl = [i for i, l in enumerate(b["locals"]) if l["name"] == "next_item"]
    facts = {"reset": True, "skip_first": True, "none_ends": False, "problems": []}
    table = {}
    for p in paths:
        calls = [e for e in p.events if e[0] == 'call']
        if calls and calls[0][1] != "parser::skip":
            facts["skip_first"] = False
        if p.exit == "Ok":
            facts["none_ends"] = True
        if p.exit != "loop" or not nl:
            continue
        st = p.state
        v = st.cells.get(('L', 'f0', nl[0]))
        d = M.describe(st, v) if v else None
        parsed = [c for c in calls if c[1] == "directive::Directive::parse"]
        _, xd = find_dom(st, lambda n: n.endswith(":DirectiveLine.1#d"))
        # flag: a boolean symbol derived from skip's result
        flag = None
        for sy, dd in st.doms.items():
            if isinstance(sy, tuple) and sy[0] == 's' and sy[1].startswith("skip(") and sy[1].endswith(".1") and sx.dom_size(dd) == 1:
                flag = bool(sx.dom_min(dd))
        docv = {int(v_["discr"]): v_["name"] for v_ in P.lib.adts["document::Document"]["variants"]}
        _, dd = find_dom(st, lambda n: n.startswith("line(") and n.endswith(":Ok.0#d"))
        is_dir = dd is not None and sx.dom_size(dd) == 1 and docv.get(sx.dom_min(dd)) == "DirectiveLine"
        if not is_dir:
            # not a directive line: the mode must be back to NewLine
            if d != "NextItem::NewLine":
                facts["reset"] = False
            continue
        classes = [dv[x] for x in sx.dom_iter(sx.dom_norm(xd))] if xd is not None else list(dv.values())
        if parsed:
            if not (d and ":Ok.0" in d and "parse(" in d):
                facts["problems"].append("result of Directive::parse is not what becomes the next mode (%s)" % d)
            act = 'parse'
        else:
            m = re.match(r"^NextItem::(\w+)$", d or "")
            if not m:
                facts["problems"].append("next mode after a directive line is %s" % d)
                continue
            act = m.group(1)
        for c in classes:
            table.setdefault((c if c in KNOWN else "<other>", flag), set()).add(act)
    return facts, table, len(paths)


# ------------------------------------------------------------------------------------------------ product exploration
MALFORMED = {"IfX": ("If", ".if @0 == 1"), "EndifX": ("Endif", ".endif ]"), "ElseX": ("Else", ".else )"), "ElIfX": ("ElIf", ".elif (3")}


def malformed_classes(P):
    """How the scanner's classifier sees a conditional directive whose operands are not well formed (`.if @0 == 1` in the body of a macro
    definition, `.endif ]`): as that directive if the classifier's grammar rule matches such a line, as unparsable text otherwise."""
    import grammar
    import peg
    g, _ = grammar.load_checked(P)
    out = {}
    for letter, (d, sample) in MALFORMED.items():
        seen = set()
        for c in getattr(scan_table, "classifiers", []) or ["line"]:
            tr = peg.full_match(g, c, sample, lambda rule, act, caps: True) if c in g.rules else None
            seen.add(d if tr is not None else "<unparsable>")
        out[letter] = seen.pop() if len(seen) == 1 else "<unparsable>"
    return out


def explore_product(scan, parse, dispatch, depth=DEPTH, malformed=None):
    """BFS over product states.  Alphabet: P, ('I', c), ('E', c), L, N, X (unparsable text)  with c in {True, False}.
    Reference state: tuple of frames (parent_active, taken, seen_else); active = top.parent_active and current arm selected.
    Implementation state: ('asm',) | ('skip', mode, counter)."""
    def ref_active(stack, cur):
        return cur

    start = ((), True, ('asm',))     # (ref stack, ref active flag, impl)
    seen = {start: None}
    q = deque([start])
    violations = []
    nstates = 0
    ntrans = 0

    def parse_mode(d, c):
        ents = parse.get((d, c)) or parse.get((d, None))
        if not ents or len(ents) != 1:
            return None, None
        (mode, ev), = ents
        return mode, ev

    while q:
        state = q.popleft()
        nstates += 1
        stack, active, impl = state
        letters = [("P", None), ("X", None)]
        if len(stack) < depth:
            for kind in OPENERS:
                letters += [(kind, True), (kind, False)]
            letters += [("IfX", None)]
        if stack:
            top = stack[-1]
            if not top[2]:
                letters += [("ElIf", True), ("ElIf", False), ("Else", None)]
            letters += [("Endif", None), ("EndifX", None), ("ElseX", None), ("ElIfX", None)]
        for letter, c in letters:
            ntrans += 1
            # ---- reference
            rstack, ractive = stack, active
            ref_eval = False
            ref_emit = None
            if letter in ("P", "X"):
                ref_emit = active
            elif letter in OPENERS:
                ref_eval = active
                rstack = stack + ((active, bool(c) if active else False, False),)
                ractive = active and bool(c)
            elif letter == "ElIf":
                pa, taken, se = stack[-1]
                ref_eval = pa and not taken
                sel = pa and not taken and bool(c)
                rstack = stack[:-1] + ((pa, taken or sel, se),)
                ractive = sel
            elif letter == "Else":
                pa, taken, se = stack[-1]
                ractive = pa and not taken
                rstack = stack[:-1] + ((pa, True, True),)
            elif letter == "Endif":
                pa, taken, se = stack[-1]
                rstack = stack[:-1]
                ractive = pa
            elif letter == "IfX":
                # an .if whose operands are not well formed: at fault where it is assembled, one more (dead) level where it is not
                ref_emit = active
                rstack = stack + ((False, False, False),)
                ractive = False
            elif letter == "EndifX":
                # an .endif with something behind it: at fault when its chain belongs to assembled text, else it closes a dead level
                pa, taken, se = stack[-1]
                ref_emit = pa
                rstack = stack[:-1]
                ractive = pa
            elif letter in ("ElseX", "ElIfX"):
                # a malformed .else / .elif: at fault when its chain belongs to assembled text (whatever arm was taken), else nothing
                pa, taken, se = stack[-1]
                ref_emit = pa
                rstack = stack
                ractive = False
            # a condition the reference does not evaluate is "don't care" for it, but both outcomes are tried on the implementation
            # ---- implementation (extracted tables)
            impl2 = impl
            impl_emit = False
            impl_eval = False
            problem = None
            cls = {"P": "<plain>", "X": "<unparsable>"}.get(letter, letter)
            wf = letter not in ("X",) + tuple(MALFORMED)
            if letter in MALFORMED:
                cls = (malformed or {}).get(letter, "<unparsable>")
            steps = 0
            pending = True
            # flag delivered with a line fetched in normal (NewLine) mode
            nl_acts = {a for c_, z_, a, w_ in scan.get("NewLine", [])}
            flag = list(nl_acts)[0][1] if len(nl_acts) == 1 else False
            while pending and steps < 3:
                steps += 1
                pending = False
                if impl2[0] == 'asm':
                    if letter == "P":
                        impl_emit = True
                    elif letter in ("X",) + tuple(MALFORMED):
                        impl_emit = True        # unparsable text in an assembled region is an error = it has an effect
                    else:
                        acts_d = dispatch.get((letter, flag)) or dispatch.get((letter, None))
                        if not acts_d or len(acts_d) != 1:
                            problem = "no unique DISPATCH entry for (%s, resumed=%s): %s" % (letter, flag, acts_d)
                            break
                        (dact,) = acts_d
                        if dact == 'parse':
                            mode, ev = parse_mode(letter, c)
                            if mode is None:
                                problem = "no unique PARSE entry for (%s, %s)" % (letter, c)
                                break
                            impl_eval = impl_eval or bool(ev)
                        else:
                            mode = dact
                        impl2 = ('asm',) if mode == "NewLine" else ('skip', mode, 0)
                else:
                    _, mode, cnt = impl2
                    acts = scan_step(scan, mode, cls, cnt, wf)
                    if len(set(acts)) != 1:
                        problem = "SCAN[%s] has %d entries for line class %s (counter %d)" % (mode, len(set(acts)), cls, cnt)
                        break
                    act = acts[0]
                    if act[0] == 'cont':
                        impl2 = ('skip', mode, cnt + act[1])
                        if cnt + act[1] < 0:
                            problem = "nesting counter becomes negative"
                            break
                    elif act[0] == 'next':
                        impl2 = ('asm',)
                    elif act[0] == 'this':
                        impl2 = ('asm',)
                        flag = act[1]
                        pending = True          # the same line is dispatched again in assembling mode
                    elif act[0] == 'none':
                        impl2 = ('eof',)
            new = (rstack, ractive, impl2)
            word = path_to(seen, state) + [fmt(letter, c)]
            if problem:
                violations.append(("table", problem, word))
                continue
            if letter in ("P", "X") + tuple(MALFORMED) and impl_emit != ref_emit:
                violations.append(("select", "line %d (%s) is %s by the implementation but %s by the reference" % (
                    len(word), {"P": "plain", "X": "unparsable text", "IfX": "an .if with malformed operands", "EndifX": "a malformed .endif",
                                "ElseX": "a malformed .else", "ElIfX": "a malformed .elif"}[letter],
                    "assembled" if impl_emit else "skipped", "selected" if ref_emit else "not selected"), word))
                continue
            if letter in MALFORMED and ref_emit:
                continue        # the build has failed on this line: nothing follows
            if impl_eval and not ref_eval:
                violations.append(("eval", "the condition on line %d is evaluated although its arm cannot be selected (an undefined symbol there would fail the build)" % len(word), word))
            if ref_eval and not impl_eval and letter in OPENERS + ("ElIf",):
                violations.append(("eval", "the condition on line %d is not evaluated by the implementation" % len(word), word))
                continue
            if new not in seen and len(word) <= 3 * depth + 6:
                seen[new] = (state, fmt(letter, c))
                q.append(new)
    return violations, nstates, ntrans


def fmt(letter, c):
    if c is None:
        return {"P": "P", "X": "X", "Else": "else", "Endif": "endif", "IfX": "if?", "EndifX": "endif?", "ElseX": "else?", "ElIfX": "elif?"}.get(letter, letter.lower())
    return "%s%s" % (letter.lower(), "+" if c else "-")


def path_to(seen, state):
    out = []
    while seen.get(state) is not None:
        state, l = seen[state]
        out.append(l)
    return list(reversed(out))


def define_value(P, rep):
    """Conditions on `.define` names see the value that was given: a path that stores a definition knows whether a second operand
    exists - without one a constant is stored, with one (and nothing more) that operand is."""
    fn = "directive::Directive::parse"
    dv = dvariants(P)
    inv = {n: d for d, n in dv.items()}
    if "Define" not in inv:
        return
    M = absint.Machine(P, max_depth=4, opaque={"expr::Expr::run", "parser::parse_file_internal"})
    paths = M.explore(fn, M.arg_unknowns(fn), doms={sx.S("self*#d", 64, True): sx.dom_set([inv["Define"]])})
    why = []
    nstore = 0
    for p in paths:
        if p.exit != "Ok":
            continue
        ins = [e for e in p.events if e[0] == 'call' and e[1].endswith("::insert") and "defines" in str(e[2][0])]
        if not ins:
            continue
        nstore += 1
        value = str(ins[0][2][2])
        second = None      # True: a second operand exists, False: it does not
        exact = False
        for e, t in p.conds:
            sh = sx.show(e)
            m = re.match(r"^\(slice::<impl \[T\]>::get\(opts\*:OpList\.0, 1\)(@\d+)?#d == ([01])\)$", sh)
            if m:
                second = (m.group(2) == "1") == t
            m = re.match(r"^\(opts\*:OpList\.0#len == (\d+)\)$", sh)
            if m and t:
                second = int(m.group(1)) >= 2
                exact = exact or int(m.group(1)) == 2
        if second is None:
            why.append("a definition is stored without looking for a value behind the name (stored: %s): `#define FOO 5` makes FOO stand for that constant, `#if FOO` takes the wrong arm" % value[:30])
        elif second and not (exact and "get(opts*:OpList.0, 1)" in value):
            why.append("with a value behind the name the stored value is %s" % value[:40])
        elif not second and not value.startswith("Expr::Const("):
            why.append("without a value the stored value is %s" % value[:40])
    if not nstore:
        why.append("no path stores a definition")
    rep.ob("C08.define|value", not why, "`.define NAME value` stores the value, `.define NAME` a constant; more operands are refused" if not why else why[0])


def run(tier):
    rep = Reporter("C08", tier, "model_checking", "protocol tables extracted from MIR by abstract interpretation (Directive::parse, skip with havocked nesting counter, parse_iter), composed with the reference semantics as a product automaton and explored exhaustively (BFS) to nesting depth %d" % DEPTH)
    rep.explanation = ("Decides the extracted (mode, line class, counter) protocol against 'first true arm, else when none, unselected lines inert' "
                       "for every well-formed conditional skeleton up to nesting depth %d, any number of arms and any truth assignment "
                       "(the product state space is finite and fully explored). Relies on the extraction being exact: every path of the three "
                       "functions must be classified, else the obligation is unprovable." % DEPTH)
    rep.trusted = ["rustc nightly MIR", "E1 (loop-carried state havocked at loop headers)", "the reference semantics written from C08's statement"]
    rep.assumptions = ["malformed nesting (elif/else/endif without opener, elif after else) is outside C08", "conditions are side-effect free"]
    P = G.Program(F.load("dev"))
    scan, effects, nscan = scan_table(P, rep)
    parse, nparse = parse_table(P, rep)
    disp, dispatch, ndisp = dispatch_facts(P, rep)
    rep.count("paths of skip", nscan)
    rep.count("paths of Directive::parse (conditional directives)", nparse)
    rep.count("paths of parse_iter", ndisp)
    rep.extra["scan_table"] = {m: [[sorted(c) if len(c) < 8 else "%d directives" % len(c), z, list(a), w] for c, z, a, w in v] for m, v in scan.items()}
    rep.extra["parse_table"] = {"%s|%s" % k: sorted(map(list, v)) for k, v in parse.items()}
    # extraction sanity
    rep.ob("C08.extract|scan", "EndIf" in scan and len(scan["EndIf"]) >= 8, "SCAN table extracted for the skipping mode (%d entries)" % len(scan.get("EndIf", [])), kind="unprovable")
    need = [("If", True), ("If", False), ("ElIf", True), ("ElIf", False), ("IfDef", True), ("IfDef", False), ("IfNDef", True), ("IfNDef", False), ("Else", None), ("Endif", None)]
    miss = [k for k in need if k not in parse or len(parse[k]) != 1]
    rep.ob("C08.extract|parse", not miss, "PARSE table has one entry for each (directive, outcome)" if not miss else "PARSE table incomplete/ambiguous for %s: %s" % (miss, {k: parse.get(k) for k in miss}), kind="unprovable")
    okd = disp["reset"] and not disp["problems"] and disp["skip_first"] and disp["none_ends"] and bool(dispatch)
    rep.extra["dispatch_table"] = {"%s|%s" % k: sorted(v) for k, v in dispatch.items()}
    rep.ob("C08.extract|dispatch", okd, "parse_iter: skip(mode) first, mode reset to NewLine, a directive's result becomes the next mode, end of input ends the file" if okd else
           "parse_iter dispatch differs from the expected protocol: %s" % disp, kind="unprovable")
    # inertness of skipped lines: nothing effectful is reachable from the scanner (resolved call graph)
    DENY = re.compile(r"^directive::Directive::parse$|::push_to_last$|::add_segment$|^parser::parse_file_internal$|^parser::parse(_iter)?$|::set_(define|equ|label|def|special)$|"
                      r"^failure::err_msg$|^std::rt::begin_panic|^core::panicking::")
    bad_callees = set()
    for k in P.reachable(["parser::skip"]):
        if k.startswith("document::document::"):
            continue        # the generated line parser (pure)
        for bb, t, name, tg in P.call_sites(k):
            full, rp = MU.callee_names(t)
            for cand in [rp] + list(tg):
                if DENY.search(cand):
                    bad_callees.add(cand)
    # pushes to the message list
    for k in P.reachable(["parser::skip"]):
        if k.startswith("document::document::"):
            continue
        b_ = P.body[k]
        for bb, t, name, tg in P.call_sites(k):
            if MU.callee_names(t)[1] == "std::vec::Vec::<T, A>::push":
                ch_ = MU.Chaser(b_)
                root, proj, trail = ch_.root(t["args"][0])
                if any("messages" in str(e_) for e_ in proj) or "String" in P.tys(k, (t["callee"].get("rgenerics") or t["callee"].get("generics") or [0])[0]) and "CodePoint" not in P.tys(k, (t["callee"].get("rgenerics") or t["callee"].get("generics") or [0])[0]):
                    bad_callees.add("Vec<String>::push (message list?) in %s" % k)
    rep.ob("C08.inert", not bad_callees, "nothing effectful is reachable from the scanner (no directive handling, item push, symbol setter, message, error or panic): skipped text — even unparsable text — has no effect" if not bad_callees else
           "while skipping, the scanner can reach %s" % sorted(bad_callees))
    define_value(P, rep)
    kinds = getattr(parse_table_for, "definedness", set())
    rep.ob("C08.ifdef|every-kind", kinds == {"every kind of name"},
           ".ifdef / .ifndef ask whether the name is defined as anything (flag, constant, variable, label, alias)" if kinds == {"every kind of name"} else
           ".ifdef / .ifndef look at %s: `.equ F_CPU = 16000000 / .ifndef F_CPU / ...` takes the arm that must be skipped, `.ifdef SPH` with the shipped m8def.inc drops the stack set-up it guards" % (sorted(kinds) or "nothing recognisable"))
    import rules_C09
    rules_C09.expansion_is_deferred(P, rep, "C08.macro-body|decided-late", "a conditional in a macro body is decided against the definitions of the whole file, one at top level against those in front of it: `.ifdef FOO` in a body called before `.define FOO` holds, and a `.define DONE` made by a body is not seen by a `.ifdef DONE` behind the call")
    if miss or "EndIf" not in scan:
        return rep
    malformed = malformed_classes(P)
    rep.extra["malformed_directive_classes"] = malformed
    violations, nstates, ntrans = explore_product(scan, parse, dispatch, malformed=malformed)
    rep.extra["states"] = nstates
    rep.extra["transitions"] = ntrans
    rep.extra["traces_validated_against_impl"] = 0
    rep.count("product states explored", nstates)
    rep.count("product transitions", ntrans)
    # key each distinct defect by its shortest skeleton
    violations.sort(key=lambda v: (len(v[2]), v[2]))
    seen_kinds = {}
    groups = set()
    for kind, text, word in violations:
        # one report per (kind of disagreement, shape of the last two lines): the shortest skeleton showing it
        g = (kind, tuple(word[-2:]))
        if g in groups:
            continue
        groups.add(g)
        seen_kinds[tuple(word)] = (kind, text)
        if len(seen_kinds) >= 8:
            break
    for word, (kind, text) in seen_kinds.items():
        rep.ob("C08.sel|%s" % ";".join(word), False, "skeleton `%s`: %s" % (" / ".join(word), text), detail={"skeleton": list(word)})
    rep.ob("C08.product", not violations, "implementation and reference agree on every reachable product state (%d states, %d transitions, depth <= %d)" % (nstates, ntrans, DEPTH) if not violations else
           "%d disagreeing transitions (shortest skeletons reported above)" % len(violations), nontrivial=True,
           sample={"states": nstates, "transitions": ntrans, "alphabet": ["P", "X", "if±", "ifdef±", "ifndef±", "elif±", "else", "endif", "if?", "endif?", "else?", "elif?"]})
    rep.samples.append({"example skeleton": ["if-", "P", "elif+", "P", "else", "P", "endif"], "meaning": "one product run; all runs up to the depth bound are covered by BFS"})
    return rep
