"""E0 plumbing: run the rustc_private driver over /repo (current working tree) and load the facts.

Facts are cached under /verif/.cache/facts/<sha256 of every build-relevant file of /repo + driver + profile>.
Any edit to the tree gives a new key, so every check analyses the tree as it is now while a batch of
checks pays for one compiler run.
"""
import fcntl
import hashlib
import json
import os
import shutil
import subprocess
import sys
import time

VERIF = os.path.dirname(os.path.dirname(os.path.abspath(__file__)))
REPO = os.environ.get("AVRA_REPO", "/repo")
CACHE = os.path.join(VERIF, ".cache")
DRIVER_DIR = os.path.join(VERIF, "driver")
DRIVER = os.path.join(DRIVER_DIR, "target", "release", "avra-facts")

BUILD_INPUTS = ["src", "includes", "Cargo.toml", "Cargo.lock", "build.rs", "rust-toolchain.toml"]


def _files(repo):
    out = []
    for ent in BUILD_INPUTS:
        p = os.path.join(repo, ent)
        if os.path.isdir(p):
            for root, dirs, files in os.walk(p):
                dirs.sort()
                for f in sorted(files):
                    out.append(os.path.join(root, f))
        elif os.path.exists(p):
            out.append(p)
    return out


def tree_hash(repo=None):
    repo = repo or REPO
    h = hashlib.sha256()
    for f in _files(repo):
        h.update(os.path.relpath(f, repo).encode())
        h.update(b"\0")
        with open(f, "rb") as fh:
            h.update(hashlib.sha256(fh.read()).digest())
    return h.hexdigest()


def _sysroot():
    return subprocess.check_output(["rustc", "+nightly", "--print", "sysroot"], text=True).strip()


def ensure_driver():
    src = os.path.join(DRIVER_DIR, "src", "main.rs")
    if os.path.exists(DRIVER) and os.path.getmtime(DRIVER) >= os.path.getmtime(src):
        return
    env = dict(os.environ, CARGO_NET_OFFLINE="true")
    r = subprocess.run(["cargo", "+nightly", "build", "--release", "--offline"], cwd=DRIVER_DIR, env=env,
                       stdout=subprocess.PIPE, stderr=subprocess.STDOUT, text=True)
    if r.returncode != 0 or not os.path.exists(DRIVER):
        sys.stderr.write(r.stdout)
        raise SystemExit("checker error: cannot build the fact-extraction driver")


def _driver_id():
    with open(os.path.join(DRIVER_DIR, "src", "main.rs"), "rb") as fh:
        return hashlib.sha256(fh.read()).hexdigest()[:16]


PROFILES = {
    # dev: overflow checks on -> every possible arithmetic overflow is an explicit Assert terminator
    "dev": "-Zmir-opt-level=0 -Awarnings",
    # release-like arithmetic: overflow checks and debug assertions off (wraps silently)
    "rel": "-Zmir-opt-level=0 -Awarnings -C overflow-checks=off -C debug-assertions=off",
}


def facts_dir(profile="dev", repo=None):
    """Run the driver if needed; return the directory holding avra_lib.json / avra_rs.json."""
    repo = repo or REPO
    ensure_driver()
    key = hashlib.sha256((tree_hash(repo) + _driver_id() + profile).encode()).hexdigest()[:24]
    root = os.path.join(CACHE, "facts")
    os.makedirs(root, exist_ok=True)
    out = os.path.join(root, key)
    done = os.path.join(out, "DONE")
    if os.path.exists(done):
        try:
            os.utime(out, None)            # in use: keeps it among the recent ones for the eviction below
        except OSError:
            pass
        return out
    lock = open(os.path.join(CACHE, "facts.lock"), "w")
    fcntl.flock(lock, fcntl.LOCK_EX)
    try:
        if os.path.exists(done):
            return out
        if os.path.exists(out):
            shutil.rmtree(out)
        os.makedirs(out)
        target = os.path.join(CACHE, "target-" + profile)
        fp = os.path.join(target, "debug", ".fingerprint")
        if os.path.isdir(fp):
            for d in os.listdir(fp):
                if d.startswith("avra-rs-"):
                    shutil.rmtree(os.path.join(fp, d), ignore_errors=True)
        env = dict(os.environ)
        env.update({
            "LD_LIBRARY_PATH": _sysroot() + "/lib",
            "RUSTFLAGS": PROFILES[profile],
            "RUSTC_WORKSPACE_WRAPPER": DRIVER,
            "AVRA_FACTS_DIR": out,
            "CARGO_TARGET_DIR": target,
            "CARGO_NET_OFFLINE": "true",
        })
        env.pop("RUSTC_WRAPPER", None)
        t0 = time.time()
        r = subprocess.run(["cargo", "+nightly", "check", "--offline"], cwd=repo, env=env,
                           stdout=subprocess.PIPE, stderr=subprocess.STDOUT, text=True)
        if r.returncode != 0:
            sys.stderr.write(r.stdout[-6000:])
            shutil.rmtree(out, ignore_errors=True)
            raise SystemExit("checker error: /repo does not compile under the fact driver (no verdict)")
        for c in ("avra_lib.json", "avra_rs.json"):
            if not os.path.exists(os.path.join(out, c)):
                shutil.rmtree(out, ignore_errors=True)
                raise SystemExit("checker error: fact file %s was not written (cargo skipped the wrapper?)" % c)
        with open(done, "w") as fh:
            fh.write("%.1f\n" % (time.time() - t0))
        # keep the cache small: drop fact dirs beyond the 24 most recently used ones, but never one used in the last half hour
        # (parallel self-test runs each work in a fact dir of their own)
        ents = sorted((os.path.getmtime(os.path.join(root, e)), e) for e in os.listdir(root))
        now = time.time()
        for mt, e in ents[:-24]:
            if now - mt > 1800:
                shutil.rmtree(os.path.join(root, e), ignore_errors=True)
        return out
    finally:
        fcntl.flock(lock, fcntl.LOCK_UN)
        lock.close()


class Crate:
    def __init__(self, path):
        with open(path) as fh:
            d = json.load(fh)
        self.name = d["crate"]
        self.types = d["types"]
        self.adts = d["adts"]
        self.bodies = d["bodies"]
        self.impls = d["impls"]
        self.statics = d["statics"]
        self.overflow_checks = d["overflow_checks"]
        self.rustc = d["rustc"]

    def ty(self, ix):
        return self.types[ix]

    def tys(self, ix):
        return self.types[ix]["s"]


class Facts:
    def __init__(self, profile="dev", repo=None):
        self.repo = repo or REPO
        self.profile = profile
        self.dir = facts_dir(profile, repo)
        self.lib = Crate(os.path.join(self.dir, "avra_lib.json"))
        self.bin = Crate(os.path.join(self.dir, "avra_rs.json"))
        self.crates = [self.lib, self.bin]

    def tree(self):
        return tree_hash(self.repo)


_loaded = {}


def load(profile="dev", repo=None):
    # the thorough tier re-runs the rules on the release-like MIR (no overflow checks): AVRA_PROFILE=rel
    if profile == "dev" and os.environ.get("AVRA_PROFILE") in PROFILES:
        profile = os.environ["AVRA_PROFILE"]
    k = (profile, repo or REPO)
    if k not in _loaded:
        _loaded[k] = Facts(profile, repo)
    return _loaded[k]


# ---------------------------------------------------------------- pretty printer (for replay files / debugging)
def pp_place(p):
    s = "_%d" % p["local"]
    for e in p["proj"]:
        k = e["k"]
        if k == "deref":
            s = "(*%s)" % s
        elif k == "field":
            s = "%s.%d" % (s, e["i"])
        elif k == "downcast":
            s = "(%s as %s)" % (s, e["name"])
        elif k == "index":
            s = "%s[_%d]" % (s, e["local"])
        elif k == "cindex":
            s = "%s[%s%d]" % (s, "-" if e["from_end"] else "", e["offset"])
        else:
            s = "%s.<%s>" % (s, e.get("text", k))
    return s


def pp_const(c, cr=None):
    for k in ("int", "str", "bytes", "fn", "promoted", "static", "opaque"):
        if k in c:
            v = c[k]
            if k == "bytes":
                v = bytes(v)
            t = cr.tys(c["ty"]) if cr else ""
            return "const %s%r%s" % (k[0] + ":" if k != "int" else "", v, (": " + t) if t and k == "int" else "")
    return "const ?"


def pp_op(o, cr=None):
    if "copy" in o:
        return pp_place(o["copy"])
    if "move" in o:
        return "move " + pp_place(o["move"])
    if "const" in o:
        return pp_const(o["const"], cr)
    return str(o)


def pp_rv(rv, cr=None):
    k = rv["k"]
    if k == "use":
        return pp_op(rv["op"], cr)
    if k == "ref":
        return "&%s%s" % ("mut " if rv["mut"] else "", pp_place(rv["place"]))
    if k == "addr":
        return "&raw " + pp_place(rv["place"])
    if k == "cast":
        return "%s as %s (%s)" % (pp_op(rv["op"], cr), cr.tys(rv["ty"]) if cr else rv["ty"], rv["kind"])
    if k == "bin":
        return "%s(%s, %s)" % (rv["op"], pp_op(rv["l"], cr), pp_op(rv["r"], cr))
    if k == "un":
        return "%s(%s)" % (rv["op"], pp_op(rv["o"], cr))
    if k == "discr":
        return "discriminant(%s)" % pp_place(rv["place"])
    if k == "agg":
        kd = rv["kind"]
        name = kd.get("path", kd["k"])
        if kd["k"] == "adt":
            name = "%s::%s" % (kd["path"], kd["vname"])
        return "%s{%s}" % (name, ", ".join(pp_op(o, cr) for o in rv["ops"]))
    if k == "repeat":
        return "[%s; %s]" % (pp_op(rv["op"], cr), rv["n"])
    return rv.get("text", k)


def pp_span(s):
    return "%s:%d:%d%s" % (s["f"], s["l"], s["c"], ("!" + s["mac"]) if s["exp"] else "")


def pp_body(cr, key, out=sys.stdout):
    b = cr.bodies[key]
    out.write("fn %s  [%s, %d args]  %s\n" % (key, b["kind"], b["arg_count"], pp_span(b["span"])))
    for i, l in enumerate(b["locals"]):
        out.write("    let _%d: %s;%s\n" % (i, cr.tys(l["ty"]), ("  // " + l["name"]) if l["name"] else ""))
    for i, bl in enumerate(b["blocks"]):
        out.write("  bb%d%s:\n" % (i, " (cleanup)" if bl["cleanup"] else ""))
        for st in bl["stmts"]:
            if st["k"] == "assign":
                out.write("      %s = %s;   // %s\n" % (pp_place(st["place"]), pp_rv(st["rv"], cr), pp_span(st["span"])))
            else:
                out.write("      %s\n" % json.dumps(st))
        t = bl["term"]
        k = t["k"]
        if k == "call":
            c = t["callee"]
            name = c.get("rfull") or c.get("full") or "<indirect>"
            out.write("      %s = %s(%s) -> bb%s unwind %s;  [%s]  // %s\n" % (
                pp_place(t["dest"]), name, ", ".join(pp_op(a, cr) for a in t["args"]), t["target"], t["unwind"],
                c.get("rkind"), pp_span(bl["tspan"])))
        elif k == "switch":
            out.write("      switchInt(%s) -> [%s, otherwise: bb%d];  // %s\n" % (
                pp_op(t["discr"], cr), ", ".join("%s: bb%d" % (v, tb) for v, tb in t["targets"]), t["otherwise"],
                pp_span(bl["tspan"])))
        elif k == "assert":
            out.write("      assert(%s%s, %s) -> bb%d;  // %s\n" % (
                "" if t["expected"] else "!", pp_op(t["cond"], cr), t["msg"], t["target"], pp_span(bl["tspan"])))
        elif k == "drop":
            out.write("      drop(%s) -> bb%d unwind %s;\n" % (pp_place(t["place"]), t["target"], t["unwind"]))
        elif k == "goto":
            out.write("      goto -> bb%d;\n" % t["target"])
        else:
            out.write("      %s;\n" % (t.get("text") or k))


if __name__ == "__main__":
    f = load(sys.argv[2] if len(sys.argv) > 2 else "dev")
    want = sys.argv[1] if len(sys.argv) > 1 else None
    for cr in f.crates:
        for k in cr.bodies:
            if want is None:
                print(cr.name, k, len(cr.bodies[k]["blocks"]))
            elif want == k or (want.endswith("*") and k.startswith(want[:-1])):
                pp_body(cr, k)
