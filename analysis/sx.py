"""Symbolic integer expressions for E1: hash-consed tuples, constant folding, evaluation, bit provenance,
value-set domains and linear forms.  No solver: every decision is taken by evaluation over explicit finite
domains, interval reasoning on `sym cmp const`, or structural bit tracking."""

MASK = lambda bits: (1 << bits) - 1


def wrap(v, bits, signed):
    v &= (1 << bits) - 1
    if signed and v >> (bits - 1):
        v -= 1 << bits
    return v


# node shapes
#  ('c', value, bits, signed)
#  ('s', name, bits, signed)
#  ('bin', op, a, b, bits, signed)          op in Add Sub Mul Div Rem BitAnd BitOr BitXor Shl Shr
#  ('ovf', op, a, b, bits, signed)          overflow flag of checked Add/Sub/Mul (bool)
#  ('un', op, a, bits, signed)              op in Not Neg
#  ('cast', a, bits, signed)                int-to-int cast from a's type
#  ('cmp', op, a, b)                        op in Eq Ne Lt Le Gt Ge  -> bool (bits 1, unsigned)
#  ('fn', name, (args...), bits, signed)    uninterpreted pure function (summaries: reverse_bits, ...)


def C(v, bits=64, signed=True):
    return ('c', wrap(int(v), bits, signed), bits, signed)


def S(name, bits=64, signed=True):
    return ('s', name, bits, signed)


def ty_of(e):
    k = e[0]
    if k == 'c' or k == 's':
        return e[2], e[3]
    if k == 'bin' or k == 'ovf':
        return (e[4], e[5]) if k == 'bin' else (1, False)
    if k == 'un':
        return e[3], e[4]
    if k == 'cast':
        return e[2], e[3]
    if k == 'cmp':
        return 1, False
    if k == 'fn':
        return e[3], e[4]
    if k == 'ite':
        return ty_of(e[2])
    raise ValueError(e)


def is_const(e):
    return e[0] == 'c'


def cval(e):
    return e[1]


def _binop(op, x, y, bits, signed):
    if op == 'Add':
        return wrap(x + y, bits, signed)
    if op == 'Sub':
        return wrap(x - y, bits, signed)
    if op == 'Mul':
        return wrap(x * y, bits, signed)
    if op == 'Div':
        if y == 0:
            return None
        q = abs(x) // abs(y)
        if (x < 0) != (y < 0):
            q = -q
        return wrap(q, bits, signed)
    if op == 'Rem':
        if y == 0:
            return None
        r = abs(x) % abs(y)
        if x < 0:
            r = -r
        return wrap(r, bits, signed)
    if op == 'BitAnd':
        return wrap(x & y, bits, signed)
    if op == 'BitOr':
        return wrap(x | y, bits, signed)
    if op == 'BitXor':
        return wrap(x ^ y, bits, signed)
    if op == 'Shl':
        sh = y & (bits - 1)          # wrapping semantics of the unchecked MIR op (release behaviour)
        return wrap(x << sh, bits, signed)
    if op == 'Shr':
        sh = y & (bits - 1)
        return wrap(x >> sh, bits, signed)   # python >> on negative ints is arithmetic
    raise ValueError(op)


def _ovf(op, x, y, bits, signed):
    if op == 'Add':
        r = x + y
    elif op == 'Sub':
        r = x - y
    elif op == 'Mul':
        r = x * y
    else:
        raise ValueError(op)
    return 1 if wrap(r, bits, signed) != r else 0


def _cmp(op, x, y):
    return int({'Eq': x == y, 'Ne': x != y, 'Lt': x < y, 'Le': x <= y, 'Gt': x > y, 'Ge': x >= y}[op])


def Bin(op, a, b, bits, signed):
    if a[0] == 'c' and b[0] == 'c':
        r = _binop(op, a[1], b[1], bits, signed)
        if r is not None:
            return ('c', r, bits, signed)
    # identities that keep bit tracking tidy
    if op in ('BitOr', 'BitXor', 'Add') and a[0] == 'c' and a[1] == 0 and ty_of(b) == (bits, signed):
        return b
    if op in ('BitOr', 'BitXor', 'Add', 'Sub', 'Shl', 'Shr') and b[0] == 'c' and b[1] == 0 and ty_of(a) == (bits, signed):
        return a
    return ('bin', op, a, b, bits, signed)


def Ovf(op, a, b, bits, signed):
    if a[0] == 'c' and b[0] == 'c':
        return ('c', _ovf(op, a[1], b[1], bits, signed), 1, False)
    return ('ovf', op, a, b, bits, signed)


def Un(op, a, bits, signed):
    if a[0] == 'c':
        if op == 'Not':
            if bits == 1:
                return ('c', 1 - (a[1] & 1), 1, False)
            return ('c', wrap(~a[1], bits, signed), bits, signed)
        if op == 'Neg':
            return ('c', wrap(-a[1], bits, signed), bits, signed)
    if op == 'Not' and a[0] == 'cmp':
        inv = {'Eq': 'Ne', 'Ne': 'Eq', 'Lt': 'Ge', 'Ge': 'Lt', 'Gt': 'Le', 'Le': 'Gt'}
        return ('cmp', inv[a[1]], a[2], a[3])
    return ('un', op, a, bits, signed)


def Cast(a, bits, signed):
    if a[0] == 'c':
        return ('c', wrap(a[1], bits, signed), bits, signed)
    if ty_of(a) == (bits, signed):
        return a
    return ('cast', a, bits, signed)


def Cmp(op, a, b):
    if a[0] == 'c' and b[0] == 'c':
        return ('c', _cmp(op, a[1], b[1]), 1, False)
    return ('cmp', op, a, b)


def Fn(name, args, bits, signed):
    return ('fn', name, tuple(args), bits, signed)


def syms(e, acc=None):
    if acc is None:
        acc = set()
    k = e[0]
    if k == 's':
        acc.add(e)
    elif k in ('bin', 'ovf'):
        syms(e[2], acc)
        syms(e[3], acc)
    elif k == 'un':
        syms(e[2], acc)
    elif k == 'cast':
        syms(e[1], acc)
    elif k == 'cmp':
        syms(e[2], acc)
        syms(e[3], acc)
    elif k == 'fn':
        for a in e[2]:
            syms(a, acc)
    return acc


class Unevaluable(Exception):
    pass


FN_IMPL = {}


def evaluate(e, env):
    """Concrete value of e under env: {sym node -> int}.  Raises Unevaluable on div by zero / unknown fn."""
    k = e[0]
    if k == 'c':
        return e[1]
    if k == 's':
        return env[e]
    if k == 'bin':
        r = _binop(e[1], evaluate(e[2], env), evaluate(e[3], env), e[4], e[5])
        if r is None:
            raise Unevaluable(e)
        return r
    if k == 'ovf':
        return _ovf(e[1], evaluate(e[2], env), evaluate(e[3], env), e[4], e[5])
    if k == 'un':
        v = evaluate(e[2], env)
        if e[1] == 'Not':
            if e[3] == 1:
                return 1 - (v & 1)
            return wrap(~v, e[3], e[4])
        return wrap(-v, e[3], e[4])
    if k == 'cast':
        return wrap(evaluate(e[1], env), e[2], e[3])
    if k == 'cmp':
        return _cmp(e[1], evaluate(e[2], env), evaluate(e[3], env))
    if k == 'fn':
        f = FN_IMPL.get(e[1])
        if f is None:
            raise Unevaluable(e)
        return wrap(f(*[evaluate(a, env) for a in e[2]]), e[3], e[4])
    raise ValueError(e)


FN_IMPL['reverse_bits64'] = lambda v: int('{:064b}'.format(v & MASK(64))[::-1], 2)


def subst(e, m):
    """Replace sub-expressions by mapping m: {node -> node}."""
    if e in m:
        return m[e]
    k = e[0]
    if k in ('c', 's'):
        return e
    if k == 'bin':
        return Bin(e[1], subst(e[2], m), subst(e[3], m), e[4], e[5])
    if k == 'ovf':
        return Ovf(e[1], subst(e[2], m), subst(e[3], m), e[4], e[5])
    if k == 'un':
        return Un(e[1], subst(e[2], m), e[3], e[4])
    if k == 'cast':
        return Cast(subst(e[1], m), e[2], e[3])
    if k == 'cmp':
        return Cmp(e[1], subst(e[2], m), subst(e[3], m))
    if k == 'fn':
        return Fn(e[1], [subst(a, m) for a in e[2]], e[3], e[4])
    return e


def show(e):
    k = e[0]
    if k == 'c':
        return hex(e[1]) if abs(e[1]) > 9 else str(e[1])
    if k == 's':
        return e[1]
    OPS = {'Add': '+', 'Sub': '-', 'Mul': '*', 'Div': '/', 'Rem': '%', 'BitAnd': '&', 'BitOr': '|', 'BitXor': '^', 'Shl': '<<', 'Shr': '>>',
           'Eq': '==', 'Ne': '!=', 'Lt': '<', 'Le': '<=', 'Gt': '>', 'Ge': '>='}
    if k == 'bin':
        return "(%s %s %s)" % (show(e[2]), OPS[e[1]], show(e[3]))
    if k == 'ovf':
        return "overflows(%s %s %s)" % (show(e[2]), OPS[e[1]], show(e[3]))
    if k == 'un':
        return "%s%s" % ('!' if e[1] == 'Not' else '-', show(e[2]))
    if k == 'cast':
        return "(%s as %s%d)" % (show(e[1]), 'i' if e[3] else 'u', e[2])
    if k == 'cmp':
        return "(%s %s %s)" % (show(e[2]), OPS[e[1]], show(e[3]))
    if k == 'fn':
        return "%s(%s)" % (e[1], ", ".join(show(a) for a in e[2]))
    return str(e)


# ------------------------------------------------------------------------------------------------
# value-set domains:  ('set', frozenset)  |  ('iv', ((lo, hi), ...))  sorted disjoint closed intervals
# ------------------------------------------------------------------------------------------------
def dom_full(bits, signed):
    if signed:
        return ('iv', ((-(1 << (bits - 1)), (1 << (bits - 1)) - 1),))
    return ('iv', ((0, (1 << bits) - 1),))


def dom_set(vals):
    return ('set', frozenset(vals))


def dom_range(lo, hi):
    return ('iv', ((lo, hi),)) if lo <= hi else ('set', frozenset())


def dom_size(d):
    if d[0] == 'set':
        return len(d[1])
    return sum(hi - lo + 1 for lo, hi in d[1])


def dom_empty(d):
    return dom_size(d) == 0


def dom_iter(d):
    if d[0] == 'set':
        return iter(sorted(d[1]))
    return (v for lo, hi in d[1] for v in range(lo, hi + 1))


def dom_contains(d, v):
    if d[0] == 'set':
        return v in d[1]
    return any(lo <= v <= hi for lo, hi in d[1])


def dom_min(d):
    return min(d[1]) if d[0] == 'set' else d[1][0][0]


def dom_max(d):
    return max(d[1]) if d[0] == 'set' else d[1][-1][1]


def dom_norm(d, limit=70000):
    """Small interval domains become explicit sets."""
    if d[0] == 'iv' and dom_size(d) <= limit:
        return ('set', frozenset(dom_iter(d)))
    return d


def dom_filter_cmp(d, op, c):
    """Restrict d to values v with (v op c)."""
    if d[0] == 'set':
        return ('set', frozenset(v for v in d[1] if _cmp(op, v, c)))
    out = []
    for lo, hi in d[1]:
        if op == 'Eq':
            if lo <= c <= hi:
                out.append((c, c))
        elif op == 'Ne':
            if lo <= c <= hi:
                if lo <= c - 1:
                    out.append((lo, c - 1))
                if c + 1 <= hi:
                    out.append((c + 1, hi))
            else:
                out.append((lo, hi))
        elif op == 'Lt':
            if lo < c:
                out.append((lo, min(hi, c - 1)))
        elif op == 'Le':
            if lo <= c:
                out.append((lo, min(hi, c)))
        elif op == 'Gt':
            if hi > c:
                out.append((max(lo, c + 1), hi))
        elif op == 'Ge':
            if hi >= c:
                out.append((max(lo, c), hi))
    return ('iv', tuple(out))


def dom_filter_pred(d, pred):
    if d[0] != 'set':
        raise ValueError("enumeration over an interval domain")
    return ('set', frozenset(v for v in d[1] if pred(v)))


def dom_eq(a, b):
    a2 = dom_norm(a)
    b2 = dom_norm(b)
    if a2[0] == 'set' and b2[0] == 'set':
        return a2[1] == b2[1]
    return dom_intervals(a) == dom_intervals(b)


def dom_intervals(d):
    if d[0] == 'iv':
        # merge adjacent
        out = []
        for lo, hi in d[1]:
            if out and out[-1][1] + 1 >= lo:
                out[-1] = (out[-1][0], max(out[-1][1], hi))
            else:
                out.append((lo, hi))
        return tuple(out)
    vs = sorted(d[1])
    out = []
    for v in vs:
        if out and out[-1][1] + 1 == v:
            out[-1] = (out[-1][0], v)
        else:
            out.append((v, v))
    return tuple(out)


def dom_union(a, b):
    if a[0] == 'set' and b[0] == 'set':
        return ('set', a[1] | b[1])
    iv = sorted(dom_intervals(a) + dom_intervals(b))
    out = []
    for lo, hi in iv:
        if out and out[-1][1] + 1 >= lo:
            out[-1] = (out[-1][0], max(out[-1][1], hi))
        else:
            out.append((lo, hi))
    return ('iv', tuple(out))


def dom_subset(a, b):
    """a ⊆ b ?"""
    if a[0] == 'set':
        return all(dom_contains(b, v) for v in a[1])
    ib = dom_intervals(b)
    for lo, hi in dom_intervals(a):
        if not any(l2 <= lo and hi <= h2 for l2, h2 in ib):
            return False
    return True


def dom_show(d):
    iv = dom_intervals(d)
    if not iv:
        return "{}"
    return ",".join(("%d" % lo) if lo == hi else "%d..%d" % (lo, hi) for lo, hi in iv[:12]) + ("…" if len(iv) > 12 else "")


# ------------------------------------------------------------------------------------------------
# bit provenance: list (LSB first) of  0 | 1 | ('b', sym, i) | ('nb', sym, i) | ('f', node, i) | 'T'
# ------------------------------------------------------------------------------------------------
def _bor(a, b):
    if a == 1 or b == 1:
        return 1
    if a == 0:
        return b
    if b == 0:
        return a
    if a == b:
        return a
    return 'T'


def _band(a, b):
    if a == 0 or b == 0:
        return 0
    if a == 1:
        return b
    if b == 1:
        return a
    if a == b:
        return a
    return 'T'


def _bnot(a):
    if a == 0:
        return 1
    if a == 1:
        return 0
    if isinstance(a, tuple) and a[0] == 'b':
        return ('nb', a[1], a[2])
    if isinstance(a, tuple) and a[0] == 'nb':
        return ('b', a[1], a[2])
    return 'T'


def _bxor(a, b):
    if a == 0:
        return b
    if b == 0:
        return a
    if a == 1:
        return _bnot(b)
    if b == 1:
        return _bnot(a)
    if a == b:
        return 0
    return 'T'


def bits_of(e, doms=None, _memo=None):
    """Per-bit provenance of e (width = its own type), LSB first.  doms: {sym -> domain} lets single-symbol
    arithmetic sub-terms over a small domain be tabulated ('f' bits resolved to 0/1/'b' when the table says so)."""
    if _memo is None:
        _memo = {}
    if e in _memo:
        return _memo[e]
    bits, signed = ty_of(e)
    k = e[0]
    out = None
    if k == 'c':
        out = [(e[1] >> i) & 1 for i in range(bits)]
    elif k == 's':
        out = [('b', e, i) for i in range(bits)]
        d = (doms or {}).get(e)
        if d is not None and dom_size(d) > 0:
            lo, hi = dom_min(d), dom_max(d)
            if lo >= 0:
                # known-zero high bits
                top = hi.bit_length()
                for i in range(top, bits):
                    out[i] = 0
    elif k == 'cast':
        ib = bits_of(e[1], doms, _memo)
        sb, ss = ty_of(e[1])
        out = []
        for i in range(bits):
            if i < sb:
                out.append(ib[i])
            else:
                out.append(ib[sb - 1] if ss else 0)   # sign / zero extension
    elif k == 'un' and e[1] == 'Not':
        out = [_bnot(x) for x in bits_of(e[2], doms, _memo)]
    elif k == 'bin' and e[1] in ('BitAnd', 'BitOr', 'BitXor'):
        a = bits_of(e[2], doms, _memo)
        b = bits_of(e[3], doms, _memo)
        f = {'BitAnd': _band, 'BitOr': _bor, 'BitXor': _bxor}[e[1]]
        n = min(len(a), len(b), bits)
        out = [f(a[i], b[i]) for i in range(n)] + ['T'] * (bits - n)
    elif k == 'bin' and e[1] in ('Shl', 'Shr') and e[3][0] == 'c':
        a = bits_of(e[2], doms, _memo)
        sh = e[3][1] & (bits - 1)
        if e[1] == 'Shl':
            out = [0] * sh + a[:bits - sh]
        else:
            fill = a[bits - 1] if signed else 0
            out = a[sh:] + [fill] * sh
    elif k == 'cmp' or k == 'ovf':
        out = ['T']
    if out is None or any(x == 'T' for x in out):
        # tabulate single-symbol terms over a small domain
        ss = list(syms(e))
        if len(ss) == 1 and doms and ss[0] in doms:
            d = dom_norm(doms[ss[0]])
            if d[0] == 'set' and 0 < len(d[1]) <= 70000:
                s = ss[0]
                sb = ty_of(s)[0]
                try:
                    table = [(v, evaluate(e, {s: v})) for v in d[1]]
                except Unevaluable:
                    table = None
                if table is not None:
                    res = []
                    for i in range(bits):
                        col = [(r >> i) & 1 for _, r in table]
                        if all(c == 0 for c in col):
                            res.append(0)
                        elif all(c == 1 for c in col):
                            res.append(1)
                        else:
                            hit = None
                            for j in range(sb):
                                if all(((v >> j) & 1) == c for (v, _), c in zip(table, col)):
                                    hit = ('b', s, j)
                                    break
                            res.append(hit if hit else ('f', e, i))
                    out = res
        if out is None:
            out = [('f', e, i) if len(ss) == 1 else 'T' for i in range(bits)]
    _memo[e] = out
    return out


# ------------------------------------------------------------------------------------------------
# linear forms over symbols:  {sym: coeff, None: const}  or None when e is not affine (casts that can
# change the value are affine only if the domain shows they cannot)
# ------------------------------------------------------------------------------------------------
def linear(e, doms=None):
    k = e[0]
    if k == 'c':
        return {None: e[1]}
    if k == 's':
        return {e: 1, None: 0}
    if k == 'cast':
        inner = linear(e[1], doms)
        if inner is None:
            return None
        # value preserving iff the source range fits the target type
        sb, ss = ty_of(e[1])
        tb, ts = e[2], e[3]
        src = dom_full(sb, ss)
        if len(inner) == 2 and None in inner and inner[None] == 0:
            (s, c), = [(x, y) for x, y in inner.items() if x is not None]
            if c == 1 and doms and s in doms:
                src = doms[s]
        tgt = dom_full(tb, ts)
        if dom_min(src) >= dom_min(tgt) and dom_max(src) <= dom_max(tgt):
            return inner
        return None
    if k == 'bin' and e[1] in ('Add', 'Sub'):
        a = linear(e[2], doms)
        b = linear(e[3], doms)
        if a is None or b is None:
            return None
        out = dict(a)
        sign = 1 if e[1] == 'Add' else -1
        for s, c in b.items():
            out[s] = out.get(s, 0) + sign * c
        return {s: c for s, c in out.items() if c != 0 or s is None}
    if k == 'bin' and e[1] == 'Mul':
        a = linear(e[2], doms)
        b = linear(e[3], doms)
        if a is None or b is None:
            return None
        if list(a) == [None]:
            return {s: c * a[None] for s, c in b.items()}
        if list(b) == [None]:
            return {s: c * b[None] for s, c in a.items()}
        return None
    if k == 'un' and e[1] == 'Neg':
        a = linear(e[2], doms)
        return None if a is None else {s: -c for s, c in a.items()}
    return None
