"""C07 — the Intel HEX files reproduce the images byte for byte at the right addresses  (clauses; record syntax is the ihex crate's).

(P) address arithmetic: E1 summarises the record-generation loops of generate_hex_from_segment (chunks(n).enumerate(), possibly nested);
    for every Data record the effective address  16 x (last extended segment address) + offset  must equal the chunk's absolute
    position  Σ index x chunk size  for every index value the path accepts, with no arithmetic that can overflow on the way, at least
    up to the largest flash in the device table; the record's value must be that chunk; chunk size <= 255;
(N) one EndOfFile record, last, on every path; an empty image yields only EndOfFile;
(N) sibling agreement: write_code_hex writes the text generated from .code, write_eeprom_hex from .eeprom; both convert LF to CRLF,
    both create the file only after generation succeeded (shared with C18)."""
import re

import absint
import devices
import facts as F
import graph as G
import mirutil as MU
import sx
from common import Reporter, loc_of


def run(tier):
    rep = Reporter("C07", tier, "other", "loop summaries of the record generator by abstract interpretation: effective record address vs. absolute chunk position over the accepted index sets; record-order rules on the path's record list")
    rep.explanation = ("The repository decides which records with which offsets; checksums and field widths are produced by the ihex crate. "
                       "Each explored path yields the ordered list of records it pushes with symbolic chunk indices; the effective address of "
                       "every Data record is compared with the chunk's absolute position for all index values up to the largest flash of the "
                       "device table (and beyond: either still correct or an error, never a wrapped offset). Not decided: a byte-exact round "
                       "trip through an independent reader (dynamic oracle), short writes.")
    rep.trusted = ["rustc nightly MIR", "E1 summaries of slice::chunks / enumerate", "the ihex crate writes well-formed records for the Record values it is given"]
    P = G.Program(F.load("dev"))
    rows, problems = devices.table(P)
    limit = 0
    if rows:
        limit = max([2 * r.get("flash_size", 0) for r in rows.values()] + [r.get("eeprom_size", 0) for r in rows.values()])
    rep.ob("C07.limit", limit >= 65536, "largest image in the device table: %d bytes" % limit, kind="unprovable", nontrivial=False)
    fn = "writer::generate_hex_from_segment"
    if fn not in P.body:
        rep.unprovable("C07.anchor", "generate_hex_from_segment not found")
        return rep
    M = absint.Machine(P, max_depth=4, loop_limit=3)
    M.iter_budget = 1
    paths = M.explore(fn, M.arg_unknowns(fn))
    rep.count("paths of the record generator", len(paths))
    if M.capped or M.unsupported:
        rep.unprovable("C07.explore", "exploration incomplete: %s" % M.unsupported[:2])
    b = P.body[fn]
    # record syntax and checksums are the ihex crate's: the text returned is what create_object_file_representation made of the records
    reprs = [(bb, t) for bb, t, n_, tg in P.call_sites(fn) if MU.callee_names(t)[1] == "ihex::create_object_file_representation"]
    okx = False
    if len(reprs) == 1:
        pay, r_ = None, MU.result_edges(b, reprs[0][0])
        chx = MU.Chaser(b)
        for bl in b["blocks"]:
            for st in bl["stmts"]:
                if st["k"] == "assign" and st["place"]["local"] == 0 and st["rv"]["k"] == "agg" and st["rv"]["kind"].get("vname") == "Ok" and st["rv"]["ops"]:
                    locs_, consts_, calls_, places_ = MU.backward_slice(b, [st["rv"]["ops"][0]])
                    okx = any(MU.callee_names(c)[1] == "ihex::create_object_file_representation" for c in calls_) and \
                        not any(re.search(r"::(push_str|push|insert|replace|format|write_fmt|truncate|pop)$", MU.callee_names(c)[1]) and "String" in MU.callee_names(c)[0] for c in calls_)
    rep.ob("C07.records|ihex", okx, "the text of the file is exactly what the ihex crate makes of the record list (record syntax and checksums are the crate's)" if okx else
           "the HEX text is not simply the ihex crate's rendering of a record list (records are formatted or edited by the repository's own code): that every line is a well-formed record with a valid checksum is not established")
    rl = [i for i, l in enumerate(b["locals"]) if l["name"] == "records"]
    oks = [p for p in paths if p.exit == "Ok"]
    rep.ob("C07.paths", bool(oks) and bool(rl), "record generator has success paths (%d)" % len(oks), kind="unprovable", nontrivial=False)
    if not rl or not oks:
        return rep
    rl = rl[0]
    ndata = 0
    seen_shapes = set()
    eof_bad = []
    addr_bad = []
    missing = []
    empty_ok = None
    for p in oks:
        v = p.state.cells.get(('L', 'f0', rl))
        if v is None or v[0] != 'vec' or any(s[0] != 'items' for s in v[2]):
            rep.unprovable("C07.records", "the record list of a path is not a plain sequence of pushes")
            continue
        recs = [it for s in v[2] for it in s[1]]
        names = [r[6] if r[0] == 'agg' and len(r) > 6 else "?" for r in recs]
        shape = tuple(names)
        # EOF discipline
        if names.count("EndOfFile") != 1 or names[-1] != "EndOfFile":
            eof_bad.append(names)
        ln = sx.dom_show(p.state.doms.get(sx.S("segment*#len", 64, False), sx.dom_full(64, False)))
        if ln == "0":
            empty_ok = names == ["EndOfFile"]
        # chunk loops on this path
        loops = []
        for ev in p.events:
            if ev[0] == 'iter-next':
                ch = [a for a in ev[2] if a[0] == "chunks"]
                if ch and (ev[1], ch[0][1]) not in loops:
                    loops.append((ev[1], ch[0][1]))
        # completeness: a chunk the innermost loop took from the image on this path must come out as a Data record
        innermost = [src for src, n in loops if not any(o.startswith(src + "[chunk i]") for o, _ in loops if o != src)]
        truths = {sx.show(e): t for e, t in p.conds}
        for src in innermost:
            if truths.get("more(%s)" % src) is True:
                vals = [r[3][1] for r, nm in zip(recs, names) if nm == "Data"]
                got = any(v_[0] == 'vec' and len(v_[2]) == 1 and v_[2][0][0] == 'blob' and str(v_[2][0][1]).startswith(src + "[chunk i]") for v_ in vals)
                if not got:
                    others = [sx.show(e) + ("" if t else " is false") for e, t in p.conds if not re.search(r"more\d*\(|#len|create_object", sx.show(e))][-2:]
                    missing.append("a chunk taken from %s is not written as a Data record on the path where %s" % (src, " and ".join(others) or "the loop continues"))
        if shape in seen_shapes:
            continue
        seen_shapes.add(shape)
        panic_conds = {e[5] for e in p.events if e[0] == 'may-panic'}
        esa = None
        for r, nm in zip(recs, names):
            if nm in ("ExtendedSegmentAddress", "ExtendedLinearAddress"):
                esa = (nm, r[3][0])
            if nm != "Data":
                continue
            ndata += 1
            off, val = r[3][0], r[3][1]
            if off[0] != 'int':
                addr_bad.append(("offset of a Data record is not an integer expression", None))
                continue
            # which chunk is the value?
            vname = None
            if val[0] == 'vec' and len(val[2]) == 1 and val[2][0][0] == 'blob':
                vname = val[2][0][1]
            inner = [(src, n) for src, n in loops if vname is not None and vname.startswith(src + "[chunk i]")]
            if not inner:
                addr_bad.append(("the value of a Data record is not a chunk of the image (%s)" % vname, None))
                continue
            # enclosing loops of that chunk: every loop whose source is a prefix of the value's name
            encl = sorted(inner, key=lambda x: len(x[0]))
            if any(n > 255 for _, n in encl[-1:]):
                addr_bad.append(("chunk size %d exceeds the 255 bytes a record can hold" % encl[-1][1], None))
            syms = [sx.S("i(%s)" % src, 64, False) for src, _ in encl]
            doms = []
            for (src, n), s in zip(encl, syms):
                d = p.state.doms.get(s, sx.dom_range(0, 1 << 62))
                hi = sx.dom_max(d)
                if hi > (1 << 24):
                    need = -(-limit // n)
                    cand = sorted(set(list(range(0, min(need + 3, 70000))) + [4095, 4096, 4097, 65535, 65536, 65537, 1 << 20, 1 << 32]))
                    d2 = [x for x in cand if sx.dom_contains(d, x)]
                else:
                    d2 = list(sx.dom_iter(sx.dom_norm(d)))
                doms.append(d2)
            total = 1
            for d2 in doms:
                total *= max(1, len(d2))
            if total > 400000:
                rep.unprovable("C07.address|size", "index space too large to enumerate (%d)" % total)
                continue
            import itertools
            checked = 0
            found = None
            for combo in itertools.product(*doms):
                env = dict(zip(syms, combo))
                absaddr = sum(i * n for i, (_, n) in zip(combo, encl))
                # all path conditions on the indices
                holds = True
                failed_panic = None
                for e, t in p.conds:
                    ss = sx.syms(e)
                    if not ss or not all(s in env for s in ss):
                        continue
                    try:
                        r_ = bool(sx.evaluate(e, env)) == t
                    except sx.Unevaluable:
                        r_ = False
                    if not r_:
                        holds = False
                        if sx.show(e) in panic_conds:
                            failed_panic = sx.show(e)
                        break
                if not holds:
                    if failed_panic and absaddr < max(limit, 1):
                        found = ("chunk at byte %d (index %s): %s — the offset arithmetic overflows (panic in debug builds, wrapped offset in release)" % (
                            absaddr, list(combo), failed_panic), {"indices": list(combo)})
                        break
                    continue
                checked += 1
                try:
                    o = sx.evaluate(off[1], env)
                    base = 0
                    if esa is not None and esa[1][0] == 'int':
                        base = sx.evaluate(esa[1][1], env) * (16 if esa[0] == "ExtendedSegmentAddress" else 65536)
                except (sx.Unevaluable, KeyError) as ex:
                    found = ("record address not evaluable: %s" % ex, None)
                    break
                if base + o != absaddr:
                    found = ("the chunk at byte %d of the image (index %s) is written with record address %d (segment base %d + offset %d)" % (
                        absaddr, list(combo), base + o, base, o), {"indices": list(combo), "absolute": absaddr, "record": base + o})
                    break
            if found:
                addr_bad.append(found)
            rep.count("index tuples checked", rep.analysed.get("index tuples checked", 0) + checked)
    # the walk over the image itself: no adaptor that lets elements fall out stands between the image and the record loop
    dropping = []
    import writers as W_
    for k_ in W_.family(P, fn) if hasattr(W_, "family") else [fn]:
        for bb_, t_, n_, tg_ in P.call_sites(k_):
            rp_ = MU.callee_names(t_)[1]
            if re.search(r"Iterator::(filter|filter_map|skip|skip_while|take|take_while|step_by|flat_map|scan|map_while)$", rp_):
                dropping.append("%s in %s" % (rp_.split("::")[-1], k_.split("::")[-1]))
    # and the index a record's address is computed from counts the chunks themselves: nothing but chunks() in front of enumerate()
    for p_ in oks:
        for ev in p_.events:
            if ev[0] == 'iter-next':
                ads = [a[0] for a in ev[2]]
                if "enumerate" in ads and any(a not in ("chunks",) for a in ads[:ads.index("enumerate")]):
                    dropping.append("%s in front of enumerate()" % "/".join(a for a in ads[:ads.index("enumerate")] if a != "chunks"))
    if dropping:
        missing.append("the walk over the image goes through %s: chunks can fall out before the record loop sees them" % ", ".join(sorted(set(dropping))))
    rep.ob("C07.eof", not eof_bad, "every path ends its record list with exactly one EndOfFile" if not eof_bad else
           "EndOfFile discipline violated: record lists %s" % eof_bad[:2])
    rep.ob("C07.complete", not missing, "every 16-byte chunk the record loop takes from the image is written as one Data record (no path skips a chunk)" if not missing else
           missing[0], detail=missing[:3])
    rep.ob("C07.empty", empty_ok is True, "an empty image yields only the EndOfFile record" if empty_ok else "empty image: record list is not [EndOfFile]")
    rep.ob("C07.address", not addr_bad and ndata > 0,
           "every Data record's effective address equals the chunk's position in the image for all accepted chunk indices (images up to %d bytes and beyond)" % limit if not addr_bad and ndata else
           (addr_bad[0][0] if addr_bad else "no Data record found on any path"), detail=addr_bad[0][1] if addr_bad else None,
           sample={"record lists": [list(s) for s in sorted(seen_shapes)], "limit": limit})
    # ---- sibling agreement of the two writers (each seen with the local helpers it uses: analysis/writers.py)
    import writers as W
    for w, field in (("writer::write_code_hex", "code"), ("writer::write_eeprom_hex", "eeprom")):
        if w not in P.body:
            rep.unprovable("C07.writer|%s" % w, "%s not found" % w)
            continue
        fam = W.family(P, w)
        gr = [f["name"] for f in P.lib.adts["writer::GenerateResult"]["variants"][0]["fields"]]
        wr = W.calls_in(P, fam, lambda rp, full: W.is_write_all(rp))
        if not wr:
            rep.unprovable("C07.writer|%s|write" % w, "no write_all in %s or the helpers it calls" % w)
            continue
        fields = set()
        strs = []
        callnames = []
        for k_, bb_, t_, rp_ in wr:
            consts, calls, places = W.slice_family(P, fam, k_, [t_["args"][1]])
            for fk, pl in places:
                if P.tys(fk, P.body[fk]["locals"][pl["local"]]["ty"]).endswith("writer::GenerateResult"):
                    fs = MU.proj_fields(pl["proj"])
                    if fs:
                        fields.add(gr[fs[-1]])
            strs += [c.get("str") for c in consts if "str" in c]
            callnames += [MU.callee_names(c)[1] for fk, c in calls]
        rep.ob("C07.writer|%s|field" % field, fields == {field}, "%s writes the text generated from the %s image" % (w.split("::")[-1], field) if fields == {field} else
               "%s writes %s" % (w.split("::")[-1], sorted(fields)))
        # nothing but the generated records goes to the file: every write takes its bytes from the generated text
        allw = W.calls_in(P, fam, lambda rp, full: W.is_write(rp) or W.is_write_all(rp))
        stray = []
        for k_, bb_, t_, rp_ in allw:
            consts_, calls_, places_ = W.slice_family(P, fam, k_, [t_["args"][1]])
            from_text = any(P.tys(fk, P.body[fk]["locals"][pl["local"]]["ty"]).endswith("writer::GenerateResult") for fk, pl in places_)
            if not from_text:
                stray.append(sorted(repr(c.get("str")) for c in consts_ if "str" in c or "bytes" in c)[:2] or [rp_.split("::")[-1]])
        rep.ob("C07.writer|%s|records-only" % field, not stray, "every write to the %s file takes its bytes from the generated records (%d writes)" % (field, len(allw)) if not stray else
               "%s also writes bytes that are no record (%s): the file does not consist solely of Intel HEX records" % (w.split("::")[-1], stray[0]))
        crlf = "\n" in strs and "\r\n" in strs and any(n.endswith("::replace") for n in callnames)
        rep.ob("C07.writer|%s|crlf" % field, crlf, "line ends are converted LF -> CRLF" if crlf else "no LF -> CRLF conversion found in %s" % w)
        # the file holds nothing but this run's records: it is created or truncated when opened
        ops = W.calls_in(P, fam, lambda rp, full: bool(W.OPENERS.match(rp)))
        fresh = bool(ops)
        whyf = ""
        for k_, bb_, t_, rp_ in ops:
            if rp_ in ("std::fs::File::create", "std::fs::File::create_new"):
                continue
            if rp_ == "std::fs::OpenOptions::open":
                consts, calls, places = W.slice_family(P, fam, k_, [t_["args"][0]])
                tr = [c for fk, c in calls if MU.callee_names(c)[1] in ("std::fs::OpenOptions::truncate", "std::fs::OpenOptions::create_new")]
                if any(len(c["args"]) > 1 and c["args"][1].get("const", {}).get("int") == "1" for c in tr):
                    continue
                fresh = False
                whyf = "OpenOptions::open without truncate(true)"
            else:
                fresh = False
                whyf = rp_
        rep.ob("C07.writer|%s|fresh-file" % field, fresh, "the output file is created empty or truncated when opened (File::create): it holds only this run's records" if fresh else
               "the output file is opened with %s: what an older, longer file held stays behind the new records" % (whyf or "no recognised opener"))
    gk = "writer::generate_hex"
    gb = P.body.get(gk)
    if gb is not None:
        ch = MU.Chaser(gb)
        br = [f["name"] for f in P.lib.adts["builder::BuildResult"]["variants"][0]["fields"]]
        gr = [f["name"] for f in P.lib.adts["writer::GenerateResult"]["variants"][0]["fields"]]
        agg = None
        for bl in gb["blocks"]:
            for st in bl["stmts"]:
                if st["k"] == "assign" and st["rv"]["k"] == "agg" and st["rv"]["kind"].get("path") == "writer::GenerateResult":
                    agg = st["rv"]
        if agg is not None:
            for fi, o in enumerate(agg["ops"]):
                locs, consts, calls, places = MU.backward_slice(gb, [o])
                src = set()
                for c in calls:
                    if "generate_hex_from_segment" in MU.callee_names(c)[1]:
                        root, proj, _ = ch.root(c["args"][0])
                        fs = MU.proj_fields(proj)
                        if root == 1 and fs:
                            src.add(br[fs[0]])
                rep.ob("C07.writer|generate|%s" % gr[fi], src == {gr[fi]}, "the %s text is generated from BuildResult.%s" % (gr[fi], gr[fi]) if src == {gr[fi]} else
                       "the %s text is generated from %s" % (gr[fi], sorted(src)))
        else:
            rep.unprovable("C07.writer|generate", "GenerateResult aggregate not found")
    return rep
