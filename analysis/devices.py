"""Evaluates the DEVICES table from the MIR of its LazyLock initialiser (straight-line maplit code) with E1.
No repository code runs: the closure body is interpreted abstractly and the (name, Device{..}) pairs passed to
HashMap::insert are read off the event list."""
import absint
import sx


def table(P):
    key = None
    for k in P.body:
        if k.startswith("device::DEVICES::{closure#0}") and "#promoted" not in k:
            key = k
    if key is None:
        return None, "initialiser closure of device::DEVICES not found"
    M = absint.Machine(P, max_depth=4, max_paths=8)
    paths = M.explore(key, M.arg_unknowns(key))
    good = [p for p in paths if p.exit in ("ret", "Ok")]
    if len(good) != 1 or len(paths) != 1:
        return None, "initialiser of DEVICES is not straight-line (%d paths: %s)" % (len(paths), [p.exit for p in paths][:5])
    p = good[0]
    dev_adt = P.lib.adts["device::Device"]
    fields = [f["name"] for f in dev_adt["variants"][0]["fields"]]
    flags = {v["ix"]: v["name"] for v in P.lib.adts["device::DisabledOptions"]["variants"]}
    rows = {}
    problems = []
    for ev in p.events:
        if ev[0] != 'map-insert':
            continue
        k, v = ev[2], ev[3]
        name = k[1] if k[0] == 'str' else None
        if name is None or v[0] != 'agg' or len(v[3]) != len(fields):
            problems.append("unreadable row %r" % (k,))
            continue
        row = {}
        for fn, fv in zip(fields, v[3]):
            if fv[0] == 'int' and sx.is_const(fv[1]):
                row[fn] = sx.cval(fv[1])
            elif fv[0] == 'vec':
                opts = []
                for seg in fv[2]:
                    if seg[0] == 'items':
                        for it in seg[1]:
                            if it[0] == 'agg':
                                opts.append(flags.get(it[2], "?"))
                            else:
                                problems.append("non-constant flag in row %s" % name)
                row[fn] = sorted(opts)
            else:
                problems.append("field %s of row %s is not a constant" % (fn, name))
        if name in rows:
            problems.append("duplicate device name %s" % name)
        row["_site"] = ev[4]
        rows[name] = row
    return rows, problems
