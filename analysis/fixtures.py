"""Positive-control fixture crates pushed through the same driver (one tiny cargo check each, cached by content)."""
import hashlib
import os
import shutil
import subprocess
import sys

import facts as F
import graph as G

FIX = os.path.join(F.VERIF, "selftest", "fixtures")


class _Empty:
    name = "none"
    types = []
    adts = {}
    bodies = {}
    impls = []
    statics = []


class _Facts:
    def __init__(self, lib):
        self.lib = lib
        self.bin = _Empty()
        self.crates = [lib]


def load(name):
    src = os.path.join(FIX, name)
    if not os.path.isdir(src):
        return None
    F.ensure_driver()
    h = hashlib.sha256()
    for root, dirs, files in os.walk(src):
        dirs.sort()
        if "target" in dirs:
            dirs.remove("target")
        for f in sorted(files):
            with open(os.path.join(root, f), "rb") as fh:
                h.update(f.encode() + fh.read())
    key = hashlib.sha256((h.hexdigest() + F._driver_id()).encode()).hexdigest()[:20]
    out = os.path.join(F.CACHE, "fixtures", name + "-" + key)
    crate = "fx_" + name
    jf = os.path.join(out, crate + ".json")
    if not os.path.exists(jf):
        shutil.rmtree(out, ignore_errors=True)
        os.makedirs(out)
        target = os.path.join(out, "target")
        env = dict(os.environ)
        env.update({
            "LD_LIBRARY_PATH": F._sysroot() + "/lib",
            "RUSTFLAGS": F.PROFILES["dev"],
            "RUSTC_WORKSPACE_WRAPPER": F.DRIVER,
            "AVRA_FACTS_DIR": out,
            "AVRA_FACTS_CRATES": crate,
            "CARGO_TARGET_DIR": target,
            "CARGO_NET_OFFLINE": "true",
        })
        r = subprocess.run(["cargo", "+nightly", "check", "--offline"], cwd=src, env=env,
                           stdout=subprocess.PIPE, stderr=subprocess.STDOUT, text=True)
        shutil.rmtree(target, ignore_errors=True)
        if r.returncode != 0 or not os.path.exists(jf):
            sys.stderr.write(r.stdout[-3000:])
            return None
    return G.Program(_Facts(F.Crate(jf)))
