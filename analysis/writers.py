"""The output writers seen as a family of functions: a writer entry point plus the local helpers it calls (not the hex generator).
Rules about what is written, how the file is opened and whether I/O failures propagate are stated on the family, so that pulling the
common part of the two writers into a helper changes nothing."""
import re

import graph as G
import mirutil as MU

OPENERS = re.compile(r"^std::fs::(File::create|File::create_new|OpenOptions::open|File::options|File::open)$")
WRITES = ("std::io::Write::write_all", "<std::fs::File as std::io::Write>::write", "std::io::Write::write", "std::io::Write::write_fmt")
GENERATOR = "writer::generate_hex"


def is_write_all(rp):
    return rp == "std::io::Write::write_all" or rp.endswith(" as std::io::Write>::write_all")


def is_write(rp):
    return rp in WRITES or bool(re.search(r" as std::io::Write>::(write|write_all|write_fmt|write_vectored)$", rp))


def family(P, w):
    fam = [w]
    seen = {w}
    work = [w]
    while work:
        k = work.pop()
        for bb, t, name, tg in P.call_sites(k):
            real = P.norm_path(k, t["callee"].get("rpath"))
            if real and real in P.body and real not in seen and not real.startswith(GENERATOR) and not real.startswith("std::"):
                seen.add(real)
                fam.append(real)
                work.append(real)
    return fam


def calls_in(P, fam, pred):
    out = []
    for k in fam:
        b = P.body[k]
        for bb, t, name, tg in P.call_sites(k):
            if b["blocks"][bb]["cleanup"]:
                continue
            full, rp = MU.callee_names(t)
            if pred(rp, full):
                out.append((k, bb, t, rp))
    return out


def callers_in(P, fam, k):
    out = []
    for k2 in fam:
        for bb, t, name, tg in P.call_sites(k2):
            if P.norm_path(k2, t["callee"].get("rpath")) == k:
                out.append((k2, bb, t))
    return out


def slice_family(P, fam, k, ops, depth=0, seen=None):
    """backward slice of operands, continued through parameters into the family's call sites -> (consts, [(fn, call term)], [(fn, place)])"""
    seen = seen if seen is not None else set()
    b = P.body[k]
    locs, consts, calls, places = MU.backward_slice(b, ops)
    C = list(consts)
    K = [(k, c) for c in calls]
    Pl = [(k, p) for p in places]
    if depth < 4:
        for i in range(1, b["arg_count"] + 1):
            if i in locs or any(p["local"] == i for p in places):
                for k2, bb, t in callers_in(P, fam, k):
                    key = (k2, bb, i)
                    if key in seen or len(t["args"]) < i:
                        continue
                    seen.add(key)
                    c2, k3, p3 = slice_family(P, fam, k2, [t["args"][i - 1]], depth + 1, seen)
                    C += c2
                    K += k3
                    Pl += p3
    return C, K, Pl


def propagated(P, fam, k, bb, depth=0):
    """the Result of the call at (k, bb) is inspected (`?`, match) or is what k returns and k's own result is propagated by its callers"""
    b = P.body[k]
    if MU.result_edges(b, bb) is not None:
        return True
    t = b["blocks"][bb]["term"]
    # returned as is:  _0 = call(..)   or   _x = call(..); _0 = move _x
    holders = {t["dest"]["local"]}
    changed = True
    while changed:
        changed = False
        for bl in b["blocks"]:
            for st in bl["stmts"]:
                if st["k"] == "assign" and st["rv"]["k"] == "use" and not st["place"]["proj"]:
                    pl = MU.op_place(st["rv"]["op"])
                    if pl and pl["local"] in holders and not pl["proj"] and st["place"]["local"] not in holders:
                        holders.add(st["place"]["local"])
                        changed = True
    if 0 in holders and depth < 4:
        cs = callers_in(P, fam, k)
        if not cs:
            return True            # the family's entry point: its result is the caller's business (main: C18.exit)
        return all(propagated(P, fam, k2, bb2, depth + 1) for k2, bb2, t2 in cs)
    return False


def entry_site_of(P, fam, w, k, bb):
    """the call site in the entry point w through which the call at (k, bb) is reached (itself when k == w)"""
    if k == w:
        return bb
    for k2, bb2, t2 in callers_in(P, fam, k):
        r = entry_site_of(P, fam, w, k2, bb2)
        if r is not None:
            return r
    return None
