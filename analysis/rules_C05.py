"""C05 — constant expressions evaluate with the documented operator semantics.

A finite operator table implemented twice in the repository (grammar + evaluator); both are compared with spec/operators.json:
 1 (N) precedence & associativity from the precedence!{} block (E2, with rust-peg's translation rule for prefix rows);
 2 (P) evaluation: E1 on Expr::run with the recursive calls opaque (symbols l, r, v): per operator variant the Ok value must be
       the table's expression and the table's failure conditions must lead to Err — an input for which neither an Ok nor an Err
       path exists (overflow Assert: panics in debug, wraps in release) violates "overflow fails the build";
       functions low/high/byte2/byte3/byte4/lwrd/hwrd by bit provenance, exp2 on its domain;
 3 (N) literal forms: prefix <-> radix, digit classes, alternative order;
 4 (N) carrier type i64."""
import json
import os
import re

import absint
import facts as F
import grammar
import graph as G
import peg
import mirutil as MU
import sx
from sx import C, S
from common import Reporter, loc_of

SPEC = os.path.join(F.VERIF, "spec", "operators.json")
I64 = (64, True)
MIN, MAX = -(1 << 63), (1 << 63) - 1
GRID = sorted({0, 1, -1, 2, -2, 3, 5, 7, 8, 15, 16, 31, 32, 62, 63, 64, 65, 127, 128, 255, 256, -128, -129, 65535, 65536, (1 << 31) - 1, 1 << 31,
               -(1 << 31), 1 << 32, (1 << 62), (1 << 62) - 1, MAX, MAX - 1, MIN, MIN + 1, 0x5555555555555555, -0x5555555555555556, 0x0123456789abcdef}, key=lambda v: (abs(v), v < 0))


def wrap(v):
    return sx.wrap(v, 64, True)


def tdiv(a, b):
    q = abs(a) // abs(b)
    return -q if (a < 0) != (b < 0) else q


def trem(a, b):
    r = abs(a) % abs(b)
    return -r if a < 0 else r


def reference(entry, env):
    """-> ('val', v) | ('err',)"""
    err = entry.get("error")
    l, r, v = env.get("l"), env.get("r"), env.get("v")
    ns = {"l": l, "r": r, "v": v, "bool": lambda x: int(bool(x)), "wrap": wrap, "tdiv": tdiv, "trem": trem}
    if err:
        parts = [p.strip() for p in err.split(" or ")]
        for p in parts:
            if p == "overflow":
                continue
            if eval(p, {"__builtins__": {}}, ns):
                return ('err',)
    if entry.get("either") and eval(entry["either"], {"__builtins__": {}}, dict(ns, MIN=MIN)):
        return ('either', wrap(eval(entry["value"], {"__builtins__": {}}, ns)))
    val = eval(entry["value"], {"__builtins__": {}}, ns)
    if err and "overflow" in err and not (MIN <= val <= MAX):
        return ('err',)
    return ('val', wrap(val))


def evaluation_depth_vs_line_guard(P, rep):
    """Every expression the line parser lets through evaluates: the evaluator's nesting limit must not be below the number of operators
    the guard in front of the parser admits in one operand (a chain a+b+c+... is a tree with one level per operator)."""
    import mirutil as MU
    import rules_C16
    ev = None
    for k in sorted(P.reachable(["expr::Expr::run"])):
        if not k.startswith("expr::"):
            continue
        b = P.body[k]
        ch = MU.Chaser(b)
        for bl in b["blocks"]:
            for st in bl["stmts"]:
                if st["k"] == "assign" and st["rv"]["k"] == "bin" and st["rv"]["op"] in ("Gt", "Ge") and "const" in st["rv"]["r"] and "int" in st["rv"]["r"]["const"]:
                    r = ch.root(st["rv"]["l"], through_calls=False)
                    if r[0] is not None and 1 <= r[0] <= b["arg_count"] and b["locals"][r[0]].get("name") == "depth":
                        ev = int(st["rv"]["r"]["const"]["int"])
    ops = None
    for gk in rules_C16.nesting_guards(P):
        b = P.body[gk]
        for bl in b["blocks"]:
            for st in bl["stmts"]:
                if st["k"] == "assign" and st["rv"]["k"] == "bin" and st["rv"]["op"] in ("Gt", "Ge") and "const" in st["rv"]["r"] and "int" in st["rv"]["r"]["const"]:
                    ops = max(ops or 0, int(st["rv"]["r"]["const"]["int"]))
    if ev is None or ops is None:
        rep.unprovable("C05.limits|chain-vs-evaluation-depth", "limits not found (evaluation depth %s, operators per operand %s)" % (ev, ops))
        return
    rep.ob("C05.limits|chain-vs-evaluation-depth", ops <= ev,
           "what the line guard admits (%d operators in one operand) the evaluator can walk (nesting limit %d)" % (ops, ev) if ops <= ev else
           "the line guard admits %d operators in one operand, the evaluator gives up beyond a nesting of %d: a flat sum of 130 terms, or an enumeration `.equ ID_n = ID_(n-1) + 1` 65 links long, parses and then fails with `expression nested too deeply (definition that refers to itself?)`" % (ops, ev))


def run(tier):
    rep = Reporter("C05", tier, "proof", "operator-table agreement: precedence table read from the PEG grammar; evaluator table extracted by abstract interpretation of Expr::run; bit provenance for the byte/word functions")
    rep.explanation = ("The expression language is a finite table implemented twice. The grammar side (levels, fixity, associativity, "
                       "token->variant pairing, literal radices) is read from the precedence!{} block with rust-peg's own translation rule, "
                       "which fully determines a precedence-climbing parser. The evaluator side is extracted per operator variant from the "
                       "MIR of Expr::run with symbolic operands and compared with the reference: structurally where possible, and on a "
                       "boundary grid (0, ±1, powers of two, i64 min/max …) for value and error behaviour.")
    rep.trusted = ["rustc nightly MIR", "spec/operators.json", "peg-macros 0.8.4 translation of precedence!{} (read from its source)", "E1"]
    P = G.Program(F.load("dev"))
    with open(SPEC) as fh:
        spec = json.load(fh)
    g, problems = grammar.load_checked(P)
    for pr in problems:
        rep.unprovable("C05.grammar|cross-check", "grammar reader disagrees with the compiled parser: %s" % pr)
    precedence(P, g, spec, rep)
    literals(P, g, spec, rep)
    evaluator(P, spec, rep)
    identifier_rule(P, rep)
    evaluation_consumers(P, rep, "C05.errors|consumer")
    # an operand that is a symbol is read as that symbol whatever its name begins with (r16_mask, -zero_off)
    import layout_match
    layout_match.use_conditions(P)
    layout_match.identifier_operands(g, rep, "C05.operand", shapes=("bare", "negated", "in-sum", "directive", "negated-directive"), floor=70)
    evaluation_depth_vs_line_guard(P, rep)
    # an expression handed to a macro is written out and parsed again: it must come back as the same expression
    import rules_C09
    from common import Rekey
    rules_C09.printers_rule(P, Rekey(rep, "C09.print|", "C05.reparse|"))
    import rules_C02
    rules_C02.byte_operand_dropped(P, rep, "C05.errors|byte-operand", "the expression is never evaluated, so `.byte 1/0` or `.byte 1<<64` builds instead of failing, and `.byte 2*4` reserves nothing")
    return rep


# ------------------------------------------------------------------------------------------------ 1. precedence
def precedence(P, g, spec, rep):
    try:
        rows = g.prec_table("expr")
    except (peg.PegError, KeyError) as e:
        rep.unprovable("C05.prec|table", "precedence table of rule expr not readable: %s" % e)
        return
    infix = [r for r in rows if r["kind"] == "infix"]
    prefix = [r for r in rows if r["kind"] == "prefix"]
    max_infix_level = max([r["level"] for r in infix] or [0])
    by_tok = {}
    for r in infix:
        toks = [t for t in r["tokens"]]
        if len(toks) != 1:
            rep.unprovable("C05.prec|row", "infix row with %d literals at line %d" % (len(toks), r["line"]))
            continue
        by_tok.setdefault(toks[0], []).append(r)
    rep.count("infix rows", len(infix))
    rep.count("prefix rows", len(prefix))
    # rank order: group reference ranks, levels must be strictly increasing with rank and equal within a rank
    ref = spec["binary"]
    level_of = {}
    for e in ref:
        tok = e["token"]
        rws = by_tok.get(tok, [])
        ok = len(rws) == 1
        rep.ob("C05.prec|present|%s" % tok, ok, "binary operator %s has exactly one grammar row" % tok if ok else
               "binary operator %s has %d grammar rows" % (tok, len(rws)))
        if not ok:
            continue
        r = rws[0]
        level_of[tok] = r["level"]
        rep.ob("C05.prec|assoc|%s" % tok, r["assoc"] == "left", "%s is left-associative (x:(@) %s y:@)" % (tok, tok) if r["assoc"] == "left" else
               "%s is %s-associative in the grammar; the operator table says left" % (tok, r["assoc"]))
        paths, nums, strs = peg.action_paths(r["action"])
        want = "BinaryOperator::%s" % e["variant"]
        got = [p for p in paths if p.startswith("BinaryOperator::")]
        rep.ob("C05.prec|variant|%s" % tok, got == [want], "%s builds %s" % (tok, want) if got == [want] else
               "token %s builds %s, expected %s" % (tok, got, want))
        # whitespace around the token (also used by C14)
    for a in ref:
        for b in ref:
            if a["token"] in level_of and b["token"] in level_of and a["token"] < b["token"]:
                la, lb = level_of[a["token"]], level_of[b["token"]]
                rel = (a["rank"] > b["rank"]) - (a["rank"] < b["rank"])
                got = (la > lb) - (la < lb)
                if rel != got:
                    rep.ob("C05.prec|order|%s|%s" % (a["token"], b["token"]), False,
                           "%s (rank %d) and %s (rank %d) are ordered differently in the grammar (levels %d and %d)" % (
                               a["token"], a["rank"], b["token"], b["rank"], la, lb))
    rep.ob("C05.prec|order", not any(k.startswith("C05.prec|order|") for k in rep.keys),
           "the %d binary operators are layered || < && < | < ^ < & < ==,!= < <,<=,>,>= < <<,>> < +,- < *,/,%%" % len(level_of))
    # extra infix operators the table does not know
    for tok in by_tok:
        if tok not in {e["token"] for e in ref}:
            rep.ob("C05.prec|extra|%s" % tok, False, "grammar has a binary operator %s that the operator table does not define" % tok)
    # unary: effective operand level (level+1 when the operand is written `@`) must exceed every infix level
    for e in spec["unary"]:
        tok = e["token"]
        rws = [r for r in prefix if r["tokens"] == [tok]]
        if len(rws) != 1:
            rep.ob("C05.prec|present|unary%s" % tok, False, "unary operator %s has %d grammar rows" % (tok, len(rws)))
            continue
        r = rws[0]
        marker = r["elems"][-1][1][0]
        operand_level = r["level"] + (1 if marker == "@" else 0)
        ok = operand_level > max_infix_level
        rep.ob("C05.prec|unary-tightest|%s" % tok, ok,
               "unary %s binds tighter than every binary operator (operand parsed at level %d > %d)" % (tok, operand_level, max_infix_level) if ok else
               "unary %s sits at grammar level %d: its operand is parsed at level %d and swallows the binary operators of level >= %d (%s), "
               "e.g. `%s1*2` parses as `%s(1*2)`" % (tok, r["level"], operand_level, operand_level,
                                                   " ".join(t for t, l in sorted(level_of.items(), key=lambda x: x[1]) if l >= operand_level), tok, tok),
               detail={"level": r["level"], "max_infix_level": max_infix_level})
        paths, nums, strs = peg.action_paths(r["action"])
        want = "UnaryOperator::%s" % e["variant"]
        got = [p for p in paths if p.startswith("UnaryOperator::")]
        rep.ob("C05.prec|variant|unary%s" % tok, got == [want], "unary %s builds %s" % (tok, want) if got == [want] else
               "unary %s builds %s, expected %s" % (tok, got, want))


# ------------------------------------------------------------------------------------------------ 3. literals
def literals(P, g, spec, rep):
    r = g.rules.get("e_const")
    if r is None:
        rep.unprovable("C05.lit|anchor", "rule e_const not found")
        return
    node = r["expr"]
    alts = node[1] if node[0] == "choice" else [node]
    found = []
    for a in alts:
        if a[0] != "seq":
            continue
        prefix = ""
        cls = None
        for lab, e in a[1]:
            if e[0] == "lit":
                prefix += e[1]
            elif e[0] == "slice":
                inner = e[1]
                while inner[0] == "group":
                    inner = inner[1]
                    if inner[0] == "seq" and len(inner[1]) == 1:
                        inner = inner[1][0][1]
                if inner[0] == "rep" and inner[1][0] == "class":
                    cls = (inner[1], inner[2])
        paths, nums, strs = peg.action_paths(a[2]) if a[2] else ([], [], [])
        radix = None
        if any(p.endswith("from_str_radix") for p in paths):
            radix = int(nums[-1]) if nums else None
        elif "parse" in " ".join(paths):
            radix = 10
        found.append({"prefix": prefix, "class": cls, "radix": radix})
    rep.count("literal forms in e_const", len(found))
    for i, want in enumerate(spec["literals"]):
        hits = [(j, f) for j, f in enumerate(found) if f["prefix"] == want["prefix"]]
        key = "C05.lit|%s" % (want["prefix"] or "decimal")
        if len(hits) != 1:
            rep.ob(key, False, "literal form with prefix %r: %d alternatives in e_const" % (want["prefix"], len(hits)))
            continue
        j, f = hits[0]
        ok = f["radix"] == want["radix"]
        rep.ob(key + "|radix", ok, "prefix %r is read with radix %d" % (want["prefix"], want["radix"]) if ok else
               "prefix %r is read with radix %s, expected %d" % (want["prefix"], f["radix"], want["radix"]))
        # digit class = exactly the radix' digits (both letter cases for hex), at least one digit
        wantset = set()
        for m in re.finditer(r"(.)-(.)|(.)", want["digits"]):
            if m.group(1):
                wantset |= {chr(c) for c in range(ord(m.group(1)), ord(m.group(2)) + 1)}
            else:
                wantset.add(m.group(3))
        got = None
        if f["class"] is not None:
            clsnode, lo = f["class"]
            got = g.lang(clsnode)
            okc = got == wantset and lo >= 1
        else:
            okc = False
        rep.ob(key + "|digits", okc, "digits of %r literals are [%s]+" % (want["prefix"], want["digits"]) if okc else
               "digit class of %r literals is %s (min repeat %s), expected [%s]+" % (want["prefix"], sorted(got) if got else None, f["class"][1] if f["class"] else None, want["digits"]))
    number_literal_types(P, len(spec["literals"]), rep, "C05.lit|checked-i64")
    # order: every prefixed alternative precedes the decimal one
    dec = [j for j, f in enumerate(found) if f["prefix"] == ""]
    if dec:
        late = [f["prefix"] for j, f in enumerate(found) if f["prefix"] and j > dec[0]]
        rep.ob("C05.lit|order", not late, "prefixed literal forms are tried before plain decimal" if not late else
               "the decimal alternative precedes %s: such literals would be read as decimal" % late)
    char_literal(P, g, rep, "C05.lit|char")


EVAL = re.compile(r"^expr::Expr::(run|get_byte|get_bit_index|get_words|get_double_words|get_quad_words)$|GetData>::get_\w+$|^instruction::InstructionOps::get_\w+$|^directive::Operand::get_\w+$")


def evaluation_consumers(P, rep, prefix):
    """an expression that cannot be evaluated (division by zero, overflow, unknown name, value out of range) fails whatever asked for its
    value: every call of the evaluator and of the conversions built on it has its Err inspected (`?` or a match) and the Err side leads to
    an Err of the caller — never to a default value (`unwrap_or`, `.ok()`, `if let Ok`) with which assembling goes on"""
    n = 0
    # the evaluator and the conversions built on it, by role rather than by name: methods of the expression, operand and instruction-operand
    # types that answer with a Result
    cg = P.callgraph()
    conv = set()
    for k in P.body:
        if re.match(r"^(expr::Expr|instruction::InstructionOps|directive::Operand)::[^:{]+$|GetData>::[^:{]+$", k) and "#promoted" not in k:
            rt = P.tys(k, P.body[k]["locals"][0]["ty"])
            if k == "expr::Expr::run" or (rt.startswith("std::result::Result<") and "failure::Error" in rt):
                conv.add(k)
    for k in sorted(P.body):
        if k.startswith("bin::") or "#promoted" in k:
            continue
        b = P.body[k]
        for bb, t, name, tg in P.call_sites(k):
            hit = [x for x in tg if EVAL.search(x) or x in conv]
            if not hit or b["blocks"][bb]["cleanup"]:
                continue
            n += 1
            r = MU.result_edges(b, bb)
            what = hit[0].split("::")[-1]
            if r is None:
                # handed whole to a helper of the repository that only rewrites the error (`at_line(expr.run(..), line)?` - the value of the
                # helper is `result.map_err(..)` of that very parameter), whose own result is then propagated with `?`
                wrapped = False
                chk = MU.Chaser(b)
                for bb2, t2, _, tg2 in P.call_sites(k):
                    for ai, a in enumerate(t2["args"]):
                        if chk.root(a, through_calls=False)[0] != t["dest"]["local"] or chk.root(a, through_calls=False)[1]:
                            continue
                        for g_ in tg2:
                            gb = P.body.get(g_)
                            if gb is None or "{closure" in g_:
                                continue
                            chg = MU.Chaser(gb)
                            is_wrapper = any(bl["term"]["k"] == "call" and MU.callee_names(bl["term"])[1] == "std::result::Result::<T, E>::map_err" and
                                             bl["term"]["dest"]["local"] == 0 and not bl["term"]["dest"]["proj"] and
                                             chg.root(bl["term"]["args"][0], through_calls=False)[0] == ai + 1 for bl in gb["blocks"])
                            r2 = MU.result_edges(b, bb2)
                            if is_wrapper and r2 is not None and r2["how"] == "?":
                                wrapped = True
                if wrapped:
                    rep.ob("%s|%s|%s" % (prefix, k, what), True, "%s hands the result of %s to a helper that rewrites the error only and propagates that with `?`" % (k.split("::")[-1], what), nontrivial=False)
                    continue
                # returned as it is (tail call) is fine: the caller's caller decides
                dest = t["dest"]["local"]
                tail = dest == 0 or any(st["k"] == "assign" and st["place"]["local"] == 0 and not st["place"]["proj"] and st["rv"]["k"] == "use" and
                                        (MU.op_place(st["rv"]["op"]) or {}).get("local") == dest for bl in b["blocks"] for st in bl["stmts"])
                rep.ob("%s|%s|%s" % (prefix, k, what), tail,
                       "%s returns the result of %s unchanged" % (k.split("::")[-1], what) if tail else
                       "%s does not inspect the result of %s with `?` or a match (it is defaulted or dropped): an expression that cannot be evaluated does not fail there, assembling goes on with a made-up value" % (k, what),
                       loc=loc_of(b["blocks"][bb]["tspan"]))
                continue
            if r["how"] == "?":
                rep.ob("%s|%s|%s" % (prefix, k, what), True, "%s propagates a failed %s with `?`" % (k.split("::")[-1], what), nontrivial=False)
                continue
            err = r.get("err")
            okb = r.get("ok")
            region = G.reach_blocks(b, err) if err is not None else set()
            builds_err = any(st["k"] == "assign" and st["rv"]["k"] == "agg" and st["rv"]["kind"].get("vname") == "Err" for x in region for st in b["blocks"][x]["stmts"]) or \
                any(b["blocks"][x]["term"]["k"] == "call" and "FromResidual" in MU.callee_names(b["blocks"][x]["term"])[1] for x in region)
            rejoins = okb is not None and okb in region
            good = err is not None and builds_err and not rejoins
            rep.ob("%s|%s|%s" % (prefix, k, what), good,
                   "in %s a failed %s ends in an error of its own" % (k.split("::")[-1], what) if good else
                   "in %s the failure side of %s %s: an expression that cannot be evaluated does not fail the build there" % (
                       k, what, "continues with the success side" if rejoins else "builds no error"),
                   loc=loc_of(b["blocks"][bb]["tspan"]))
    rep.floor("consumers of expression evaluation", n, 60)


def identifier_rule(P, rep):
    import rules_C10
    rules_C10.bound_identifier_errors(P, rep, "C05.eval|identifier|no-other-error")


def number_literal_types(P, nforms, rep, key):
    # every conversion from digits to the value is the checked i64 one (a wider or unsigned type followed by a cast would wrap values
    # beyond i64 into range instead of rejecting them), and the actions contain no integer cast at all
    convs = []
    casts = []
    for k in sorted(P.body):
        if not k.startswith("document::document::__parse_e_const::{closure"):
            continue
        b_ = P.body[k]
        for bb, t, n_, tg in P.call_sites(k):
            full, rp = MU.callee_names(t)
            if "from_str_radix" in rp or re.search(r"<impl str>::parse(::<.*>)?$", full) or "FromStr>::from_str" in rp:
                convs.append(full)
        for bl in b_["blocks"]:
            for st in bl["stmts"]:
                if st["k"] == "assign" and st["rv"]["k"] == "cast" and st["rv"]["kind"].startswith("IntToInt"):
                    casts.append("%s: as %s" % (k.rsplit("::", 1)[-1], P.tys(k, st["rv"]["ty"])))
    okt = len(convs) >= nforms and all(re.search(r"<impl i64>::from_str_radix$|<impl str>::parse::<i64>$", c) for c in convs) and not casts
    rep.ob(key, okt, "all %d number forms are converted with the checked i64 conversion (a value beyond 64 bits signed is a syntax error, never wrapped)" % len(convs) if okt else
           "a number form is not converted by the checked i64 conversion (%s%s): values beyond the signed 64-bit range wrap into range instead of being rejected" % (
               [c for c in convs if not re.search(r"<impl i64>::from_str_radix$|<impl str>::parse::<i64>$", c)][:2], (" casts: %s" % casts[:2]) if casts else ""))


def char_literal(P, g, rep, key):
    # char literal yields the code point: atom row `c:ch() { Expr::Const(c as i64) }`
    rows = g.prec_table("expr")
    chrow = [r2 for r2 in rows if r2["kind"] == "atom" and any(e[1] == ("call", "ch") for e in r2["elems"])]
    okch = len(chrow) == 1 and "Expr::Const" in peg.action_paths(chrow[0]["action"])[0] and "i64" in peg.action_paths(chrow[0]["action"])[0]
    # ... and in the compiled action the character is widened to the value, never narrowed on the way (c as u8 as i64 would keep one byte)
    narrow = []
    ncast = 0
    BITS = {"i8": 8, "u8": 8, "i16": 16, "u16": 16, "i32": 32, "u32": 32, "char": 32, "i64": 64, "u64": 64, "isize": 64, "usize": 64, "i128": 128, "u128": 128}
    for k, b in P.body.items():
        if not k.startswith("document::document::"):
            continue
        has_char_cast = False
        casts = []
        for bl in b["blocks"]:
            for st in bl["stmts"]:
                if st["k"] == "assign" and st["rv"]["k"] == "cast":
                    pl = MU.op_place(st["rv"]["op"])
                    src = P.tys(k, b["locals"][pl["local"]]["ty"]) if pl else "?"
                    dst = P.tys(k, st["rv"]["ty"])
                    casts.append((src, dst))
                    if src == "char":
                        has_char_cast = True
        if has_char_cast:
            for src, dst in casts:
                if src in BITS and dst in BITS:
                    ncast += 1
                    if BITS[dst] < 32:
                        narrow.append("%s as %s" % (src, dst))
    okch2 = okch and ncast >= 1 and not narrow
    rep.ob(key, okch2, "a character literal evaluates to its code point (c as i64, no narrowing cast in the compiled action)" if okch2 else
           ("the action of the character literal narrows the value (%s): code points above the narrow type's range lose their upper bits" % ", ".join(narrow) if narrow else
            "character literal row not of the form Expr::Const(c as i64)"))




# ------------------------------------------------------------------------------------------------ 2. evaluator
def evaluator(P, spec, rep):
    key = "expr::Expr::run"
    if key not in P.body:
        rep.unprovable("C05.eval|anchor", "Expr::run not found")
        return
    b = P.body[key]
    ret = P.tys(key, b["locals"][0]["ty"])
    rep.ob("C05.type|i64", "Result<i64," in ret.replace("std::result::", ""), "expressions are evaluated on i64 (%s)" % ret)
    M = absint.Machine(P, max_depth=4, opaque={"context::Context::get_expr"})
    M.inline_loopy_from_root = True
    # private helpers of the evaluator (the built-in functions split off, say) are read with it, loops and all
    M.inline_loopy = {k for k in P.reachable([key]) if k.startswith("expr::") and "{closure" not in k}
    paths = M.explore(key, M.arg_unknowns(key))
    rep.count("paths of Expr::run", len(paths))
    if M.capped or M.unsupported:
        rep.unprovable("C05.eval|explore", "exploration of Expr::run incomplete: %s" % M.unsupported[:3])
    lib = P.lib
    binv = {int(v["discr"]): v["name"] for v in lib.adts["expr::BinaryOperator"]["variants"]}
    unv = {int(v["discr"]): v["name"] for v in lib.adts["expr::UnaryOperator"]["variants"]}

    def sym_by_suffix(p, suffix):
        for s in p.state.doms:
            if isinstance(s, tuple) and s[0] == 's' and s[1].endswith(suffix):
                return s
        return None

    def opsym(p, which):
        for s, d in p.state.doms.items():
            if isinstance(s, tuple) and s[0] == 's' and s[1].endswith(".operator#d") and which in s[1] and sx.dom_size(d) == 1:
                return sx.dom_min(d)
        return None

    def collect(which, table):
        per = {}
        for p in paths:
            o = opsym(p, which)
            if o is None:
                continue
            per.setdefault(table[o], []).append(p)
        return per

    def operand_syms(plist, names):
        out = {}
        for p in plist:
            for e, t in list(p.conds) + ([(p.ret[3][0][1], True)] if p.exit == "Ok" and p.ret[0] == 'agg' and p.ret[3] and p.ret[3][0][0] == 'int' else []):
                for s in sx.syms(e):
                    for nm, suf in names.items():
                        if re.search(suf, s[1]):
                            out[nm] = s
        return out

    def evaluate_impl(plist, env_syms, env):
        """-> ('val', v, path) | ('err',) | ('none',) | ('ambiguous',)"""
        full = {}
        for nm, s in env_syms.items():
            full[s] = env[nm]
        hits = []
        for p in plist:
            ok = True
            for e, t in p.conds:
                ss = sx.syms(e)
                if not all(s in full or s[1].endswith("#d") for s in ss):
                    continue
                e2 = e
                if any(s not in full for s in ss):
                    continue
                try:
                    if bool(sx.evaluate(e2, full)) != t:
                        ok = False
                        break
                except sx.Unevaluable:
                    ok = False
                    break
            if ok:
                hits.append(p)
        # operand evaluation failures (Err of the recursive calls) are not operator behaviour: drop paths whose
        # recursive run() is on the Err side
        hits2 = []
        for p in hits:
            rec_err = False
            for s, d in p.state.doms.items():
                if isinstance(s, tuple) and s[0] == 's' and s[1].startswith("run") and "(self*" in s[1] and s[1].endswith("#d") and sx.dom_size(d) == 1 and sx.dom_min(d) == 1:
                    rec_err = True
            if not rec_err:
                hits2.append(p)
        oks = [p for p in hits2 if p.exit == "Ok"]
        errs = [p for p in hits2 if p.exit == "Err"]
        if len(oks) > 1 or (oks and errs):
            return ('ambiguous',)
        if oks:
            v = oks[0].ret[3][0]
            if v[0] != 'int':
                return ('none',)
            try:
                return ('val', sx.wrap(sx.evaluate(v[1], full), 64, True), oks[0])
            except (sx.Unevaluable, KeyError):
                return ('none',)
        if errs:
            return ('err',)
        return ('none',)

    def check_operator(kind, entry, plist, names):
        tok = entry["token"]
        keyb = "C05.eval|%s|%s" % (kind, entry["variant"])
        if not plist:
            rep.ob(keyb, False, "no path of Expr::run evaluates %s" % entry["variant"])
            return
        env_syms = operand_syms(plist, names)
        grid = []
        if kind == "binary":
            for l in GRID:
                for r in GRID:
                    grid.append({"l": l, "r": r})
        else:
            grid = [{"v": v} for v in GRID]
        bad = None
        n = 0
        for env in grid:
            if any(nm not in env_syms for nm in env):
                # operand not used at all by the implementation: constant result
                pass
            n += 1
            want = reference(entry, env)
            got = evaluate_impl(plist, {k: s for k, s in env_syms.items() if k in env}, env)
            if want[0] == 'either':
                if got[0] == 'err' or (got[0] == 'val' and got[1] == want[1]):
                    continue
                want = ('val', want[1])
            if want[0] == 'err':
                if got[0] == 'err':
                    continue
                if got[0] == 'val':
                    bad = ("`%s` must fail for %s but evaluates to %d" % (tok, fmt_env(env), got[1]), env)
                else:
                    bad = ("`%s` for %s yields neither a value nor an error (arithmetic overflow check: panics in debug builds, wraps in release)" % (tok, fmt_env(env)), env)
                break
            if got[0] == 'val':
                if got[1] != want[1]:
                    bad = ("%s evaluates to %d, the operator table says %d" % (fmt_expr(kind, tok, env), got[1], want[1]), env)
                    break
                continue
            if got[0] == 'err':
                bad = ("%s fails but the operator table defines the value %d" % (fmt_expr(kind, tok, env), want[1]), env)
            else:
                bad = ("%s yields neither a value nor an error (%s)" % (fmt_expr(kind, tok, env), got[0]), env)
            break
        # the value is one primitive operation on the operands (plus a bool->i64 cast): with that shape fixed, the boundary
        # grid separates every pair of distinct primitives, so grid agreement pins the operator exactly
        if bad is None:
            for p in plist:
                if p.exit == "Ok" and p.ret[3][0][0] == 'int' and nodes(p.ret[3][0][1]) > 3:
                    bad = ("value of `%s` is a compound expression (%s): agreement on the grid is not a proof" % (tok, sx.show(p.ret[3][0][1])), None)
                    unprov = True
        # strict evaluation: a value is produced only after every operand was evaluated successfully (an error in an operand — division
        # by zero, overflow, unknown name — fails the expression whatever the other operand is)
        if bad is None:
            for p in plist:
                if p.exit != "Ok":
                    continue
                done = set()
                for s_, d_ in p.state.doms.items():
                    if isinstance(s_, tuple) and s_[0] == 's' and s_[1].endswith("#d") and sx.dom_size(d_) == 1 and sx.dom_min(d_) == 0:
                        for nm, suf in names.items():
                            if re.search(suf.replace(r":Ok\.0$", r"#d$"), s_[1]):
                                done.add(nm)
                missing_ = sorted(set(names) - done)
                if missing_:
                    which = {"l": "left", "r": "right", "v": "its"}[missing_[0]]
                    bad = ("`%s` can yield a value without evaluating %s operand (short-circuit): an error in that operand is swallowed" % (tok, which), None)
                    break
        # no Ok path may carry an unguarded overflow assert
        panicky = sorted({e[1] for p in plist if p.exit == "Ok" for e in p.events if e[0] == 'may-panic'})
        if bad is None and panicky:
            bad = ("`%s` has a success path guarded only by a compiler overflow check (%s)" % (tok, ", ".join(panicky)), None)
        rep.ob(keyb, bad is None, "%s %s agrees with the operator table on %d boundary operand tuples (value and failure)" % (kind, tok, n) if bad is None else bad[0],
               detail=None if bad is None else {"operands": bad[1]},
               sample={"operator": tok, "variant": entry["variant"], "reference": entry["value"], "error when": entry.get("error"), "tuples": n,
                       "implementation": [M.describe(p.state, p.ret[3][0]) for p in plist if p.exit == "Ok"][:2]} if bad is None else None)

    perb = collect(":Binary", binv)
    for e in spec["binary"]:
        check_operator("binary", e, perb.get(e["variant"], []), {"l": r"\.left, .*:Ok\.0$", "r": r"\.right, .*:Ok\.0$"})
    peru = collect(":Unary", unv)
    for e in spec["unary"]:
        check_operator("unary", e, peru.get(e["variant"], []), {"v": r"\.expr, .*:Ok\.0$"})
    # every enum variant is in the table
    for name in binv.values():
        if name not in {e["variant"] for e in spec["binary"]}:
            rep.unprovable("C05.eval|binary|%s" % name, "BinaryOperator::%s is not in the reference table" % name)
    # ---- functions
    import summaries as SM
    fpaths = [p for p in paths if any(isinstance(s, tuple) and s[0] == 's' and s[1].endswith("#str") for s in p.state.doms)]
    lowered = all(s[1].startswith("lower(") for p in fpaths for s in p.state.doms if isinstance(s, tuple) and s[0] == 's' and s[1].endswith("#str"))
    rep.ob("C05.func|case", bool(fpaths) and lowered, "function names are compared after to_lowercase()" if fpaths and lowered else
           "function names are not lower-cased before comparison")
    ids = {v: k for k, v in SM.STR_IDS.items()}
    for fname, fs in spec["functions"].items():
        cands = []
        for p in fpaths:
            for s, d in p.state.doms.items():
                if isinstance(s, tuple) and s[0] == 's' and s[1].endswith("#str") and sx.dom_size(d) == 1 and ids.get(sx.dom_min(d)) == fname:
                    cands.append(p)
        oks = [p for p in cands if p.exit == "Ok"]
        keyf = "C05.func|%s" % fname
        if not cands:
            rep.ob(keyf, False, "function %s() is not recognised by the evaluator" % fname)
            continue
        vsym = None
        for p in cands:
            for s in p.state.doms:
                if isinstance(s, tuple) and s[0] == 's' and (("(self*:Func.1*," in s[1]) and s[1].endswith(":Ok.0") and s[1].startswith("run")):
                    vsym = s
        if "width" in fs:
            if len(oks) != 1 or oks[0].ret[3][0][0] != 'int' or vsym is None:
                rep.unprovable(keyf, "%s(): %d success paths; value not readable" % (fname, len(oks)))
                continue
            e = oks[0].ret[3][0][1]
            bits = sx.bits_of(e)
            want = [('b', vsym, fs["shift"] + i) if i < fs["width"] else 0 for i in range(64)]
            ok = bits == want
            wrong = None
            if not ok:
                for i in range(64):
                    if bits[i] != want[i]:
                        wrong = (i, bits[i], want[i])
                        break
            panicky = [e2[1] for e2 in oks[0].events if e2[0] == 'may-panic']
            rep.ob(keyf, ok and not panicky, "%s(v) = bits %d..%d of v (bit provenance, exact)" % (fname, fs["shift"] + fs["width"] - 1, fs["shift"]) if ok and not panicky else
                   "%s(v): result bit %s is %s, expected %s" % ((fname,) + tuple(map(str, wrong))) if wrong else "%s(v) has an unguarded overflow check %s" % (fname, panicky),
                   sample={"function": fname, "bits": "%d..%d" % (fs["shift"] + fs["width"] - 1, fs["shift"])} if ok else None)
        elif fs.get("pow2"):
            bad = None
            for n in [-(1 << 63), -2, -1, 0, 1, 2, 31, 32, 61, 62, 63, 64, 65, 127, 128, 1 << 31, (1 << 63) - 1]:
                want = ('val', 1 << n) if fs["lo"] <= n <= fs["hi"] else ('err',)
                got = evaluate_impl(cands, {"v": vsym} if vsym else {}, {"v": n})
                if want[0] == 'err' and got[0] != 'err':
                    bad = "exp2(%d) must fail but %s" % (n, "evaluates to %d" % got[1] if got[0] == 'val' else "yields neither a value nor an error (overflow check: panics in debug, wraps in release)")
                    break
                if want[0] == 'val' and (got[0] != 'val' or got[1] != want[1]):
                    bad = "exp2(%d) should be %d, got %s" % (n, want[1], got[:2])
                    break
            rep.ob(keyf, bad is None, "exp2(n) = 2^n for %d <= n <= %d and fails otherwise" % (fs["lo"], fs["hi"]) if bad is None else bad)
    # unbound identifier -> Err (C10 shares this clause)
    idp = [p for p in paths if any(isinstance(s, tuple) and s[0] == 's' and s[1] == "self*#d" and sx.dom_size(d) == 1 and sx.dom_min(d) == 0 for s, d in p.state.doms.items())]
    none_ok = [p for p in idp if p.exit == "Ok" and any(isinstance(s, tuple) and s[1].startswith("get_expr(") and s[1].endswith("#d") and sx.dom_min(d) == 0 and sx.dom_size(d) == 1 for s, d in p.state.doms.items())]
    rep.ob("C05.ident|unbound", bool(idp) and not none_ok, "an unbound identifier evaluates to an error, never to a value" if idp and not none_ok else
           "an identifier with no binding can evaluate successfully")


def nodes(e):
    k = e[0]
    if k in ('c', 's'):
        return 0
    if k in ('bin', 'ovf'):
        return 1 + nodes(e[2]) + nodes(e[3])
    if k == 'un':
        return 1 + nodes(e[2])
    if k == 'cast':
        return 1 + nodes(e[1])
    if k == 'cmp':
        return 1 + nodes(e[2]) + nodes(e[3])
    if k == 'fn':
        return 1 + sum(nodes(a) for a in e[2])
    return 1


def fmt_env(env):
    return ", ".join("%s = %d" % (k, v) for k, v in sorted(env.items()))


def fmt_expr(kind, tok, env):
    if kind == "binary":
        return "`%d %s %d`" % (env["l"], tok, env["r"])
    return "`%s%d`" % (tok, env["v"])
