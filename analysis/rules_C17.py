"""C17 — builds are deterministic and independent of each other.

Whole-program absence rules over the resolved MIR of both crates (DESIGN.md §4 C17):
  R1  no mutable global: every static is non-mut, not thread-local, and either Freeze or a
      LazyLock/OnceLock whose payload has no interior mutability and whose initialiser reads nothing ambient;
  R2  fresh state per build: build_str / build_file take no shared handle, construct their own CommonContext,
      and the constructors of both context types build every field from fresh cells or parameters;
  R3  no order-dependent output: no HashMap/HashSet iteration in reachable code, and no value whose type contains
      one is handed to a fmt::Argument constructor;
  R4  no ambient input: deny-list of resolved callees (clock, randomness, environment, thread identity, pointer formatting).
Each zero-count rule is re-run on a positive-control fixture crate which must make it fire.
"""
import os
import re

import facts as F
import mirutil as MU
import graph as G
from common import Reporter, loc_of

API_ROOTS = ["builder::build_str", "builder::build_file", "parser::parse_str", "parser::parse_file", "parser::parse",
             "parser::parse_iter", "parser::parse_file_internal", "writer::write_code_hex", "writer::write_eeprom_hex",
             "instruction::process", "bin::main"]

INTERIOR = ("std::cell::", "std::sync::Mutex", "std::sync::RwLock", "std::sync::atomic::", "std::sync::OnceLock",
            "std::sync::LazyLock", "std::sync::Condvar", "std::sync::mpsc", "std::sync::Once", "std::thread::LocalKey",
            "core::cell::", "core::sync::atomic::")
LAZY = ("std::sync::LazyLock", "std::sync::OnceLock", "std::cell::LazyCell", "std::cell::OnceCell")

HASH_ITER = re.compile(
    r"std::collections::(HashMap|HashSet)::<.*?>::(iter|iter_mut|keys|values|values_mut|into_keys|into_values|drain|retain|extract_if)$"
    r"|std::collections::hash_map::|std::collections::hash_set::")
AMBIENT = [
    (re.compile(r"std::time::(SystemTime|Instant)::now"), "clock"),
    (re.compile(r"\brand(_core|om)?::"), "randomness"),
    (re.compile(r"std::thread::current|std::thread::ThreadId|std::process::id"), "thread/process identity"),
    (re.compile(r"std::env::(var|vars|var_os|vars_os|set_var|remove_var|set_current_dir|args|args_os|temp_dir|home_dir)\b"), "environment"),
    (re.compile(r"std::hash::RandomState::new|DefaultHasher"), "per-process hash seed read directly"),
    (re.compile(r"std::thread::LocalKey"), "thread-local state"),
    (re.compile(r"new_pointer"), "pointer formatting"),
]
# reads that are allowed, with the reason
AMBIENT_ALLOWED = {
    "std::env::current_dir": "parse_str seeds relative include paths with the process CWD (same inputs => same CWD)",
    "dirs::config_dir": "CLI only: location of the standard include directory",
}


def type_contains(cr, ix, pred, adts, seen=None, depth=0, local_only=False):
    """Does the type (through refs, generic arguments and fields of ADTs whose fields were dumped) contain an ADT for which pred(path)?"""
    if seen is None:
        seen = set()
    if ix in seen or depth > 40:
        return None
    seen.add(ix)
    t = cr.types[ix]
    k = t["k"]
    if k == "adt":
        if pred(t["path"]):
            return t["path"]
        for a in t["args"]:
            r = type_contains(cr, a, pred, adts, seen, depth + 1, local_only)
            if r:
                return r
        ad = adts.get(t["path"])
        if ad and (ad["local"] or not local_only):
            for v in ad["variants"]:
                for f in v["fields"]:
                    r = type_contains(cr, f["ty"], pred, adts, seen, depth + 1, local_only)
                    if r:
                        return r
        return None
    if k in ("ref", "ptr"):
        return type_contains(cr, t["to"], pred, adts, seen, depth + 1, local_only)
    if k in ("slice", "array"):
        return type_contains(cr, t["of"], pred, adts, seen, depth + 1, local_only)
    if k == "tuple":
        for a in t["of"]:
            r = type_contains(cr, a, pred, adts, seen, depth + 1, local_only)
            if r:
                return r
    return None


def callee_name(t):
    c = t["callee"]
    return c.get("rfull") or c.get("full") or "", c.get("rpath") or c.get("path") or ""


def unordered_chain(P, k, b, term):
    """A hash container's iterator that only runs through adaptors whose closures capture nothing (map, filter, cloned, copied) into a
    collect()/from_iter() that builds a keyed or sorted container (HashMap, HashSet, BTreeMap, BTreeSet): the order of the visit cannot
    reach any output.  -> the blocks of the chain, or None"""
    cr = P.crate_of[k]
    if term.get("dest") is None or term["dest"].get("proj") or term.get("target") is None:
        return None
    tracked = {term["dest"]["local"]}
    cur = term["target"]
    blocks = []
    for _ in range(8):
        bl = b["blocks"][cur]
        for st in bl["stmts"]:
            if st["k"] == "assign" and st["rv"]["k"] == "use" and not st["place"]["proj"]:
                o = st["rv"]["op"] if "op" in st["rv"] else st["rv"].get("o")
                pl = o.get("move") or o.get("copy") if isinstance(o, dict) else None
                if pl and not pl["proj"] and pl["local"] in tracked:
                    tracked.add(st["place"]["local"])
        t = bl["term"]
        if t["k"] != "call" or not t["args"]:
            return None
        a0 = t["args"][0].get("move") or t["args"][0].get("copy")
        if not a0 or a0["proj"] or a0["local"] not in tracked:
            return None
        full, rp = callee_name(t)
        blocks.append(cur)
        if re.search(r"Iterator>?::(map|filter|cloned|copied)$", rp):
            def captures_nothing(a):
                if "const" in a:
                    return True
                pl = a.get("move") or a.get("copy")
                for st in bl["stmts"]:
                    if st["k"] == "assign" and st["place"] == {"local": pl["local"], "proj": []} and st["rv"]["k"] == "agg" \
                            and st["rv"]["kind"].get("k") == "closure" and not st["rv"]["ops"] and bool(pl) and not pl["proj"]:
                        # ... and writes nothing anywhere: no I/O and no shared cell below it
                        ck = st["rv"]["kind"].get("path")
                        if ck not in P.body:
                            return False
                        for k2 in P.reachable([ck]):
                            for _, t2, _, _ in P.call_sites(k2):
                                n2 = callee_name(t2)[1]
                                if re.search(r"^std::io::|_print$|^std::fs::|Cell::<T>::set$|RefCell::<T>::borrow_mut$|^std::env::", n2):
                                    return False
                        return True
                return False
            if not all(captures_nothing(a) for a in t["args"][1:]):
                return None             # a closure that captures something
            if t.get("dest") is None or t["dest"].get("proj") or t.get("target") is None:
                return None
            tracked.add(t["dest"]["local"])
            cur = t["target"]
            continue
        if "::collect" in rp or "from_iter" in rp:
            for g in t["callee"].get("rgenerics", []) + t["callee"].get("generics", []):
                if re.match(r"^std::collections::(HashMap|HashSet|BTreeMap|BTreeSet)<", cr.types[g]["s"]):
                    return blocks
            return None
        return None
    return None


def rules_on(P, rep, tag="", roots=None, fixture=False):
    """Run R1..R4 on a Program; returns dict rule -> number of violating instances (used by the positive control)."""
    fired = {"R1": 0, "R3": 0, "R4": 0}
    roots = roots or API_ROOTS
    reach = P.reachable(roots)
    if not fixture:
        rep.count("bodies reachable from the API roots", len(reach))
        rep.count("bodies total (lib+bin)", len(P.body))

    # ---- R1 statics ------------------------------------------------------------------------------
    nstat = 0
    for cr, pre in ((P.lib, ""), (P.bin, "bin::")):
        for st in cr.statics:
            nstat += 1
            t = cr.types[st["ty"]]
            key = "C17.static|%s%s" % (pre, st["path"])
            why = None
            if st["mut"]:
                why = "static mut"
            elif st["thread_local"]:
                why = "thread-local static"
            elif not st["freeze"]:
                if t["k"] == "adt" and t["path"].startswith(LAZY):
                    inner = None
                    for a in t["args"][:1]:
                        inner = type_contains(cr, a, lambda p: p.startswith(INTERIOR), cr.adts)
                    if inner:
                        why = "lazily initialised static whose payload contains interior mutability (%s)" % inner
                else:
                    why = "static of non-Freeze type %s (interior mutability)" % t["s"]
            ok = why is None
            if not ok:
                fired["R1"] += 1
            if not fixture:
                rep.ob(key, ok, why or "static %s is immutable (type %s)" % (st["path"], t["s"]), loc=loc_of(st["span"]),
                       detail={"type": t["s"], "freeze": st["freeze"]})
            # the initialiser must not read ambient state
            init_roots = [k for k in P.body if k == pre + st["path"] or k.startswith(pre + st["path"] + "::")]
            for k in P.reachable(init_roots):
                for bb, term, name, targets in P.call_sites(k):
                    full, rp = callee_name(term)
                    for rx, what in AMBIENT:
                        if rx.search(full) or rx.search(rp):
                            fired["R1"] += 1
                            if not fixture:
                                rep.ob("C17.static-init|%s|%s" % (st["path"], rp), False,
                                       "initialiser of static %s reads %s (%s)" % (st["path"], what, full),
                                       loc=loc_of(P.body[k]["blocks"][bb]["tspan"]))
    if not fixture:
        rep.count("statics (both crates)", nstat)

    # ---- R3/R4 over reachable bodies ------------------------------------------------------------
    ncalls = 0
    nfmt = 0
    for k in sorted(reach):
        b = P.body[k]
        cr = P.crate_of[k]
        cleared = set()
        for bb, term, name, targets in P.call_sites(k):
            full, rp = callee_name(term)
            if re.search(r"std::collections::(HashMap|HashSet)::<.*?>::(iter|keys|values)$", rp):
                chain = unordered_chain(P, k, b, term)
                if chain is not None:
                    cleared.add(bb)
                    cleared.update(chain)
                    if not fixture:
                        rep.ob("C17.hash-iter-unordered|%s" % k, True, "a hash container is visited in %s only to build another keyed container through closures that capture nothing: the order of the visit reaches no output" % k.split("::")[-1], loc=loc_of(b["blocks"][bb]["tspan"]))
        for bb, term, name, targets in P.call_sites(k):
            ncalls += 1
            full, rp = callee_name(term)
            loc = loc_of(b["blocks"][bb]["tspan"])
            if bb in cleared:
                continue
            # R3a: iteration over a hash container
            m = HASH_ITER.search(rp) or HASH_ITER.search(full)
            into_iter_hash = False
            if rp.endswith("IntoIterator>::into_iter") or rp.endswith("::extend") or rp.endswith("FromIterator<T>>::from_iter") or "::collect" in rp:
                for g in term["callee"].get("rgenerics", []) + term["callee"].get("generics", []):
                    ts = cr.types[g]["s"]
                    if re.match(r"^&?(mut )?std::collections::(HashMap|HashSet)<", ts) or "hash_map::" in ts or "hash_set::" in ts:
                        # extend/collect *into* a hash container is order independent; only sources matter
                        if rp.endswith("::extend") or "from_iter" in rp or "::collect" in rp:
                            continue
                        into_iter_hash = True
            if m or into_iter_hash:
                fired["R3"] += 1
                if not fixture:
                    rep.ob("C17.hash-iter|%s|%s" % (k, rp), False,
                           "iteration over a HashMap/HashSet (%s) — order differs between processes" % full, loc=loc)
            # R3b: a value containing a hash container is formatted
            if "fmt::rt::Argument" in rp:
                nfmt += 1
                for g in term["callee"].get("generics", []):
                    hit = type_contains(cr, g, lambda p: p in ("std::collections::HashMap", "std::collections::HashSet"), cr.adts)
                    if hit:
                        fired["R3"] += 1
                        if not fixture:
                            rep.ob("C17.hash-fmt|%s|%s" % (k, cr.types[g]["s"]), False,
                                   "a value of type %s (contains %s) is formatted into text" % (cr.types[g]["s"], hit), loc=loc)
            # derived Debug of a local type reaching <HashMap as Debug>::fmt
            if re.search(r"<std::collections::(HashMap|HashSet)<.*> as std::fmt::Debug>::fmt", full):
                fired["R3"] += 1
                if not fixture:
                    rep.ob("C17.hash-fmt|%s|debug" % k, False, "reachable Debug formatting of a hash container (%s)" % full, loc=loc)
            # R4: ambient inputs
            allowed = None
            for a, why in AMBIENT_ALLOWED.items():
                if rp == a or full == a:
                    allowed = why
            if allowed:
                if not fixture:
                    rep.ob("C17.ambient-allowed|%s|%s" % (k, rp), True, "allowed ambient read %s: %s" % (rp, allowed), loc=loc)
                continue
            for rx, what in AMBIENT:
                if rx.search(full) or rx.search(rp):
                    fired["R4"] += 1
                    if not fixture:
                        rep.ob("C17.ambient|%s|%s" % (k, rp), False, "ambient input (%s): %s" % (what, full), loc=loc)
    if not fixture:
        rep.count("call sites scanned in reachable bodies", ncalls)
        rep.count("fmt::Argument constructors type-walked", nfmt)
        rep.ob("C17.no-hash-iter", fired["R3"] == 0, "no HashMap/HashSet iteration or formatting in %d reachable bodies (%d call sites)" % (len(reach), ncalls),
               nontrivial=True)
        rep.ob("C17.no-ambient", fired["R4"] == 0, "no clock/random/env/thread-id read in reachable code (%d call sites)" % ncalls)
    return fired


def fresh_state(P, rep):
    lib = P.lib
    # R2a signatures of the build entry points
    for fn in ("builder::build_str", "builder::build_file"):
        b = P.body.get(fn)
        if b is None:
            rep.unprovable("C17.fresh|%s|anchor" % fn, "public entry point %s not found" % fn)
            continue
        shared = None
        for i in range(0, b["arg_count"] + 1):
            hit = type_contains(lib, b["locals"][i]["ty"], lambda p: p.startswith(("std::rc::", "std::sync::Arc", "std::cell::", "context::", "parser::ParseContext")), lib.adts, local_only=True)
            if hit:
                shared = (i, hit)
        rep.ob("C17.fresh|%s|signature" % fn, shared is None,
               "%s neither takes nor returns a shared handle (Rc/RefCell/context)" % fn if shared is None else
               "%s passes a shared handle across the call boundary: local _%d contains %s" % ((fn,) + shared))
        ctor = [t for _, t, n, tg in P.call_sites(fn) if "context::CommonContext::new" in tg]
        rep.ob("C17.fresh|%s|own-context" % fn, len(ctor) == 1,
               "%s constructs its own CommonContext (calls CommonContext::new exactly once: %d)" % (fn, len(ctor)))
        # the context handed to the parser and to build_from_parsed is a reference to that local
        if ctor:
            dest = ctor[0]["dest"]["local"]
            users = []
            for _, t, n, tg in P.call_sites(fn):
                if any(x in ("parser::parse_str", "parser::parse_file", "builder::build_from_parsed") for x in tg):
                    users.append((tg[0], t))
            okflow = True
            ch = MU.Chaser(b)
            for name, t in users:
                root, proj, _ = ch.root(t["args"][-1])
                if root != dest:
                    okflow = False
            rep.ob("C17.fresh|%s|context-flow" % fn, okflow and len(users) == 2,
                   "the context given to the parser and to the passes is the one constructed in this call (%d users)" % len(users))
    # R2b constructors: every field operand of the aggregate is defined by a constructor call / constant / parameter in the same body
    SHARED = re.compile(r"(as std::clone::Clone>::clone|std::clone::Clone::clone|LazyLock|OnceLock|thread::LocalKey|::borrow(_mut)?$|as std::ops::Deref(Mut)?>::deref)")
    for fn, adt in (("context::CommonContext::new", "context::CommonContext"), ("parser::ParseContext::new", "parser::ParseContext")):
        b = P.body.get(fn)
        if b is None:
            rep.unprovable("C17.fresh|%s|anchor" % fn, "constructor %s not found" % fn)
            continue
        defs = {}
        for bi, bl in enumerate(b["blocks"]):
            for st in bl["stmts"]:
                if st["k"] == "assign" and not st["place"]["proj"]:
                    defs.setdefault(st["place"]["local"], []).append(("stmt", st["rv"]))
            t = bl["term"]
            if t["k"] == "call" and not t["dest"]["proj"]:
                defs.setdefault(t["dest"]["local"], []).append(("call", t))
        agg = None
        for bl in b["blocks"]:
            for st in bl["stmts"]:
                if st["k"] == "assign" and st["rv"]["k"] == "agg" and st["rv"]["kind"].get("path") == adt:
                    agg = st["rv"]
        if agg is None:
            rep.unprovable("C17.fresh|%s|aggregate" % fn, "no %s aggregate found in its constructor" % adt)
            continue
        fields = lib.adts[adt]["variants"][0]["fields"]
        for fi, o in enumerate(agg["ops"]):
            bad = []

            def walk(o, depth=0):
                if depth > 12:
                    bad.append("slice too deep")
                    return
                if "const" in o:
                    if "static" in o["const"]:
                        bad.append("reads static %s" % o["const"]["static"])
                    return
                pl = o.get("move") or o.get("copy")
                l = pl["local"]
                if 1 <= l <= b["arg_count"]:
                    return   # a parameter: supplied per call
                for kind, d in defs.get(l, []):
                    if kind == "call":
                        full, rp = callee_name(d)
                        if SHARED.search(full) or SHARED.search(rp):
                            bad.append("comes from %s (an existing object, not a fresh one)" % full)
                        for a in d["args"]:
                            walk(a, depth + 1)
                    else:
                        rv = d
                        if rv["k"] == "use":
                            walk(rv["op"], depth + 1)
                        elif rv["k"] == "agg":
                            for a in rv["ops"]:
                                walk(a, depth + 1)
                        elif rv["k"] in ("ref", "addr"):
                            walk({"copy": rv["place"]}, depth + 1)
                        elif rv["k"] == "cast":
                            walk(rv["op"], depth + 1)
                        elif rv["k"] == "otherrv":
                            pass   # ShallowInitBox etc. (vec! lowering): fresh allocation
                        else:
                            bad.append("unrecognised definition %s" % rv["k"])
                if l not in defs:
                    bad.append("local _%d has no definition in the constructor" % l)

            walk(o)
            rep.ob("C17.fresh|%s|field=%s" % (fn, fields[fi]["name"]), not bad,
                   "field %s of %s is built from fresh cells / parameters" % (fields[fi]["name"], adt) if not bad else
                   "field %s of %s is not freshly constructed: %s" % (fields[fi]["name"], adt, "; ".join(bad)),
                   detail={"slice": bad})


def run(tier):
    rep = Reporter("C17", tier, "other", "whole-program absence rules over resolved MIR (statics, constructors, hash iteration, ambient reads)")
    rep.explanation = ("Decides, from the MIR of both crates, that no state can survive a build or leak an unordered/ambient value into "
                       "its result: every static is immutable and Freeze (or a LazyLock of an interior-mutability-free payload), the build "
                       "entry points construct their own contexts from fresh cells, no HashMap/HashSet is iterated or formatted in code "
                       "reachable from the API, and no clock/random/env/thread-id callee is reachable. With no shared mutable state and "
                       "Rc-based (!Send) contexts, sequential and concurrent builds cannot observe each other. Not decided: behaviour of "
                       "dependencies' own globals (failure's RUST_BACKTRACE probe affects only Debug output of errors).")
    rep.assumptions = ["dependencies keep no build-visible global state (peg-runtime's ExpectedSet is a BTreeSet: checked by type walk)",
                       "the file system and CWD are part of the inputs"]
    facts = F.load("dev")
    P = G.Program(facts)
    rules_on(P, rep)
    fresh_state(P, rep)
    rep.floor("bodies reachable from the API roots", rep.analysed.get("bodies reachable from the API roots", 0), 230)
    rep.floor("call sites scanned in reachable bodies", rep.analysed.get("call sites scanned in reachable bodies", 0), 2500)
    # positive control: the same rules must fire on the fixture crate
    import fixtures
    fx = fixtures.load("c17")
    if fx is None:
        rep.unprovable("C17.control", "positive-control fixture could not be analysed")
    else:
        fired = rules_on(fx, rep, fixture=True, roots=["build"])
        for r in ("R1", "R3", "R4"):
            rep.ob("C17.control|%s" % r, fired[r] > 0, "positive control: rule %s fires on the fixture crate (%d instance(s))" % (r, fired[r]),
                   nontrivial=False)
    return rep
