"""E4 — "always a lower-cased string" analysis (typestate on symbol-table keys, macro names, keyword lookups).

Greatest-fixpoint, flow-insensitive, field-sensitive:  Norm(x) holds iff every way x can be defined is Norm:
  * result of str::to_lowercase / to_ascii_lowercase, or a string literal equal to its own lower-casing;
  * a copy / reborrow / clone / to_string / deref / as_str of a Norm value;
  * a pattern read  (.. as V).i  of an enum/struct field: Norm iff every aggregate construction of that (ADT, variant, field)
    anywhere in the program puts a Norm value there  (abstract field);
  * a parameter: Norm iff the argument is Norm at every call site of the function (virtual calls -> every call of the trait method).
Anything else (parsed text, format! output, file names, ...) is not Norm."""
import mirutil as MU

LOWER = ("std::str::<impl str>::to_lowercase", "std::str::<impl str>::to_ascii_lowercase", "core::str::<impl str>::to_ascii_lowercase",
         "std::string::String::to_lowercase")
# calls that return (a view of / a copy of) their first argument's string content
PASS = ("<std::string::String as std::clone::Clone>::clone", "<str as std::string::ToString>::to_string", "std::string::String::as_str",
        "<std::string::String as std::ops::Deref>::deref", "<std::string::String as std::convert::From<&str>>::from",
        "<str as std::borrow::ToOwned>::to_owned", "std::borrow::ToOwned::to_owned", "<std::string::String as std::convert::AsRef<str>>::as_ref",
        "std::clone::Clone::clone", "<&T as std::clone::Clone>::clone", "std::convert::Into::into", "<T as std::convert::Into<U>>::into",
        "<std::string::String as std::borrow::Borrow<str>>::borrow", "<T as std::borrow::Borrow<T>>::borrow", "core::str::<impl str>::trim",
        "<T as std::convert::From<T>>::from", "<std::string::String as std::string::ToString>::to_string", "<T as std::string::ToString>::to_string", "<std::string::String as std::convert::From<&std::string::String>>::from")


class Norm:
    def __init__(self, P):
        self.P = P
        self.memo = {}
        self.why = {}
        self._agg_index = None
        self._callers = None
        self._chasers = {}

    # ---- indexes
    def chaser(self, key):
        if key not in self._chasers:
            self._chasers[key] = MU.Chaser(self.P.body[key], transparent=())
        return self._chasers[key]

    def agg_index(self):
        """(adt path, variant name, field index) -> [(body key, operand)]"""
        if self._agg_index is None:
            ix = {}
            for k, b in self.P.body.items():
                for bl in b["blocks"]:
                    for st in bl["stmts"]:
                        if st["k"] == "assign" and st["rv"]["k"] == "agg" and st["rv"]["kind"]["k"] == "adt":
                            kd = st["rv"]["kind"]
                            path = kd["path"].replace("avra_lib::", "")
                            for i, o in enumerate(st["rv"]["ops"]):
                                ix.setdefault((path, kd["vname"], i), []).append((k, o, st["span"]))
            self._agg_index = ix
        return self._agg_index

    def callers(self):
        """callee body key -> [(caller key, call terminator)] ; virtual/default methods keyed by every possible target"""
        if self._callers is None:
            cs = {}
            for k in self.P.body:
                for bb, t, name, targets in self.P.call_sites(k):
                    real = []
                    c = t["callee"]
                    if c.get("rkind") == "virtual":
                        tm = c.get("rpath") or c.get("path")
                        real = list(self.P.trait_impls.get(tm, []))
                        k2 = self.P.norm_path(k, tm)
                        if k2:
                            real.append(k2)
                    elif c.get("rkind") == "unresolved":
                        tm = c.get("path")
                        real = list(self.P.trait_impls.get(tm, []))
                        k2 = self.P.norm_path(k, tm)
                        if k2:
                            real.append(k2)
                    else:
                        k2 = self.P.norm_path(k, c.get("rpath"))
                        if k2:
                            real.append(k2)
                    for r in real:
                        cs.setdefault(r, []).append((k, t))
            self._callers = cs
        return self._callers

    # ---- types along a place
    def place_adts(self, key, place):
        """for each downcast/field step: the ADT path the step applies to (None for tuples etc.)"""
        cr = self.P.crate_of[key]
        b = self.P.body[key]
        t = cr.types[b["locals"][place["local"]]["ty"]]
        out = []
        cur_variant = 0
        cur_vname = None
        for e in place["proj"]:
            k = e["k"]
            if k == "deref":
                if t["k"] in ("ref", "ptr"):
                    t = cr.types[t["to"]]
                elif t["k"] == "adt" and t["path"].startswith("std::boxed::Box") and t["args"]:
                    t = cr.types[t["args"][0]]
                out.append(None)
            elif k == "downcast":
                cur_variant = e["v"]
                cur_vname = e["name"]
                out.append((t.get("path"), e["name"]) if t["k"] == "adt" else None)
            elif k == "field":
                if t["k"] == "adt":
                    path = t["path"].replace("avra_lib::", "")
                    ad = cr.adts.get(t["path"])
                    vname = cur_vname
                    if vname is None and ad and ad["variants"]:
                        vname = ad["variants"][0]["name"]
                    out.append(("field", path, vname, e["i"]))
                elif t["k"] == "tuple":
                    out.append(("tuple", e["i"]))
                else:
                    out.append(None)
                t = cr.types[e["ty"]]
                cur_variant = 0
                cur_vname = None
            else:
                out.append(None)
        return out

    # ---- the predicate
    def operand(self, key, o, depth=0):
        """Norm of an operand in body `key`; returns (bool, reason)"""
        if "const" in o:
            c = o["const"]
            if "str" in c:
                ok = c["str"] == c["str"].lower()
                return ok, "literal %r" % c["str"]
            return False, "non-string constant"
        pl = o.get("move") or o.get("copy")
        return self.place(key, pl, depth)

    def place(self, key, pl, depth=0):
        mk = (key, pl["local"], tuple((e["k"], e.get("i"), e.get("v")) for e in pl["proj"]))
        if mk in self.memo:
            v = self.memo[mk]
            return (True, "assumed (cycle)") if v is None else v
        if depth > 60:
            return False, "analysis depth exceeded"
        self.memo[mk] = None
        res = self._place(key, pl, depth)
        self.memo[mk] = res
        return res

    def _place(self, key, pl, depth):
        b = self.P.body[key]
        # 1. abstract field: the last field step on a local ADT decides
        steps = self.place_adts(key, pl)
        fields = [(i, s) for i, s in enumerate(steps) if s and s[0] == "field"]
        if fields:
            i, (_, path, vname, fi) = fields[-1]
            if not path.startswith("std::") and not path.startswith("core::"):
                # anything after the field step must be deref only
                if all(e["k"] == "deref" for e in pl["proj"][i + 1:]):
                    return self.field(path, vname, fi, depth)
        # 2. chase the local
        local = pl["local"]
        if 1 <= local <= b["arg_count"] and all(e["k"] == "deref" for e in pl["proj"]):
            return self.param(key, local, depth)
        ch = self.chaser(key)
        ds = ch.defs.get(local, [])
        if not ds:
            return False, "no definition found for _%d in %s" % (local, key)
        reasons = []
        for kind, bi, x, sp in ds:
            if kind == "stmt":
                rv = x
                if rv["k"] == "use":
                    ok, why = self.operand(key, rv["op"], depth + 1)
                elif rv["k"] in ("ref", "addr"):
                    ok, why = self.place(key, rv["place"], depth + 1)
                elif rv["k"] == "cast":
                    ok, why = self.operand(key, rv["op"], depth + 1)
                else:
                    ok, why = False, "defined by %s" % rv["k"]
            else:
                full, rp = MU.callee_names(x)
                if rp in LOWER:
                    ok, why = True, "to_lowercase()"
                elif rp in ("std::string::String::new",):
                    ok, why = True, "empty string"
                elif rp in ("std::cell::RefCell::<T>::new",):
                    ok, why = self.operand(key, x["args"][0], depth + 1)
                elif rp in ("std::cell::RefCell::<T>::borrow", "std::cell::RefCell::<T>::borrow_mut"):
                    # the content of a RefCell field: every aggregate construction and every RefCell::replace on that field
                    ok, why = self.cell(key, x["args"][0], depth + 1)
                elif rp in PASS or rp.endswith("as std::clone::Clone>::clone") and "String" in full:
                    ok, why = self.operand(key, x["args"][0], depth + 1)
                elif rp.endswith("as std::ops::Deref>::deref") and x["args"]:
                    ok, why = self.operand(key, x["args"][0], depth + 1)
                else:
                    ok, why = False, "result of %s" % (rp or "an indirect call")
            if not ok:
                return False, why
            reasons.append(why)
        return True, "; ".join(sorted(set(reasons)))[:200]

    def cell_field_of(self, key, o):
        """abstract field (adt, variant, index) a RefCell operand belongs to, or None"""
        pl = o.get("move") or o.get("copy")
        if pl is None:
            return None
        ch = MU.Chaser(self.P.body[key])
        root, proj, _ = ch.root(pl)
        full = {"local": root, "proj": [e for e in proj if e["k"] in ("deref", "field", "downcast")]}
        # deref steps introduced through Rc::deref etc. are missing in proj; walk types tolerant of that
        steps = self.place_adts_tolerant(key, root, proj)
        fs = [s_ for s_ in steps if s_ and s_[0] == "field" and not s_[1].startswith(("std::", "core::"))]
        return fs[-1][1:] if fs else None

    def place_adts_tolerant(self, key, root, proj):
        cr = self.P.crate_of[key]
        b = self.P.body[key]
        t = cr.types[b["locals"][root]["ty"]]
        out = []
        for e in proj:
            k = e["k"]
            # strip references / Rc / Box implicitly
            while t["k"] in ("ref", "ptr") or (t["k"] == "adt" and t["path"] in ("std::rc::Rc", "std::boxed::Box", "std::sync::Arc") and t["args"]):
                t = cr.types[t["to"]] if t["k"] in ("ref", "ptr") else cr.types[t["args"][0]]
            if k == "field":
                if t["k"] == "adt":
                    ad = cr.adts.get(t["path"])
                    vname = ad["variants"][0]["name"] if ad and ad["variants"] else None
                    out.append(("field", t["path"].replace("avra_lib::", ""), vname, e["i"]))
                else:
                    out.append(None)
                t = cr.types[e["ty"]]
            else:
                out.append(None)
        return out

    def cell(self, key, o, depth):
        f = self.cell_field_of(key, o)
        if f is None:
            return False, "content of a RefCell that is not a field of a local struct"
        ok, why = self.field(f[0], f[1], f[2], depth)
        if not ok:
            return ok, why
        # every RefCell::replace / *borrow_mut() = .. on that field
        if not hasattr(self, "_replace_sites"):
            self._replace_sites = []
            for k, b in self.P.body.items():
                for bb, t, name, targets in self.P.call_sites(k):
                    if MU.callee_names(t)[1] in ("std::cell::RefCell::<T>::replace", "std::cell::RefCell::<T>::set", "std::cell::RefCell::<T>::swap"):
                        self._replace_sites.append((k, t, b["blocks"][bb]["tspan"]))
        for k, t, sp in self._replace_sites:
            f2 = self.cell_field_of(k, t["args"][0])
            if f2 == f:
                ok2, why2 = self.operand(k, t["args"][1], depth + 1)
                if not ok2:
                    return False, "%s.%s is overwritten at %s:%d with a value that is not lower-cased (%s)" % (f[0].split("::")[-1], f[2], sp["f"], sp["l"], why2)
        return True, "every value stored in %s field %s is lower-cased" % (f[0].split("::")[-1], f[2])

    def field(self, path, vname, fi, depth):
        mk = ("field", path, vname, fi)
        if mk in self.memo:
            v = self.memo[mk]
            return (True, "assumed (cycle)") if v is None else v
        self.memo[mk] = None
        sites = self.agg_index().get((path, vname, fi), [])
        res = (True, "every construction of %s::%s.%d is lower-cased (%d site(s))" % (path.split("::")[-1], vname, fi, len(sites)))
        if not sites:
            res = (False, "%s::%s.%d is never constructed in analysed code" % (path.split("::")[-1], vname, fi))
        for k, o, sp in sites:
            ok, why = self.operand(k, o, depth + 1)
            if not ok:
                res = (False, "%s::%s.%d is built at %s:%d from a value that is not lower-cased (%s)" % (path.split("::")[-1], vname, fi, sp["f"], sp["l"], why))
                break
        self.memo[mk] = res
        return res

    def param(self, key, local, depth):
        mk = ("param", key, local)
        if mk in self.memo:
            v = self.memo[mk]
            return (True, "assumed (cycle)") if v is None else v
        self.memo[mk] = None
        sites = self.callers().get(key, [])
        body = self.P.body[key]
        res = (True, "lower-cased at all %d call site(s) of %s" % (len(sites), key.split("::")[-1]))
        if not sites:
            res = (False, "parameter of %s, which has no analysed caller (public API: callers may pass any case)" % key)
        for ck, t in sites:
            idx = local - 1
            if idx >= len(t["args"]):
                res = (False, "call site with too few arguments")
                break
            ok, why = self.operand(ck, t["args"][idx], depth + 1)
            if not ok:
                sp = None
                res = (False, "argument of %s called from %s is not lower-cased (%s)" % (key.split("::")[-1], ck.split("::")[-1], why))
                break
        self.memo[mk] = res
        return res
