"""C12 — memory capacity limits of the selected device are enforced exactly.

(N) table vs. vendor files: the DEVICES map is evaluated from the MIR of its initialiser (devices.py) and, for every shipped
    includes/*def.inc whose `.device` names a row, the four figures must agree with the file's `#pragma AVRPART MEMORY` lines.
(P) limit check: E1 on build_from_parsed — every Ok path carries exactly  len(code) <= 2*flash_size, len(eeprom) <= eeprom_size,
    ram_filling <= ram_size  (as normalised linear facts over the pass-2 result and the device read after pass 2), and the
    BuildResult reports that same device's sizes and pass 2's images / ram_filling unchanged.
(P) `.device`: unknown name -> Err, second selection -> Err, what is stored is the table row.
(N) defaults of Device::new(0)."""
import glob
import os
import re

import absint
import devices
import facts as F
import graph as G
import mirutil as MU
import sx
from common import Reporter, loc_of

DEFAULTS = {"flash_size": 4194304, "ram_start": 0x60, "ram_size": 8388608, "eeprom_size": 65536}


def vendor_files(repo):
    out = {}
    for f in sorted(glob.glob(os.path.join(repo, "includes", "*def.inc"))):
        dev = None
        vals = {}
        try:
            text = open(f, encoding="latin-1").read()
        except OSError:
            continue
        for line in text.splitlines():
            s = line.strip()
            m = re.match(r"^\.device\s+(\S+)", s, re.I)
            if m and dev is None:
                dev = m.group(1)
            m = re.match(r"^#pragma\s+AVRPART\s+MEMORY\s+(PROG_FLASH|EEPROM|INT_SRAM\s+SIZE|INT_SRAM\s+START_ADDR)\s+(\S+)", s, re.I)
            if m:
                k = re.sub(r"\s+", " ", m.group(1).upper())
                try:
                    vals.setdefault(k, int(m.group(2), 0))
                except ValueError:
                    pass
        if dev:
            out[os.path.basename(f)] = (dev, vals)
    return out


SHORT = [(".code#len", "code_len"), (".eeprom#len", "eeprom_len"), (".ram_filling", "ram_filling"), (".flash_size", "flash_size"),
         (".eeprom_size", "eeprom_size"), (".ram_size", "ram_size"), (".ram_start", "ram_start")]


def short(name):
    for suf, tok in SHORT:
        if name.endswith(suf):
            if tok.endswith("_size") or tok == "ram_start":
                return tok if "get_device(" in name else "other." + tok
            return tok if "build_pass_2(" in name else "other." + tok
    return name


def lin_atoms(e):
    """linear form {token: coeff, None: const}; casts are transparent (recorded by the caller as an assumption)"""
    k = e[0]
    if k == 'c':
        return {None: e[1]}
    if k == 's':
        return {short(e[1]): 1, None: 0}
    if k == 'cast':
        return lin_atoms(e[1])
    if k == 'bin' and e[1] in ('Add', 'Sub'):
        a, b = lin_atoms(e[2]), lin_atoms(e[3])
        if a is None or b is None:
            return None
        out = dict(a)
        sg = 1 if e[1] == 'Add' else -1
        for s, c in b.items():
            out[s] = out.get(s, 0) + sg * c
        return out
    if k == 'bin' and e[1] == 'Mul':
        a, b = lin_atoms(e[2]), lin_atoms(e[3])
        if a is None or b is None:
            return None
        if set(a) == {None}:
            return {s: c * a[None] for s, c in b.items()}
        if set(b) == {None}:
            return {s: c * b[None] for s, c in a.items()}
        return None
    if k == 'bin' and e[1] == 'Shl' and e[3][0] == 'c':
        a = lin_atoms(e[2])
        return None if a is None else {s: c << e[3][1] for s, c in a.items()}
    return None


def fact_of(cond, truth):
    """normalise (cmp, truth) to a fact  L <= 0  (dict) or ('eq'/'ne', L); None when not a linear comparison"""
    if cond[0] != 'cmp':
        return None
    op, a, b = cond[1], cond[2], cond[3]
    if not truth:
        op = {'Eq': 'Ne', 'Ne': 'Eq', 'Lt': 'Ge', 'Ge': 'Lt', 'Gt': 'Le', 'Le': 'Gt'}[op]
    la, lb = lin_atoms(a), lin_atoms(b)
    if la is None or lb is None:
        return None
    d = dict(la)
    for s, c in lb.items():
        d[s] = d.get(s, 0) - c
    # a op b  ->  (a-b) op 0
    if op == 'Le':
        L = d
    elif op == 'Lt':
        L = dict(d)
        L[None] = L.get(None, 0) + 1
    elif op == 'Ge':
        L = {s: -c for s, c in d.items()}
    elif op == 'Gt':
        L = {s: -c for s, c in d.items()}
        L[None] = L.get(None, 0) + 1
    else:
        return (op, tuple(sorted((str(s), c) for s, c in d.items() if c != 0)))
    return ('le0', tuple(sorted((str(s), c) for s, c in L.items() if c != 0)))


EXPECTED = {
    "flash": ('le0', (("code_len", 1), ("flash_size", -2))),
    "eeprom": ('le0', (("eeprom_len", 1), ("eeprom_size", -1))),
    "ram": ('le0', (("ram_filling", 1), ("ram_size", -1))),
}


def partfiles_parse(P, repo, rep):
    """A shipped part-definition file can only say anything if the tool can read it: every line of every includes/*.inc must be matched
    by the grammar's line() (decided with the grammar matcher of analysis/peg.py, nothing runs)."""
    import grammar
    import layout_match
    import peg
    g, problems = grammar.load_checked(P)
    for pr in problems:
        rep.unprovable("C12.partfile|grammar-cross-check", pr)
    layout_match.use_conditions(P)
    seen = {}
    nfiles = nlines = 0
    for f in sorted(glob.glob(os.path.join(repo, "includes", "*.inc"))):
        try:
            text = open(f, encoding="latin-1").read()
        except OSError:
            continue
        nfiles += 1
        bad = []
        for i, line in enumerate(text.splitlines()):
            nlines += 1
            if line not in seen:
                seen[line] = peg.full_match(g, "line", line, layout_match._COND[0]) is not None
            if not seen[line]:
                bad.append((i + 1, line))
        rep.ob("C12.partfile|parses|%s" % os.path.basename(f), not bad,
               "every line of %s is a line of the grammar" % os.path.basename(f) if not bad else
               "%s cannot be included: line %d `%s` is not matched by line() (%d such lines)" % (os.path.basename(f), bad[0][0], bad[0][1].strip()[:80], len(bad)),
               detail={"lines": bad[:5]}, nontrivial=False)
    rep.floor("shipped include files matched against the grammar", nfiles, 60)
    rep.floor("their lines", nlines, 45000)


def run(tier):
    rep = Reporter("C12", tier, "proof", "table evaluation from MIR vs. vendor part files; normalised path facts of the limit check (abstract interpretation)")
    rep.explanation = ("The device table is read out of the MIR of its initialiser and compared row by row with every shipped part-definition file; "
                       "the limit check's three comparisons are recovered as linear facts on the unique Ok path of build_from_parsed and compared "
                       "with the statement (a flipped relation, a dropped *2, a swapped field all give a different fact).")
    rep.trusted = ["rustc nightly MIR", "the includes/*def.inc files are the oracle for capacities (named as such by C12)", "E1"]
    rep.assumptions = ["image lengths are below 2^32 (the `as u32` casts in the limit check are treated as value preserving)"]
    facts = F.load("dev")
    P = G.Program(facts)
    rows, problems = devices.table(P)
    if rows is None:
        rep.unprovable("C12.table|extract", problems)
        return rep
    for pr in problems:
        rep.unprovable("C12.table|row", pr)
    rep.floor("device rows extracted", len(rows), 54)
    vf = vendor_files(facts.repo)
    rep.count("vendor part files with .device", len(vf))
    matched = 0
    fig = {"flash_size": ("PROG_FLASH", lambda v: v // 2), "eeprom_size": ("EEPROM", lambda v: v),
           "ram_size": ("INT_SRAM SIZE", lambda v: v), "ram_start": ("INT_SRAM START_ADDR", lambda v: v)}
    missing = []
    for fname, (dev, vals) in sorted(vf.items()):
        row = rows.get(dev)
        if row is None:
            missing.append(dev)
            continue
        matched += 1
        for fld, (pragma, conv) in fig.items():
            if pragma not in vals:
                continue
            want = conv(vals[pragma])
            got = row.get(fld)
            rep.ob("C12.table|%s|%s" % (dev, fld), got == want,
                   "%s.%s = %s as declared by %s" % (dev, fld, got, fname) if got == want else
                   "%s: table says %s = %s, vendor file %s declares %s %s (= %s)" % (dev, fld, got, fname, pragma, vals[pragma], want),
                   detail={"table": got, "vendor": want, "file": fname},
                   sample={"device": dev, "field": fld, "table": got, "vendor file": fname, "declared": vals[pragma]} if got == want else None)
    rep.count("vendor files naming a table row", matched)
    rep.count("vendor files naming no table row", len(missing))
    for dev in sorted(set(missing)):
        rep.ob("C12.partfile|device-known|%s" % dev, False,
               "the shipped part-definition file for %s cannot be used: its own `.device %s` line fails with `unknown device`, so no capacity is enforced for the part it describes" % (dev, dev))
    rep.ob("C12.partfile|device-known", not missing, "every shipped part-definition file names a device of the table (%d files)" % matched, nontrivial=False)
    rep.floor("vendor files matched to rows", matched, 45)

    partfiles_parse(P, facts.repo, rep)

    # ---- limit check
    key = "builder::build_from_parsed"
    if key not in P.body:
        rep.unprovable("C12.limit|anchor", "build_from_parsed not found")
        return rep
    M = absint.Machine(P, opaque={"builder::pass0::build_pass_0", "builder::pass1::build_pass_1", "builder::pass2::build_pass_2",
                                  "<context::CommonContext as context::Context>::get_device"}, max_depth=4)
    paths = M.explore(key, M.arg_unknowns(key))
    oks = [p for p in paths if p.exit == "Ok"]
    rep.count("paths of build_from_parsed", len(paths))
    if M.capped or M.unsupported or any(p.exit not in ("Ok", "Err") for p in paths):
        rep.unprovable("C12.limit|explore", "exploration incomplete: %s" % sorted({p.exit for p in paths}))
    rep.ob("C12.limit|ok-paths", len(oks) >= 1, "build_from_parsed has a success path (%d)" % len(oks), kind="unprovable", nontrivial=False)
    for n, p in enumerate(oks):
        facts_ = []
        for e, t in p.conds:
            f = fact_of(e, t)
            if f is not None and len(sx.syms(e)) >= 2:
                facts_.append(f)
        for nm, want in EXPECTED.items():
            ok = want in facts_
            rep.ob("C12.limit|%s" % nm + ("" if n == 0 else "|path%d" % n), ok,
                   "success requires %s" % pretty(want) if ok else
                   "the success path does not carry the fact %s; facts found: %s" % (pretty(want), [pretty(f) for f in facts_]),
                   detail={"facts": [pretty(f) for f in facts_]})
        extra = [f for f in facts_ if f not in EXPECTED.values()]
        rep.ob("C12.limit|no-extra" + ("" if n == 0 else "|path%d" % n), not extra,
               "no further capacity condition is imposed" if not extra else "additional conditions on success: %s" % [pretty(f) for f in extra])
        # device is read after pass 2
        calls = [e for e in p.events if e[0] == 'call']
        names = [c[1] for c in calls]
        okorder = ("builder::pass2::build_pass_2" in names and any(n2.endswith("get_device") for n2 in names)
                   and names.index("builder::pass2::build_pass_2") < max(i for i, n2 in enumerate(names) if n2.endswith("get_device")))
        rep.ob("C12.limit|device-after-pass2", okorder, "the device compared against is read after pass 2 (a .device anywhere in the source counts)" if okorder else
               "the device is read before the passes ran: a .device directive processed later would be ignored")
        # reported values
        r = p.ret[3][0] if p.ret[0] == 'agg' and p.ret[3] else None
        br = [f["name"] for f in P.lib.adts["builder::BuildResult"]["variants"][0]["fields"]]
        want_src = {"code": "code", "eeprom": "eeprom", "flash_size": "flash_size", "eeprom_size": "eeprom_size", "ram_size": "ram_size",
                    "ram_filling": "ram_filling", "messages": "messages"}
        if r is None or r[0] != 'agg' or len(r[3]) != len(br):
            rep.unprovable("C12.report|shape", "BuildResult aggregate not recognised on the success path")
        else:
            for fname, fv in zip(br, r[3]):
                d = M.describe(p.state, fv)
                if fname in ("flash_size", "eeprom_size", "ram_size"):
                    ok = d.endswith("." + want_src[fname]) and "get_device(" in d
                else:
                    ok = d.endswith("." + want_src[fname]) and "build_pass_2(" in d
                rep.ob("C12.report|%s" % fname, ok, "BuildResult.%s is %s" % (fname, d.rsplit(")", 1)[-1] if ok else d) if ok else
                       "BuildResult.%s is taken from %s" % (fname, d))
    # ---- what the RAM figure is: the extent of the data segment (end of the last data segment - start of RAM), handed on unchanged
    import rules_C02

    class Capture:
        def __init__(self):
            self.obs = []
            self.analysed = {}
            self.extra = {}

        def ob(self, key, ok, what, **kw):
            self.obs.append((key, ok, what))

        def unprovable(self, key, what, **kw):
            self.obs.append((key, False, what))

        def count(self, *a):
            pass

        def floor(self, *a):
            pass

    cap = Capture()
    rules_C02.clause_d(P, cap)
    n_ext = 0
    for k_, ok_, what_ in cap.obs:
        if k_.startswith("C02.d|ram_filling|"):
            n_ext += 1
            rep.ob("C12.extent|ram|" + k_.split("|", 2)[2], ok_, "segments %s: the RAM figure that is compared and reported is the end of the last data segment minus the start of RAM" % k_.split("|", 2)[2] if ok_ else
                   "segments %s: the RAM figure that is compared with the capacity and reported is not the extent of the data segment: %s" % (k_.split("|", 2)[2], what_))
    rep.floor("segment-type pairs analysed for the RAM extent", n_ext, 9)
    kb2 = "builder::pass2::build_pass_2"
    if kb2 in P.body:
        b2 = P.body[kb2]
        ch2 = MU.Chaser(b2)
        f2 = [f["name"] for f in P.lib.adts["builder::pass2::BuildResultPass2"]["variants"][0]["fields"]]
        f1 = [f["name"] for f in P.lib.adts["builder::pass1::BuildResultPass1"]["variants"][0]["fields"]]
        okh = False
        for bl in b2["blocks"]:
            for st in bl["stmts"]:
                if st["k"] == "assign" and st["rv"]["k"] == "agg" and st["rv"]["kind"].get("path") == "builder::pass2::BuildResultPass2":
                    r_ = ch2.root(st["rv"]["ops"][f2.index("ram_filling")], through_calls=False)
                    okh = r_[0] is not None and 1 <= r_[0] <= b2["arg_count"] and "BuildResultPass1" in P.tys(kb2, b2["locals"][r_[0]]["ty"]) and MU.proj_fields(r_[1]) == [f1.index("ram_filling")]
        rep.ob("C12.extent|ram|pass2-handover", okh, "pass 2 hands pass 1's RAM figure on unchanged" if okh else "pass 2 does not hand on pass 1's ram_filling unchanged")
    # ---- defaults
    dk = "device::Device::new"
    if dk in P.body:
        Md = absint.Machine(P, max_depth=3)
        cr = P.lib
        u32 = None
        b = P.body[dk]
        ps = Md.explore(dk, [('int', sx.C(0, 32, False))])
        good = [p for p in ps if p.ret[0] == 'agg']
        if len(good) != 1:
            rep.unprovable("C12.defaults", "Device::new(0) does not evaluate to one aggregate (%d)" % len(good))
        else:
            fields = [f["name"] for f in P.lib.adts["device::Device"]["variants"][0]["fields"]]
            for fn, fv in zip(fields, good[0].ret[3]):
                if fn in DEFAULTS:
                    got = sx.cval(fv[1]) if fv[0] == 'int' and sx.is_const(fv[1]) else None
                    rep.ob("C12.defaults|%s" % fn, got == DEFAULTS[fn], "default %s = %s" % (fn, got) if got == DEFAULTS[fn] else
                           "default %s is %s, documented %s" % (fn, got, DEFAULTS[fn]))
    else:
        rep.unprovable("C12.defaults", "Device::new not found")
    import rules_C12_device
    rules_C12_device.device_directive(P, rep)
    import rules_C02
    rules_C02.byte_operand_dropped(P, rep, "C12.reach|byte-operand", "RAM or EEPROM reserved with a named size (`.byte BUF_LEN`) is not counted: a program that needs more than the device has builds, with `RAM: 0 bytes` reported")
    return rep


def pretty(f):
    kind, terms = f
    s = " ".join("%+d*%s" % (c, "1" if t == "None" else t) for t, c in terms)
    return "%s %s" % (s, {"le0": "<= 0", "Eq": "== 0", "Ne": "!= 0"}.get(kind, kind))
