"""Verdict plumbing shared by all rules: obligations, violations, known findings, evidence, replay files."""
import hashlib
import json
import os
import sys
import time

VERIF = os.path.dirname(os.path.dirname(os.path.abspath(__file__)))
KNOWN_FILE = os.path.join(VERIF, "known_findings.txt")


def load_known():
    """known_findings.txt lines:
         known: property=<id> key=<exact rule-instance key> | <what fails>
         fixed: property=<id> <commit> <what failed>            (suppresses nothing)
    """
    known = {}
    fixed = []
    if os.path.exists(KNOWN_FILE):
        for line in open(KNOWN_FILE):
            line = line.rstrip("\n")
            if line.startswith("known: "):
                head, _, what = line[len("known: "):].partition(" | ")
                parts = head.split(" key=", 1)
                pid = parts[0].replace("property=", "").strip()
                key = parts[1].strip() if len(parts) > 1 else ""
                known[(pid, key)] = what.strip()
            elif line.startswith("fixed: "):
                fixed.append(line)
    return known, fixed


class Reporter:
    def __init__(self, pid, tier, level, technique):
        self.pid = pid
        self.tier = tier
        self.level = level
        self.technique = technique
        self.t0 = time.time()
        self.obligations = []      # (key, ok, what, nontrivial)
        self.keys = set()
        self.violations = []       # dicts
        self.samples = []
        self.analysed = {}         # free-form counts of what was analysed
        self.assumptions = []
        self.trusted = []
        self.notes = []
        self.explanation = ""
        self.rule_text = ""
        self.extra = {}

    # -- obligations ---------------------------------------------------------------------------
    def ob(self, key, ok, what, detail=None, loc=None, nontrivial=True, kind="violated", sample=None):
        """Register one rule instance.  key has no line numbers; what is the human sentence."""
        if key in self.keys:
            n = 2
            while "%s#%d" % (key, n) in self.keys:
                n += 1
            key = "%s#%d" % (key, n)
        self.keys.add(key)
        self.obligations.append((key, bool(ok), what, nontrivial))
        if sample is not None and len(self.samples) < 12:
            self.samples.append(sample)
        elif len(self.samples) < 6 and ok:
            self.samples.append({"key": key, "holds": what if isinstance(what, str) else str(what),
                                 "derived": detail if detail is None or isinstance(detail, (str, int, list, dict)) else str(detail)})
        if not ok:
            self.violations.append({"key": key, "what": what, "detail": detail, "loc": loc, "kind": kind})
        return ok

    def unprovable(self, key, what, detail=None, loc=None):
        return self.ob(key, False, what, detail, loc, kind="unprovable")

    def floor(self, name, count, minimum):
        """Fail closed when the analysed universe shrinks below what was counted by hand."""
        self.analysed[name] = count
        return self.ob("floor|%s" % name, count >= minimum,
                       "analysed universe '%s' has %d instances (floor %d)" % (name, count, minimum),
                       kind="unprovable", nontrivial=False)

    def count(self, name, n):
        self.analysed[name] = n

    # -- finish --------------------------------------------------------------------------------
    def finish(self, replay_key=None):
        known, fixed = load_known()
        outdir = os.path.join(os.environ.get("AVRA_OUT_DIR") or os.path.join(VERIF, "out"), self.pid)
        os.makedirs(outdir, exist_ok=True)
        bad = 0
        n_known = 0
        print("== %s [%s] %s" % (self.pid, self.tier, self.technique))
        for k in sorted(self.analysed):
            print("   analysed %-40s %s" % (k, self.analysed[k]))
        total = len(self.obligations)
        ok = sum(1 for o in self.obligations if o[1])
        print("   obligations %d, discharged %d" % (total, ok))
        if os.environ.get("AVRA_VERBOSE"):
            for o in self.obligations:
                print("     %s %s :: %s" % ("ok " if o[1] else "BAD", o[0], str(o[2])[:260]))
        for v in self.violations:
            kk = (self.pid, v["key"])
            if kk in known:
                n_known += 1
                print("KNOWN-FINDING: property=%s %s [%s]" % (self.pid, known[kk], v["key"]))
                continue
            bad += 1
            h = hashlib.sha256(v["key"].encode()).hexdigest()[:16]
            path = os.path.join(outdir, h + ".json")
            with open(path, "w") as fh:
                json.dump({"property": self.pid, "key": v["key"], "kind": v["kind"], "what": v["what"],
                           "where": v["loc"], "witness": v["detail"],
                           "rerun": "./check %s --replay %s" % (self.pid, path)}, fh, indent=1, default=str)
            print("   %s %s: %s%s" % ("UNPROVABLE" if v["kind"] == "unprovable" else "violated", v["key"], v["what"],
                                     ("  @ " + v["loc"]) if v["loc"] else ""))
            print("VIOLATION property=%s replay=%s" % (self.pid, path))
        # stale known entries are informational only
        for (pid, key), what in known.items():
            if pid == self.pid and key not in {v["key"] for v in self.violations}:
                print("   note: known finding no longer reported: %s" % key)
        wall = time.time() - self.t0
        nontrivial = len({o[0] for o in self.obligations if o[3]})
        cov = {
            "evaluations": max(total, 1),
            "distinct_nontrivial": nontrivial,
            "rule": self.rule_text or "one obligation per rule instance generated from the MIR / grammar of the current tree; "
                                      "non-trivial = verdict depended on a resolved callee, a derived value set or a grammar fact",
            "samples": self.samples[:12] if self.samples else [{"note": "no obligation generated"}],
            # an obligation that is listed as a known finding does not hold on this tree and is not claimed: it is reported on its own
            # (known_findings_reported / known_finding_keys) and counts neither as an obligation of the claim nor as discharged
            "obligations": total - n_known,
            "discharged": ok,
            "checker_cmd": "./check %s --tier %s" % (self.pid, self.tier),
            "trusted_base": self.trusted or ["rustc nightly MIR construction and callee resolution", "the spec tables under /verif/spec"],
            "explanation": self.explanation or self.technique,
            "exhaustive": False,
            "analysed": self.analysed,
            "known_findings_reported": n_known,
            "known_finding_keys": sorted(v["key"] for v in self.violations if (self.pid, v["key"]) in known),
        }
        if n_known:
            cov["explanation"] += (" On this tree %d further obligation(s) do not hold and are recorded as known findings (known_findings.txt, keys "
                                   "under known_finding_keys): they are outside what this run claims; every other violation is reported." % n_known)
        cov.update(self.extra)
        ev = {
            "property_id": self.pid,
            "tier": self.tier if self.tier in ("quick", "thorough") else "quick",
            "seed": int(os.environ.get("VERIF_SEED", "0") or 0),
            "level": self.level,
            "coverage": cov,
            "assumptions": self.assumptions,
            "wall_s": round(wall, 2),
            "violations": bad,
        }
        evdir = os.environ.get("AVRA_EVIDENCE_DIR") or os.path.join(VERIF, "evidence")
        os.makedirs(evdir, exist_ok=True)
        with open(os.path.join(evdir, self.pid + ".json"), "w") as fh:
            json.dump(ev, fh, indent=1, default=str)
        if replay_key is not None:
            still = any(v["key"] == replay_key for v in self.violations)
            print("replay: key %s %s" % (replay_key, "STILL VIOLATED" if still else "no longer reported"))
            return 1 if still else 0
        print("   result: %s (%d unlisted violation(s), %d known finding(s), %.1fs)" % (
            "FAIL" if bad else "ok", bad, n_known, wall))
        return 1 if bad else 0


def loc_of(span):
    if not span:
        return None
    return "%s:%d:%d" % (span["f"], span["l"], span["c"])



class Rekey:
    """Reporter proxy: lets a rule written for one property speak under another property's keys.  Obligations whose key starts with `src`
    are forwarded with `dst` in its place; counts and floors of the borrowed rule are not repeated."""
    def __init__(self, rep, src, dst):
        self._rep, self._src, self._dst = rep, src, dst
        self.extra = {}
        self.samples = []
        self.analysed = {}

    def _key(self, key):
        return self._dst + key[len(self._src):] if key.startswith(self._src) else None

    def ob(self, key, ok, what, **kw):
        k = self._key(key)
        if k is not None:
            kw.pop("sample", None)
            self._rep.ob(k, ok, what, **kw)

    def unprovable(self, key, what, **kw):
        k = self._key(key)
        if k is not None:
            self._rep.unprovable(k, what, **kw)

    def count(self, *a, **k):
        pass

    def floor(self, *a, **k):
        pass
