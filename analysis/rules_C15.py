"""C15 — a failed build names the offending line; messages are kept in order  (error discipline).

(N) attribution: in every function that has a CodePoint for the current item in scope, each error exit must carry it: a bail!'s
    format arguments must include a CodePoint; a `?` is accepted only if the propagated Result comes from a callee that is itself
    attributed (greatest fixpoint over the call graph: all of its error exits attributed).  Root causes are reported, cascades are not.
    Named exception: Directive::parse -> parse_file_internal (errors of a nested file carry their own line; "include not found" is
    not among C15's fault kinds).
(P) line numbers: the CodePoint built for a source line is (enumerate index + 1).
(P) .error returns Err on every path of its arm; .message/.warning push exactly one string that contains the point, push no item
    and call no symbol setter.
(N) message flow: one Vec<String> is threaded parse -> pass 0 -> 1 -> 2 -> BuildResult by move/clone only."""
import re

import absint
import facts as F
import graph as G
import mirutil as MU
import rules_C08
import rules_C09
import sx
from common import Reporter, loc_of

POINT = "parser::CodePoint"
EXCEPTIONS = {("directive::Directive::parse", "parser::parse_file_internal"): "errors of a nested file carry their own line number"}
ROOTS = ["builder::build_str", "builder::build_file"]


def kept_line_locals(P, fn):
    """named locals of fn whose every assignment is the constant 0 or a copy of a value computed as <something> + 1 (the current line
    number); at least one such local must exist and be assigned a line number somewhere"""
    b = P.body[fn]
    ch = MU.Chaser(b)
    asg = {}
    for bl in b["blocks"]:
        for st in bl["stmts"]:
            if st["k"] == "assign" and not st["place"]["proj"] and b["locals"][st["place"]["local"]].get("name"):
                asg.setdefault(st["place"]["local"], []).append(st["rv"])

    def is_line_number(op, depth=0):
        r = ch.root(op, through_calls=False)
        if r[0] is None:
            return False
        d = ch.single_def(r[0])
        # a component of a tuple built a moment ago: `let (line_num, line) = (n + 1, text)`
        if d and d[0] == "stmt" and d[2]["k"] == "agg" and d[2]["kind"].get("k") == "tuple" and r[1] and r[1][0].get("k") == "field" and len(r[1]) == 1 and depth < 4:
            i = r[1][0]["i"]
            return i < len(d[2]["ops"]) and is_line_number(d[2]["ops"][i], depth + 1)
        # (checked in a debug build, plain in a release build)
        return bool(d and d[0] == "stmt" and d[2]["k"] == "bin" and d[2]["op"] in ("AddWithOverflow", "Add") and "const" in d[2]["r"] and d[2]["r"]["const"].get("int") == "1")

    out = []
    for l, rvs in asg.items():
        consts = [rv for rv in rvs if rv["k"] == "use" and "const" in rv["op"]]
        copies = [rv for rv in rvs if rv["k"] == "use" and "const" not in rv["op"]]
        if len(consts) + len(copies) != len(rvs) or not copies:
            continue
        if all(rv["op"]["const"].get("int") == "0" for rv in consts) and all(is_line_number(rv["op"]) for rv in copies):
            out.append(b["locals"][l]["name"])
    return out


def first_round_can_be_unterminated(P):
    """whether the scanner, in the mode parse_iter starts in, can report that it ran out of text while searching (third component of its
    result): read from the SCAN table C08 extracts"""
    class Quiet:
        def __getattr__(self, name):
            return lambda *a, **k: None
    table, _, _ = rules_C08.scan_table(P, Quiet())
    rows = table.get("NewLine")
    if not rows:
        return True
    return any(act[0] == 'none' and len(act) > 2 and act[2] for cls, cz, act, wf in rows)


def unterminated_is_reported(P, rep):
    class Quiet:
        def __getattr__(self, name):
            return lambda *a, **k: None
    table, _, _ = rules_C08.scan_table(P, Quiet())
    silent = []
    for mode in ("EndIf", "EndChain", "EndMacro"):
        rows = [r for r in table.get(mode, []) if "<eof>" in r[0]]
        if not rows:
            silent.append("%s (no end-of-text row)" % mode)
        elif not all(act[0] == 'none' and len(act) > 2 and act[2] for cls, cz, act, wf in rows):
            silent.append(mode)
    # a line of the chain itself (.else / .elif / .endif of the conditional being skipped, nesting counter 0) that is not well formed is
    # the line at fault: whatever the scanner is searching for, it hands that line to the line parser, which reports it
    quiet = []
    for mode in ("EndIf", "EndChain"):
        for cls in ("Else", "ElIf", "Endif"):
            acts = set(rules_C08.scan_step(table, mode, cls, 0, False))
            if not acts or any(a[0] != 'this' for a in acts):
                quiet.append("%s while %s" % (cls.lower(), "searching the next arm" if mode == "EndIf" else "passing over the remaining arms"))
    for cls in ("EndMacro", "EndM"):
        acts = set(rules_C08.scan_step(table, "EndMacro", cls, 0, False))
        if not acts or any(a[0] != 'this' for a in acts):
            quiet.append("%s while collecting a macro body" % cls.lower())
    rep.ob("C15.chain-line|malformed", not quiet,
           "a malformed .else / .elif / .endif of the conditional being skipped is handed to the line parser in every mode" if not quiet else
           "a malformed line of the chain is passed over without a word (%s): `.if 1 / ... / .elif x == (3 / ... / .endif` builds" % "; ".join(quiet[:3]))
    rep.ob("C15.unterminated|scanner", not silent,
           "running out of text in search of .endif / .endmacro is told apart from the plain end of the text (modes EndIf, EndChain, EndMacro)" if not silent else
           "the scanner reaches the end of the text in mode %s and answers like at the plain end of a file: after an .if 0 or a .macro that is never closed (or whose closing line is misspelt) the rest of the file is dropped without a word" % ", ".join(silent))
    # the line loop fails when it is told so
    fn = "parser::parse_iter"
    if silent or fn not in P.body:
        return
    M = absint.Machine(P, max_depth=3, opaque={"parser::skip", "document::document::line", "directive::Directive::parse"}, loop_limit=1)
    paths = M.explore(fn, M.arg_unknowns(fn))
    told = []
    for p in paths:
        for sy, dd in p.state.doms.items():
            if isinstance(sy, tuple) and sy[0] == 's' and re.match(r"^skip\(.*\)(@\d+)?\.2$", sy[1]) and sx.dom_size(dd) == 1 and sx.dom_min(dd) == 1:
                told.append(p)
    ok = bool(told) and all(p.exit == "Err" for p in told)
    rep.ob("C15.unterminated|error", ok, "the line loop fails (with the line that opened the construct) when the scanner ran out of text" if ok else
           "the line loop goes on or ends quietly although the scanner ran out of text in search of a closing line (%s)" % sorted({p.exit for p in told}))


def codepoint_line_args(text):
    """first argument of every  CodePoint::CodePoint(<line>, <num>)  occurring in a description string"""
    out = []
    tag = "CodePoint::CodePoint("
    i = text.find(tag)
    while i >= 0:
        j = i + len(tag)
        depth = 0
        k = j
        while k < len(text):
            c = text[k]
            if c == "(":
                depth += 1
            elif c == ")":
                if depth == 0:
                    break
                depth -= 1
            elif c == "," and depth == 0:
                break
            k += 1
        out.append(text[j:k])
        i = text.find(tag, k)
    return out


def site_in_scope(P, key, b, idom, bb):
    """is a CodePoint for the current item available at block bb: a parameter of that type, or a local of that type with a
    definition in a block that dominates bb"""
    for i, l in enumerate(b["locals"]):
        if POINT not in P.tys(key, l["ty"]):
            continue
        if 1 <= i <= b["arg_count"]:
            return True
    for bi, bl in enumerate(b["blocks"]):
        for st in bl["stmts"]:
            if st["k"] == "assign" and not st["place"]["proj"] and POINT in P.tys(key, b["locals"][st["place"]["local"]]["ty"]):
                if bi == bb or G.dominates(idom, bi, bb):
                    return True
        t = bl["term"]
        if t["k"] == "call" and not t["dest"]["proj"] and POINT in P.tys(key, b["locals"][t["dest"]["local"]]["ty"]) and t.get("target") is not None:
            if G.dominates(idom, t["target"], bb):
                return True
    return False


def has_point(P, key):
    b = P.body[key]
    for l in b["locals"]:
        if POINT in P.tys(key, l["ty"]):
            return True
    return False


def point_args(P, key, b, msg_operand):
    """does the message passed to err_msg contain a formatted CodePoint?  -> (bool, template text)"""
    locs, consts, calls, places = MU.backward_slice(b, [msg_operand])
    tpl = None
    for c in consts:
        if "bytes" in c:
            d = rules_C09.decode_template(c["bytes"])
            if d is not None:
                tpl = "".join(x[1] if x[0] == 'lit' else "{}" for x in d)
        elif "str" in c and tpl is None:
            tpl = c["str"]
    found = False
    for c in calls:
        full, rp = MU.callee_names(c)
        if "fmt::rt::Argument" in rp:
            for g in c["callee"].get("generics", []):
                if POINT in P.tys(key, g):
                    found = True
    return found, tpl


TAIL_RESULT = re.compile(r"^std::result::Result<.*, failure::Error>$")


def error_exits(P, key):
    """[(kind, bb, detail)]  kind: 'bail' (detail = (attributed, template)) | 'try' (detail = callee key or name) | 'err-agg'"""
    b = P.body[key]
    out = []
    ch = MU.Chaser(b)
    for bb, t, name, tg in P.call_sites(key):
        if b["blocks"][bb]["cleanup"]:
            continue
        full, rp = MU.callee_names(t)
        if rp == "failure::err_msg":
            ok, tpl = point_args(P, key, b, t["args"][0])
            out.append(("bail", bb, (ok, tpl)))
        elif t["dest"]["local"] == 0 and not t["dest"]["proj"] and TAIL_RESULT.search(P.tys(key, b["locals"][0]["ty"])) and \
                not rp.endswith("from_residual") and P.norm_path(key, t["callee"].get("rpath")) in P.body:
            # `f(..)` as the value of the function (no `?`): f's errors leave through here as they are
            out.append(("try", bb, t))
        elif t["dest"]["local"] == 0 and not t["dest"]["proj"] and rp == "std::result::Result::<T, E>::map_err" and len(t["args"]) == 2 and \
                TAIL_RESULT.search(P.tys(key, b["locals"][0]["ty"])):
            # `result.map_err(|e| ...)` as the value of the function (a helper that says where it went wrong): the errors that leave
            # are the ones the closure makes
            cr_ = P.crate_of[key]
            a_ = t["args"][1]
            pth = None
            if "const" in a_ and "ty" in a_["const"] and cr_.types[a_["const"]["ty"]]["k"] == "closure":
                pth = cr_.types[a_["const"]["ty"]]["path"]
            else:
                pl_ = a_.get("move") or a_.get("copy")
                for l_ in ({pl_["local"], ch.root(a_, through_calls=False)[0]} - {None}) if pl_ is not None else ():
                    if cr_.types[b["locals"][l_]["ty"]]["k"] == "closure":
                        pth = cr_.types[b["locals"][l_]["ty"]]["path"]
            out.append(("try", bb, {"callee": {"rpath": pth, "path": pth, "rkind": "item"}, "args": []} if pth else None))
        elif rp.endswith("from_residual"):
            # residual <- (Break payload of) Try::branch(x) <- x = result of a call
            locs, consts, calls, places = MU.backward_slice(b, t["args"][:1])
            br = [c for c in calls if MU.callee_names(c)[1].endswith("as std::ops::Try>::branch")]
            src = None
            if br:
                root, proj, _ = ch.root(br[0]["args"][0], through_calls=False)
                ds = ch.defs.get(root, [])
                calls_ = [d[2] for d in ds if d[0] == "call"]
                if ds and len(calls_) == len(ds):
                    src = calls_ if len(calls_) > 1 else calls_[0]
                # a consumer of an iterator chain (`try_for_each`, `collect::<Result<..>>`, `try_fold`, ...) raises no error of its own: what
                # `?` hands on there are the errors of the closures given to the chain, which are judged at their own sites
                if isinstance(src, dict) and re.search(r"^std::iter::Iterator::(try_for_each|try_fold|collect|sum|product|try_find|find_map)$", MU.callee_names(src)[1]):
                    cr_ = P.crate_of[key]
                    clos = set()
                    cur = src
                    for _ in range(12):
                        for a_ in cur["args"][1:]:
                            if "const" in a_ and "ty" in a_["const"] and cr_.types[a_["const"]["ty"]]["k"] == "closure":
                                clos.add(cr_.types[a_["const"]["ty"]]["path"])
                            pl_ = a_.get("move") or a_.get("copy")
                            if pl_ is not None:
                                r_ = ch.root(a_, through_calls=False)[0]
                                for l_ in {pl_["local"], r_} - {None}:
                                    if cr_.types[b["locals"][l_]["ty"]]["k"] == "closure":
                                        clos.add(cr_.types[b["locals"][l_]["ty"]]["path"])
                        r0 = ch.root(cur["args"][0], through_calls=False)[0] if cur["args"] else None
                        d0 = ch.single_def(r0) if r0 is not None else None
                        if d0 and d0[0] == "call" and re.search(r"^std::iter::Iterator::\w+$", MU.callee_names(d0[2])[1]):
                            cur = d0[2]
                        else:
                            break
                    clos = sorted(clos)
                    if clos:
                        src = [{"callee": {"rpath": pth, "path": pth, "rkind": "item"}, "args": []} for pth in clos]
                        if len(src) == 1:
                            src = src[0]
            out.append(("try", bb, src))
    return out


def run(tier):
    rep = Reporter("C15", tier, "other", "error-discipline analysis over resolved MIR: every error exit with a CodePoint in scope is classified (bail! format arguments, `?` sources) and attribution is solved as a greatest fixpoint over the call graph; path rules by abstract interpretation for line numbers and .message/.warning/.error")
    rep.explanation = ("The set of error sites is finite and enumerable from MIR even though the inputs reaching them are not. Each site in a function "
                       "that knows the current line must carry it; propagation with `?` is accepted only from callees all of whose error exits "
                       "are attributed. Not decided: that the *right* line is named when a fault surfaces in a later pass than it was written; wording.")
    rep.trusted = ["rustc nightly MIR and callee resolution", "decoding of format_args templates (only used for report text)"]
    P = G.Program(F.load("dev"))
    reach = sorted(k for k in P.reachable(ROOTS) if not k.startswith("bin::") and "#promoted" not in k)
    exits = {}
    out_of_scope = 0
    for k in reach:
        ex = error_exits(P, k)
        if ex and has_point(P, k):
            b_ = P.body[k]
            idom_ = G.dominators(b_)
            keep = []
            for e in ex:
                if site_in_scope(P, k, b_, idom_, e[1]):
                    keep.append(e)
                else:
                    out_of_scope += 1
            ex = keep
            if not ex:
                continue
        if ex:
            exits[k] = ex
    rep.count("error sites before any item's line is known (exempt)", out_of_scope)
    nb = sum(1 for v in exits.values() for e in v if e[0] == "bail")
    nt = sum(1 for v in exits.values() for e in v if e[0] == "try")
    rep.count("bail! sites classified", nb)
    rep.count("`?` sites classified", nt)
    scoped = {k for k in exits if has_point(P, k)}
    rep.count("functions with error exits and a CodePoint in scope", len(scoped))
    # greatest fixpoint: attributed(f)
    attributed = {k: True for k in scoped}

    def callee_key(k, call):
        if call is None:
            return None
        if isinstance(call, list):
            keys = [callee_key(k, c) for c in call]
            if all(x is not None and x in attributed and attributed[x] for x in keys):
                return keys[0]
            return None
        c = call["callee"]
        if c.get("rkind") == "virtual":
            return None
        return P.norm_path(k, c.get("rpath"))

    callers_of = {}
    for k_ in P.body:
        for _, _, _, tg_ in P.call_sites(k_):
            for x_ in tg_:
                callers_of.setdefault(x_, set()).add(k_)

    def exception_for(k, ck, depth=0):
        """the table's reason, if (k, ck) is listed or k is a private part of a listed function (its only callers, transitively)"""
        if (k, ck) in EXCEPTIONS:
            return EXCEPTIONS[(k, ck)]
        cs = callers_of.get(k, set()) - {k}
        if depth < 3 and cs and "{closure" not in k and all(c.rsplit("::", 2)[0] == k.rsplit("::", 1)[0] or c.rsplit("::", 1)[0] == k.rsplit("::", 1)[0] for c in cs):
            rs = [exception_for(c, ck, depth + 1) for c in cs]
            if all(rs):
                return rs[0]
        return None

    def site_ok(k, e):
        kind, bb, d = e
        if kind == "bail":
            return d[0]
        if kind == "try":
            ck = callee_key(k, d)
            if ck is not None and exception_for(k, ck):
                return True
            if ck is not None and ck in attributed:
                return attributed[ck]
            return False
        return False

    changed = True
    while changed:
        changed = False
        for k in scoped:
            v = all(site_ok(k, e) for e in exits[k])
            if v != attributed[k]:
                attributed[k] = v
                changed = True
    # report root causes: a `?` whose callee is a scoped-but-unattributed function is a cascade, not a root cause
    for k in sorted(scoped):
        b = P.body[k]
        fn_short = k.split("::")[-1]
        for e in exits[k]:
            kind, bb, d = e
            loc = loc_of(b["blocks"][bb]["tspan"])
            if kind == "bail":
                ok, tpl = d
                rep.ob("C15.attr|%s|bail|%s" % (k, tpl), ok,
                       "%s: error \"%s\" carries the line" % (fn_short, tpl) if ok else
                       "%s: the error \"%s\" is raised where the current line is known but does not include it" % (fn_short, tpl), loc=loc,
                       sample={"function": k, "message": tpl, "carries": "CodePoint"} if ok else None)
            else:
                ck = callee_key(k, d)
                if isinstance(d, list):
                    cname = ck or "|".join(sorted({MU.callee_names(c)[1].rsplit("::", 1)[-1] for c in d}))
                else:
                    cname = ck or (MU.callee_names(d)[1] if d else "<not a call result>")
                if ck is not None and exception_for(k, ck):
                    rep.ob("C15.attr|%s|?|%s" % (k, cname), True, "%s: `?` on %s — exception: %s" % (fn_short, cname.split("::")[-1], exception_for(k, ck)), loc=loc, nontrivial=False)
                    continue
                if ck is not None and ck in attributed:
                    if attributed[ck]:
                        rep.ob("C15.attr|%s|?|%s" % (k, cname), True, "%s: `?` propagates errors of %s, all of which carry a line" % (fn_short, cname.split("::")[-1]), loc=loc)
                    # else: cascade of an unattributed callee that is reported at its own sites
                    continue
                rep.ob("C15.attr|%s|?|%s" % (k, cname), False,
                       "%s: `?` propagates an error of %s, which knows no line, without adding the current one" % (fn_short, cname.split("::")[-1] if "::" in cname else cname), loc=loc)
    rep.floor("bail! sites classified", nb, 60)
    rep.floor("`?` sites classified", nt, 80)

    # ---- line numbers
    fn = "parser::parse_iter"
    if fn in P.body:
        M = absint.Machine(P, max_depth=3, opaque={"parser::skip", "document::document::line", "directive::Directive::parse"}, loop_limit=1)
        paths = M.explore(fn, M.arg_unknowns(fn))
        pts = set()
        for p in paths:
            for ev in p.events:
                if ev[0] in ('call', 'push'):
                    for a in (ev[2] if isinstance(ev[2], tuple) else (ev[2],)):
                        if isinstance(a, str):
                            pts.update(codepoint_line_args(a))
            if p.exit == "Err":
                pts.update(codepoint_line_args(M.describe(p.state, p.ret)))
        plus_one = re.compile(r"^\(skip\(.*\)(@\d+)?(\.0)?:Some\.0\.0 \+ 1\)$")
        # a line number kept from an earlier round (the line that opened what is being skipped): a local that is only ever given the
        # current line number, and whose initial 0 is never shown - the error that shows it needs a search for .endif/.endmacro to have
        # run, which the scanner does not do in the mode the loop starts in
        kept = set()
        if "0" in pts and kept_line_locals(P, fn) and not first_round_can_be_unterminated(P):
            kept.add("0")
        ok = bool(pts - kept) and all(plus_one.match(x) for x in pts - kept)
        rep.ob("C15.line-number|plus-one", ok, "every CodePoint built for a source line is (index delivered by the line iterator + 1) [%d shapes]" % len(pts) if ok else
               "CodePoint line numbers are %s" % sorted(pts)[:3])
    else:
        rep.unprovable("C15.line-number|anchor", "parse_iter not found")
    # a conditional or macro definition that is never closed is a fault of the line that opened it: the scanner says so when it runs out
    # of text in search of the closing line, and the line loop turns that into an error
    unterminated_is_reported(P, rep)
    pk = "parser::parse"
    if pk in P.body:
        calls = [MU.callee_names(t)[1] for _, t, _, _ in P.call_sites(pk)]
        ok = "core::str::<impl str>::lines" in calls and "std::iter::Iterator::enumerate" in calls and not any(c.endswith(("::skip", "::rev", "::filter")) for c in calls)
        rep.ob("C15.line-number|enumerate", ok, "the line iterator is input.lines().enumerate(): index 0 is the first line" if ok else "line iterator is not lines().enumerate(): %s" % calls)
    # ---- .message / .warning / .error
    M = absint.Machine(P, max_depth=4, opaque={"expr::Expr::run", "parser::parse_file_internal"})
    fn = "directive::Directive::parse"
    dv = rules_C08.dvariants(P)
    inv = {n: d for d, n in dv.items()}
    doms = {sx.S("self*#d", 64, True): sx.dom_set(inv[w] for w in ("Message", "Warning", "Error"))}
    paths = M.explore(fn, M.arg_unknowns(fn), doms=doms)
    per = {}
    for p in paths:
        d = None
        for s_, dd in p.state.doms.items():
            if isinstance(s_, tuple) and s_[0] == 's' and s_[1] == "self*#d" and sx.dom_size(dd) == 1:
                d = dv[sx.dom_min(dd)]
        if d:
            per.setdefault(d, []).append(p)
    for d in ("Message", "Warning"):
        oks = [p for p in per.get(d, []) if p.exit == "Ok"]
        good = bool(oks)
        for p in oks:
            pushes = [e for e in p.events if e[0] in ('push',) or (e[0] == 'call' and e[1].endswith("Vec::<T, A>::push"))]
            setters = [e for e in p.events if e[0] == 'call' and (re.search(r"::set_\w+$|::push_to_last$|::add_segment$|HashMap::<K, V, S, A>::insert$", e[1]))]
            msg = [e for e in pushes if "messages" in str(e[1]) or "messages" in str(e[2])]
            txt = " ".join(str(e[2]) for e in msg)
            if len(msg) != 1 or setters or "point" not in txt and "CodePoint" not in txt:
                good = False
        rep.ob("C15.message|%s" % d.lower(), good, ".%s appends exactly one string that includes its line to the message list and changes nothing else" % d.lower() if good else
               ".%s does not push exactly one message with its line / has other effects" % d.lower())
        mode = {M.describe(p.state, p.ret[3][0]) for p in oks}
        rep.ob("C15.message|%s|continues" % d.lower(), mode == {"NextItem::NewLine"}, ".%s does not change what is assembled next" % d.lower() if mode == {"NextItem::NewLine"} else ".%s yields mode %s" % (d.lower(), mode))
    errs = per.get("Error", [])
    wellformed_ok = [p for p in errs if p.exit == "Ok"]
    rep.ob("C15.error|always-fails", bool(errs) and not wellformed_ok, ".error returns an error on every path of its arm" if errs and not wellformed_ok else
           ".error can return Ok (%d paths)" % len(wellformed_ok))
    # ---- message flow
    chain = [("parser::ParseContext::as_parse_result", "parser::ParseResult"), ("builder::pass0::build_pass_0", None), ("builder::pass0::Pass0Context::as_pass0_result", "builder::pass0::BuildResultPass0"),
             ("builder::pass1::build_pass_1", "builder::pass1::BuildResultPass1"), ("builder::pass2::build_pass_2", "builder::pass2::BuildResultPass2"),
             ("builder::build_from_parsed", "builder::BuildResult")]
    BAD = re.compile(r"::(sort\w*|reverse|dedup\w*|retain|drain|truncate|clear|swap\w*|rotate\w*|remove|insert|filter|rev|skip|take)$")
    for fn, adt in chain:
        b = P.body.get(fn)
        if b is None:
            rep.unprovable("C15.messages|%s" % fn, "%s not found" % fn)
            continue
        if adt is None:
            # build_pass_0 seeds its context's message list with the parser's
            locs = None
            okm = False
            for bl in b["blocks"]:
                for st in bl["stmts"]:
                    if st["k"] == "assign" and st["rv"]["k"] == "agg" and st["rv"]["kind"].get("path") == "builder::pass0::Pass0Context":
                        fields = [f["name"] for f in P.lib.adts["builder::pass0::Pass0Context"]["variants"][0]["fields"]]
                        o = st["rv"]["ops"][fields.index("messages")]
                        l2, c2, calls2, p2 = MU.backward_slice(b, [o])
                        okm = 1 in l2 and not any(BAD.search(MU.callee_names(c)[1]) for c in calls2)
            rep.ob("C15.messages|%s" % fn, okm, "pass 0 continues the parser's message list" if okm else "pass 0 does not start from the parser's message list")
            continue
        fields = [f["name"] for f in P.lib.adts[adt]["variants"][0]["fields"]]
        agg = None
        for bl in b["blocks"]:
            for st in bl["stmts"]:
                if st["k"] == "assign" and st["rv"]["k"] == "agg" and st["rv"]["kind"].get("path") == adt:
                    agg = st["rv"]
        if agg is None or "messages" not in fields:
            rep.unprovable("C15.messages|%s" % fn, "result aggregate of %s not found" % fn)
            continue
        o = agg["ops"][fields.index("messages")]
        locs, consts, calls, places = MU.backward_slice(b, [o])
        names = [MU.callee_names(c)[1] for c in calls]
        bad = [n for n in names if BAD.search(n)]
        src = any(1 <= l <= b["arg_count"] for l in locs) or any(1 <= pl["local"] <= b["arg_count"] for pl in places)
        rep.ob("C15.messages|%s" % fn, src and not bad, "%s hands the message list on by move/clone only" % fn.split("::")[-1] if src and not bad else
               "%s rebuilds or reorders the message list (%s)" % (fn.split("::")[-1], bad or "not derived from its input"))
    # an item with a fault in it can only be reported if the pass that would find the fault walks over it: pass 2's item loop runs for
    # every segment, of whatever type (the same rule as C10.sequence|every-segment, stated here for the errors it guards)
    import rules_C10
    rules_C10.every_segment(P, rep, "C15.reach|pass2-every-segment")
    # a .message / .warning line is assembled whatever its text says: nothing in front of the grammar may turn a line away because of
    # characters inside its quoted text (the nesting guard judges only what the grammar's code_part rule hands it: C14's layering rule)
    import grammar
    import rules_C14
    g_, gp_ = grammar.load_checked(P)
    for pr_ in gp_:
        rep.unprovable("C15.message|grammar-cross-check", pr_)
    rules_C14.prefilters(P, g_, rep, prefix="C15.message|quoted-text-not-judged")
    import rules_C02
    rules_C02.byte_operand_dropped(P, rep, "C15.silent|byte-operand", "a line that is at fault (`.byte nosuch`, `.byte 1/0`, `.byte \"x\"`) is ignored instead of failing the build with its number")
    import rules_C09
    rules_C09.expansion_is_deferred(P, rep, "C15.message|macro-body-order", "every .message/.warning that comes out of a macro body is appended after all messages of the file: source order A, B(body), C gives A, C, B")
    return rep
