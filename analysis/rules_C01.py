"""C01 — every valid instruction assembles to its exact AVR ISA machine code.

Part 2 (encoding) of DESIGN.md §4 C01: E1 explores instruction::process symbolically (operands stay symbols), every Ok path is
matched to its ISA row (spec/avr_isa.json) and the emitted bytes are compared bit by bit with the row's pattern: constant opcode
bits, each field bit = the right bit of the right operand, low byte first, word count; and the operand values accepted on the
union of the row's Ok paths must include every legal value.  Part 1 (recognition, grammar) and part 3 (glue) are added below."""
import encoder as E
import facts as F
import graph as G
import sx
from common import Reporter

ROW_FLOOR = 139


def run(tier):
    rep = Reporter("C01", tier, "proof", "bit-provenance dataflow over all acyclic paths of the encoder vs. an independent ISA table")
    rep.explanation = ("Every Ok path of instruction::process is explored with symbolic operands (one path = all operand values in its value "
                       "sets); the emitted bytes are compared bit-for-bit with the ISA pattern of the matching row and the accepted operand "
                       "sets with the legal sets.")
    rep.trusted = ["rustc nightly MIR of /repo", "spec/avr_isa.json (written from the AVR Instruction Set Manual)",
                   "E1 transfer functions and the ~40 std/byteorder summaries (analysis/summaries.py)"]
    rep.assumptions = ["Expr::run is opaque here: an operand expression evaluates to some i64 (its semantics is C05)",
                       "the reduced core differs from the others in the legal registers (r16..r31) and in the one-word lds/sts"]
    P = G.Program(F.load("dev"))
    A = E.analyse(P)
    rep.count("paths of process explored", A["n_paths"])
    rep.count("Ok paths", A["exits"].get("Ok", 0))
    if A["capped"] or A["unsupported"]:
        rep.unprovable("C01.explore", "exploration of process incomplete (capped=%s, unsupported=%s)" % (A["capped"], A["unsupported"][:3]))
    matched_rows = set()
    for (form, core, kinds), g in sorted(A["groups"].items()):
        r = g["row"]
        matched_rows.add((form, core))
        tag = "%s|%s|%s" % (form, core, "+".join(kinds) or "-")
        for clause, ok, text, wit in g["findings"]:
            if clause.endswith("+"):
                continue
            kind = "unprovable" if isinstance(wit, dict) and wit.get("kind") == "unprovable" else "violated"
            extra = [t for c2, o2, t, w2 in g["findings"] if c2 == clause + "+"]
            rep.ob("C01.%s|%s" % (clause, tag), ok, ("%s: %s" % (form, text)) + ((" (also: %s)" % "; ".join(extra)) if extra else ""),
                   detail=wit, kind=kind,
                   sample={"row": form, "core": core, "operand kinds": list(kinds), "pattern": r["pattern"], "verdict": text,
                           "method": sorted(g["method"]), "paths": g["paths"]} if ok and clause == "encoding" else None)
        # nothing legal is rejected: legal ⊆ accepted (per operand kind: direct register and alias separately)
        for L, leg in sorted(g["legal"].items()):
            acc = g["accepted"].get(L)
            ok = acc is not None and sx.dom_subset(leg, acc)
            missing = None
            if not ok and acc is not None:
                missing = [v for v in sx.dom_iter(sx.dom_norm(leg))][:0]
                lv = sx.dom_norm(leg)
                if lv[0] == 'set':
                    missing = sorted(v for v in lv[1] if not sx.dom_contains(acc, v))[:8]
            rep.ob("C01.accept|%s|%s" % (tag, L), ok,
                   "%s: every legal %s (%s) is accepted" % (form, L, sx.dom_show(leg)) if ok else
                   "%s: legal %s values are rejected (accepted %s, legal %s, e.g. %s)" % (form, L, sx.dom_show(acc) if acc else "-", sx.dom_show(leg), missing),
                   detail={"accepted": sx.dom_show(acc) if acc else None, "legal": sx.dom_show(leg), "rejected": missing})
        # the same on the reduced core, where the legal registers are r16..r31 (instructions that core lacks are C13's)
        if r["core"] == "any" and r["op"] not in A["rc_absent_ops"]:
            for L, leg in sorted(g.get("legal_rc", {}).items()):
                acc = g.get("accepted_rc", {}).get(L)
                ok = acc is not None and sx.dom_subset(leg, acc)
                rep.ob("C01.accept-rc|%s|%s" % (tag, L), ok,
                       "%s: on a reduced core every legal %s (%s) is accepted" % (form, L, sx.dom_show(leg)) if ok else
                       "%s: on a reduced core legal %s values are rejected (accepted %s, legal %s)" % (form, L, sx.dom_show(acc) if acc else "-", sx.dom_show(leg)),
                       detail={"accepted": sx.dom_show(acc) if acc else None, "legal": sx.dom_show(leg)})
    rep.floor("reduced-core acceptance obligations", sum(1 for o in rep.obligations if o[0].startswith("C01.accept-rc|")), 240)
    # every ISA row is reachable with direct operands
    spec = E.isa()
    nrows = 0
    for r in spec["rows"]:
        nrows += 1
        form = E.form_name(r)
        ok = (form, r["core"]) in matched_rows
        rep.ob("C01.row|%s|%s" % (form, r["core"]), ok,
               "%s (%s) is assembled on some path" % (form, r["core"]) if ok else
               "no successful path of the encoder produces the ISA form %s (%s): a legal instruction is rejected" % (form, r["core"]),
               nontrivial=False)
    rep.floor("ISA rows in the oracle", nrows, ROW_FLOOR)
    rep.floor("row x operand-kind groups compared", len(A["groups"]), 250)
    import rules_C01_extra
    rules_C01_extra.recognition(P, rep)
    rules_C01_extra.glue(P, rep)
    rules_C01_extra.reduced_core_devices(P, rep)
    # an operand written with `pc` is encoded from the address of its own instruction
    import rules_C03
    rules_C03.pc_glue(P, rep, "C01.glue|pc")
    return rep
