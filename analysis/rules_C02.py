"""C02 — label values and .org positions equal where the bytes really land  (clauses a–f, not the whole behaviour).

What is in the shape of the code — and exactly where the two passes can drift apart — is the per-item and per-segment arithmetic:
 a (P) instruction length: 2 x Operation::info(op).len (pass 1) = bytes emitted by process on every Ok path (pass 2), per operation and core;
 b (P) data width: per (directive, segment type, operand kinds) the advance of the label counter in pass 1 equals the advance of
       cur_address in pass 2, and unit(segment) x that equals the bytes appended — compared on a grid of the abstract sizes
       (operand count n, byte sum L) with the per-operand byte model extracted from the GetData/Operand code;
 c (P) odd .db padding is decided once, in pass 1, and pass 2 emits what pass 1 stored;
 d (N) per-type counters in build_pass_1: each segment type reads and writes its own counter; data starts at ram_start;
       ram_filling = data counter − ram_start;
 e (P) .org: start = (segment.address == 0 ? running : segment.address) under the guard segment.address >= running, and the pad loops
       of build_pass_2 bring the image length to unit x address with zero bytes; each fragment goes to its own image;
 f (N) unit consistency (bytes vs words) is the content of b and e.
Not decided: that the sequence of segments produced by parser/pass 0 is the program's sequence, `.org 0` after code, negative .org."""
import re

import absint
import encoder as E
import facts as F
import graph as G
import layout as L
import mirutil as MU
import sx
from sx import C, S
from common import Reporter

UNIT = {"Code": 2, "Eeprom": 1, "Data": 1}


def run(tier):
    rep = Reporter("C02", tier, "other", "one-iteration loop summaries of pass 1 / pass 2 / the segment loops by abstract interpretation; agreement of the extracted per-item tables")
    rep.explanation = ("Pass 1 (size accounting) and pass 2 (emission) are summarised per item kind and per segment over one symbolic loop iteration "
                       "each; the two tables must agree item by item (advance of the counter, bytes appended, padding), the segment counters "
                       "must be per type and the .org padding must land the next fragment at unit x address. Sequences of items then agree "
                       "by induction over the loop, which is an assumption on the loop shape (plain slice iterator, one pass, early exit only "
                       "on Err) that is checked structurally. The behaviour over segment *sequences* produced by the parser is not decided.")
    rep.trusted = ["rustc nightly MIR", "E1 (loop cut with symbolic carried state, iterator/Vec summaries)"]
    rep.assumptions = ["a `for` loop over a slice/vec iterator visits every element once in order", "image lengths < 2^31 (i32 casts in the pad loops)",
                       "macro-generated items reach pass 1 like written ones (C09)"]
    P = G.Program(F.load("dev"))
    clause_a(P, rep)
    rows1, rows2 = clause_bc(P, rep)
    clause_d(P, rep)
    clause_e(P, rep, rows1)
    clause_g(P, rep)
    clause_g_segments(P, rep)
    org_zero(P, rep)
    # h. an `.org` (or segment switch) written inside a macro body keeps its effect when the expansion is spliced into the output
    import rules_C09
    rules_C09.splice_headers(P, rep, "C02.h")
    return rep


# ------------------------------------------------------------------------------------------------ a
def info_table(P):
    fn = "instruction::operation::Operation::info"
    M = absint.Machine(P, max_depth=5, opaque={L.GET_DEVICE})
    paths = M.explore(fn, M.arg_unknowns(fn))
    opv = L.variant_names(P, "instruction::operation::Operation")
    out = {}
    problems = []
    for p in paths:
        if p.exit != "ret" or p.ret[0] != 'agg':
            problems.append("info path exits %s" % p.exit)
            continue
        d = p.state.doms.get(S("self*#d", 64, True))
        ops = sorted(sx.dom_iter(sx.dom_norm(d))) if d is not None else sorted(opv)
        core = "any"
        for s, dd in p.state.doms.items():
            if isinstance(s, tuple) and s[0] == 's' and s[1].startswith("contains(") and s[1].endswith("Avr8l)") and sx.dom_size(dd) == 1:
                core = "avr8l" if sx.dom_min(dd) == 1 else "std"
        fields = [f["name"] for f in P.lib.adts["instruction::operation::Info"]["variants"][0]["fields"]]
        ln = p.ret[3][fields.index("len")]
        if ln[0] != 'int' or not sx.is_const(ln[1]):
            problems.append("info().len not constant")
            continue
        for o in ops:
            out[(opv[o], core)] = sx.cval(ln[1])
    return out, problems


def clause_a(P, rep):
    info, problems = info_table(P)
    for pr in problems:
        rep.unprovable("C02.a|info", pr)
    A = E.analyse(P)
    per = {}
    for (form, core, kinds), g in A["groups"].items():
        per.setdefault((g["row"]["op"], core), set()).add(2 * g["row"]["words"] if all(f[1] for f in g["findings"] if f[0] == "length") else -1)
    n = 0
    for (op, core), bytes_set in sorted(per.items()):
        cands = [info.get((op, core)), info.get((op, "any"))] if core != "any" else [info.get((op, "any"))] + [info.get((op, c)) for c in ("std", "avr8l")]
        cands = [c for c in cands if c is not None]
        n += 1
        if not cands:
            rep.unprovable("C02.a|%s|%s" % (op, core), "no info().len found for %s (%s)" % (op, core))
            continue
        want = {2 * c for c in cands[:1]} if core != "any" else {2 * c for c in cands}
        ok = bytes_set == want and -1 not in bytes_set
        rep.ob("C02.a|%s|%s" % (op, core), ok,
               "%s (%s): pass 1 counts %s word(s), pass 2 emits %s bytes" % (op.lower(), core, sorted(c for c in cands[:1] or cands), sorted(bytes_set)) if ok else
               "%s (%s): pass 1 advances labels by %s word(s) but the encoder emits %s bytes — every later label is off" % (op.lower(), core, cands, sorted(bytes_set)),
               sample={"operation": op, "core": core, "info.len": cands[0], "bytes emitted": sorted(bytes_set)})
    rep.floor("operation x core length pairs", n, 80)


# ------------------------------------------------------------------------------------------------ b, c
def clause_bc(P, rep):
    rows1, paths1, M1 = L.pass1_rows(P)
    rows2, paths2, M2 = L.pass2_rows(P)
    rep.count("pass-1 item paths", len(rows1))
    rep.count("pass-2 item paths", len(rows2))
    if M1.capped or M1.unsupported or M2.capped or M2.unsupported:
        rep.unprovable("C02.b|explore", "exploration incomplete: %s %s" % (M1.unsupported[:2], M2.unsupported[:2]))
    # Operand::len model and the fold in actual_len
    fn = "directive::Operand::len"
    ok_len = False
    if fn in P.body:
        M = absint.Machine(P, max_depth=3)
        ps = M.explore(fn, M.arg_unknowns(fn))
        got = {}
        opv = L.variant_names(P, "directive::Operand")
        for p in ps:
            v = L.dom1(p.state, "self*#d")
            if v is not None and p.ret[0] == 'int':
                got[opv[v]] = sx.show(p.ret[1])
        ok_len = got == {"E": "1", "S": "self*:S.0#len"}
        rep.ob("C02.b|operand-len", ok_len, "Operand::len is 1 for an expression and the byte length for a string" if ok_len else "Operand::len model is %s" % got)
    else:
        rep.unprovable("C02.b|operand-len", "Operand::len not found")
    al = P.body.get(L.ACTUAL_LEN)
    okf = False
    if al is not None:
        calls = [MU.callee_names(t)[1] for _, t, _, _ in P.call_sites(L.ACTUAL_LEN)]
        clo = [k for k in P.body if k.startswith(L.ACTUAL_LEN + "::{closure")]
        folds = [t for _, t, _, _ in P.call_sites(L.ACTUAL_LEN) if MU.callee_names(t)[1].endswith("::fold")]
        init0 = bool(folds) and "const" in folds[0]["args"][1] and folds[0]["args"][1]["const"].get("int") == "0"
        body_ok = False
        if len(clo) == 1:
            cb = P.body[clo[0]]
            cc = [MU.callee_names(t)[1] for _, t, _, _ in P.call_sites(clo[0])]
            adds = [st for bl in cb["blocks"] for st in bl["stmts"] if st["k"] == "assign" and st["rv"]["k"] == "bin" and st["rv"]["op"].startswith("Add")]
            body_ok = cc == ["directive::Operand::len"] and len(adds) == 1
        noadapt = not any(re.search(r"::(rev|skip|take|filter|step_by|map)$", c) for c in calls)
        okf = init0 and body_ok and noadapt
    rep.ob("C02.b|actual-len-is-sum", okf, "actual_len = fold(0, |acc, op| acc + op.len()) over all operands" if okf else
           "actual_len is not the plain sum of Operand::len over all operands")

    def d1(r, env):
        """advance of pass 1's counter on row r under env; None when conds do not hold"""
        if not L.conds_hold(r.conds, env):
            return None
        start = env["address"] if env["segment*.address"] == 0 else env["segment*.address"]
        if r.delta is None:
            return 0
        try:
            return L.eval_expr(r.delta, env) - start
        except KeyError:
            return "unknown-symbol"

    item_src = "segment*.items[i].1"
    n_name = item_src + ":Data.1#len"
    l_name = "sumlen(%s:Data.1)" % item_src
    for dd in ("Db", "Dw", "Dd", "Dq"):
        for seg in ("Code", "Eeprom"):
            r1s = [r for r in rows1 if r.item == "Data" and r.dd == dd and r.seg == seg and r.exit == "loop"]
            r2s = [r for r in rows2 if r.item == "Data" and r.dd == dd and r.exit == "loop" and (r.seg == seg or (r.seg is None and seg != "Code"))]
            key = "C02.b|%s|%s" % (dd, seg)
            if not r1s or not r2s:
                rep.unprovable(key, "no continuing path for %s in %s (pass1 %d, pass2 %d)" % (dd, seg, len(r1s), len(r2s)))
                continue
            bad = None
            npts = 0
            for n in range(0, 7):
                for Lsum in (range(0, 14) if dd == "Db" else [0]):
                    for segaddr, addr in ((5000, 3000), (0, 3000)):
                        env = {n_name: n, l_name: Lsum, "segment*.address": segaddr, "address": addr, "more(segment*.items)": 1}
                        hits = [(r, d1(r, env)) for r in r1s]
                        hits = [(r, d) for r, d in hits if d is not None]
                        if len(hits) != 1 or hits[0][1] == "unknown-symbol":
                            bad = "pass 1 has %d applicable paths for n=%d L=%d" % (len(hits), n, Lsum)
                            break
                        r1, delta1 = hits[0]
                        import rules_C06
                        pad = rules_C06._pad_items(r1)
                        if pad is None:
                            bad = "item pushed by pass 1 not readable"
                            break
                        n2, L2 = n + pad, Lsum + pad
                        B = L2 if dd == "Db" else L.WIDTH[dd] * n2
                        for r2 in r2s:
                            bs = [s for s in sx.syms(r2.delta) if s[1].endswith(":Ok.0#len")] if r2.delta is not None else []
                            env2 = {"segment*.address": 7000, "more(segment*.items)": 1}
                            for s in bs:
                                env2[s[1]] = B
                            if not L.conds_hold(r2.conds, env2):
                                continue
                            try:
                                delta2 = L.eval_expr(r2.delta, env2) - 7000
                            except KeyError as e:
                                bad = "pass 2 advance depends on %s" % e
                                break
                            appended = L.vec_len_expr(r2.pushed)
                            nb = L.eval_expr(appended, env2) if appended is not None else None
                            npts += 1
                            if delta1 != delta2:
                                bad = "%s with %d operand(s)/%d byte(s) in %s: pass 1 advances labels by %d, pass 2 by %d" % (
                                    rules_C06.DIRECTIVE[dd], n, Lsum if dd == "Db" else B, seg.lower(), delta1, delta2)
                                break
                            if nb != UNIT[seg] * delta2:
                                bad = "%s in %s: pass 2 appends %s byte(s) but advances its address by %d %s" % (
                                    rules_C06.DIRECTIVE[dd], seg.lower(), nb, delta2, "word(s)" if seg == "Code" else "byte(s)")
                                break
                        if bad:
                            break
                    if bad:
                        break
                if bad:
                    break
            rep.ob(key, bad is None and npts > 0,
                   "%s in %s: pass 1 and pass 2 advance identically and bytes = %d x advance on %d abstract-size points" % (
                       rules_C06.DIRECTIVE[dd], seg.lower(), UNIT[seg], npts) if bad is None and npts else (bad or "no comparable point"),
                   sample={"directive": dd, "segment": seg, "points": npts})
    # instructions: pass 1 adds info.len, pass 2 adds len(process)/2 and appends process' bytes
    r1s = [r for r in rows1 if r.item == "Instruction" and r.seg == "Code" and r.exit == "loop"]
    r2s = [r for r in rows2 if r.item == "Instruction" and r.exit == "loop"]
    def sym_named(e, pred):
        return [s_ for s_ in sx.syms(e) if pred(s_[1])]

    ok1 = bool(r1s)
    shown1 = set()
    for r in r1s:
        if r.delta is None:
            ok1 = False
            continue
        shown1.add(sx.show(r.delta))
        lens = sym_named(r.delta, lambda n: n.startswith("info(segment*.items[i].1:Instruction.0") and n.endswith(".len"))
        if len(lens) != 1:
            ok1 = False
            continue
        for I in (0, 1, 2, 3):
            for segaddr, addr in ((5000, 3000), (0, 3000)):
                env = {lens[0][1]: I, "segment*.address": segaddr, "address": addr, "more(segment*.items)": 1}
                if not L.conds_hold(r.conds, env):
                    continue
                start = addr if segaddr == 0 else segaddr
                try:
                    if L.eval_expr(r.delta, env) - start != I:
                        ok1 = False
                except KeyError:
                    ok1 = False
    rep.ob("C02.b|instruction|pass1", ok1, "pass 1 advances by Operation::info(op).len words" if ok1 else
           "pass 1 does not advance by info(op).len for instructions: %s" % sorted(shown1)[:2])
    ok2 = bool(r2s)
    for r in r2s:
        ap = r.pushed[2] if r.pushed is not None and r.pushed[0] == 'vec' else ()
        if r.delta is None or len(ap) != 1 or ap[0][0] != 'blob' or not str(ap[0][1]).startswith("process("):
            ok2 = False
            continue
        lens = sym_named(r.delta, lambda n: n.startswith("process(") and n.endswith(":Ok.0#len"))
        if len(lens) != 1 or lens[0] not in sx.syms(ap[0][2]):
            ok2 = False
            continue
        for pl in (0, 2, 4, 6):
            env = {lens[0][1]: pl, "segment*.address": 7000, "more(segment*.items)": 1}
            if not L.conds_hold(r.conds, env):
                continue
            try:
                if L.eval_expr(r.delta, env) - 7000 != pl // 2 or L.eval_expr(ap[0][2], env) != pl:
                    ok2 = False
            except KeyError:
                ok2 = False
    rep.ob("C02.b|instruction|pass2", ok2, "pass 2 appends the encoder's bytes and advances by len/2 words" if ok2 else
           "pass 2 does not append exactly the encoder's bytes / advance by len/2")
    inst_seg = [r for r in rows1 if r.item == "Instruction" and r.seg != "Code"]
    rep.ob("C02.b|instruction|segments", bool(inst_seg) and all(r.exit == "Err" for r in inst_seg), "instructions outside the code segment fail the build")
    # reservations
    r1s = [r for r in rows1 if r.item == "ReserveData" and r.exit == "loop"]
    r2s = [r for r in rows2 if r.item == "ReserveData" and r.exit == "loop"]

    def byte_ok(rows, startname):
        ok = bool(rows)
        for r in rows:
            if r.delta is None:
                return False
            for size in (0, 1, 5, 1000):
                for segaddr, addr in ((5000, 3000), (0, 3000)):
                    env = {"segment*.items[i].1:ReserveData.0": size, "segment*.address": segaddr, "address": addr, "more(segment*.items)": 1}
                    if not L.conds_hold(r.conds, env):
                        continue
                    start = segaddr if (startname == "segment" or segaddr != 0) else addr
                    try:
                        if L.eval_expr(r.delta, env) - start != size:
                            ok = False
                    except KeyError:
                        ok = False
        return ok

    okr = byte_ok(r1s, "either")
    okr2 = byte_ok(r2s, "segment")
    kept = {r.seg: (r.pushed is not None and r.pushed[0] == 'vec' and any(s_[0] == 'items' and s_[1] for s_ in r.pushed[2])) for r in r1s}
    rep.ob("C02.b|byte", okr and okr2 and kept.get("Eeprom") is True and kept.get("Data") is False,
           ".byte n advances both passes by n; the item is kept for EEPROM (n zero bytes, C06) and dropped for RAM (nothing is emitted)" if okr and okr2 and kept.get("Eeprom") and kept.get("Data") is False else
           ".byte accounting differs between the passes (pass1 %s, pass2 %s, kept %s)" % (okr, okr2, kept))
    # labels, .set/.def/.undef, pragma do not move the counters
    for kind in ("Label", "Set", "Def", "Undef", "Pragma"):
        r1 = [r for r in rows1 if r.item == kind and r.exit == "loop"]
        r2 = [r for r in rows2 if r.item in (kind, None) and r.exit == "loop"]      # None: pass 2's catch-all arm
        ok = bool(r1) and all(r.delta is not None and sx.show(r.delta) in ("segment*.address", "address") for r in r1) and \
            all(r.delta is not None and sx.show(r.delta) == "segment*.address" and not (r.pushed and r.pushed[2]) for r in r2)
        rep.ob("C02.b|%s" % kind.lower(), ok, "%s items move neither counter and emit nothing" % kind if ok else "%s items change a counter or emit bytes" % kind)
    # labels take the running counter of pass 1
    # (a label that is refused - the name is in use - binds nothing; every label that is accepted is bound)
    labs = [r for r in rows1 if r.item == "Label" and r.exit == "loop"]
    oklab = bool(labs)
    for r in labs:
        ins = [e for e in r.events if e[0] == 'call' and e[1].endswith("HashMap::<K, V, S, A>::insert")]
        if not ins or not re.search(r"agg\(segment\*\.t, (segment\*\.address|address)\)$", ins[0][2][2]):
            oklab = False
    rep.ob("C02.b|label-value", oklab, "a label is bound to (segment type, current counter) at the point where it stands" if oklab else
           "label binding does not use (segment.t, cur_address)")
    return rows1, rows2


# ------------------------------------------------------------------------------------------------ d
def clause_d(P, rep):
    fn = "builder::pass1::build_pass_1"
    M = absint.Machine(P, max_depth=4, opaque={"builder::pass1::pass_1_internal", L.GET_DEVICE}, loop_limit=3)
    M.iter_budget = 2
    paths = M.explore(fn, M.arg_unknowns(fn))
    segv = L.variant_names(P, "parser::SegmentType")
    oks = [p for p in paths if p.exit == "Ok"]
    rep.count("paths of build_pass_1 (two segments)", len(paths))
    INIT = {"Code": "0", "Eeprom": "0", "Data": "<context::CommonContext as context::Context>::get_device(common_context*).ram_start"}
    # reference: per memory a location counter (where the next segment without .org goes on) and the end of what is occupied (what an
    # .org must not go below, what is compared with the capacity and reported).  A segment moves the counter to its end; it moves the
    # occupied end only when it placed something (end > start): an .org that nothing follows takes no space.
    def seg_of(d):
        return 1 if d.startswith("pass_1_internal(parsed.segments[i], ") else 2 if d.startswith("pass_1_internal(parsed.segments[i+1], ") else None
    verdict = {}
    fields = [f["name"] for f in P.lib.adts["builder::pass1::BuildResultPass1"]["variants"][0]["fields"]]
    for p in oks:
        t1 = L.dom1(p.state, "parsed.segments[i].t#d")
        t2 = L.dom1(p.state, "parsed.segments[i+1].t#d")
        if t1 is None or t2 is None:
            continue
        t1, t2 = segv[t1], segv[t2]
        calls = [e for e in p.events if e[0] == 'call' and e[1] == "builder::pass1::pass_1_internal"]
        if len(calls) != 2:
            continue
        v = verdict.setdefault((t1, t2), {"start": [], "floor": [], "rf": [], "paths": 0})
        v["paths"] += 1
        places = {}
        for e, t in p.conds:
            m = re.match(r"^\((pass_1_internal\(parsed\.segments\[i(\+1)?\], .*\)@\d+):Ok\.0\.0 > (pass_1_internal\(parsed\.segments\[i(\+1)?\], .*\)@\d+):Ok\.0\.1\)$", sx.show(e))
            if m and m.group(1) == m.group(3):
                places[seg_of(m.group(1))] = (bool(t), m.group(1) + ":Ok.0.0")
        running = dict(INIT)
        occupied = dict(INIT)
        for k, (t, c) in enumerate(((t1, calls[0]), (t2, calls[1])), 1):
            has_floor = len(c[2]) >= 4
            same = lambda actual, want: (seg_of(actual) == want[1] and actual.endswith(":Ok.0.0") and actual.count(":Ok.0.0") == want[1]) if isinstance(want, tuple) else actual == want
            if not same(c[2][1], running[t]):
                v["start"].append("segment %d (%s) starts at %s, expected %s" % (k, t, c[2][1][:80], str(running[t])[:80]))
            if has_floor and (isinstance(occupied[t], tuple) or c[2][2] != occupied[t]):
                v["floor"].append("segment %d (%s) is checked against %s, expected the end of what is occupied in that memory, %s" % (k, t, c[2][2][:80], str(occupied[t])[:80]))
            if k in places:
                end = places[k][1]
                running[t] = end
                if places[k][0]:
                    occupied[t] = end
            else:
                # no test of `end > start` on this path: the occupied end must then not depend on this segment at all, or the
                # tree counts an .org that nothing follows as occupied
                running[t] = ("end", k)
                occupied[t] = ("?", k)
        ret = p.ret[3][0] if p.ret[0] == 'agg' and p.ret[3] else None
        if ret is not None and ret[0] == 'agg':
            d = M.describe(p.state, ret[3][fields.index("ram_filling")])
            occ = occupied["Data"]
            if isinstance(occ, tuple):
                v["rf"].append("ram_filling is %s although segment %d may have placed nothing (an .org that nothing follows would count as used RAM)" % (d[:120], occ[1]))
            elif d != "(%s - %s)" % (occ, INIT["Data"]):
                v["rf"].append("ram_filling is %s, expected (%s - ram_start)" % (d[:160], occ[:120]))
    seen = set(verdict)
    for (t1, t2), v in sorted(verdict.items()):
        ok = not v["start"] and not v["floor"]
        rep.ob("C02.d|%s-then-%s" % (t1, t2), ok,
               "%s then %s: the second segment goes on at the location counter of its own memory and is checked against what is occupied there (%d paths)" % (t1, t2, v["paths"]) if ok else
               "%s then %s: %s" % (t1, t2, "; ".join(dict.fromkeys(v["start"] + v["floor"]))))
        okrf = not v["rf"]
        rep.ob("C02.d|ram_filling|%s-%s" % (t1, t2), okrf, "ram_filling = end of the last data segment that placed something − ram_start" if okrf else "; ".join(dict.fromkeys(v["rf"])))
    rep.ob("C02.d|coverage", len(seen) == 9, "all 9 ordered pairs of segment types analysed (%d)" % len(seen), kind="unprovable", nontrivial=False)
    # the segment handed to pass 2 carries pass 1's start address and items
    okp = False
    for p in oks:
        for e in p.events:
            if e[0] == 'push' and re.search(r"^Segment::Segment\(pass_1_internal\((.*)\)@\d+:Ok\.0\.2, parsed\.segments\[i\]\.t, pass_1_internal\(\1\)@\d+:Ok\.0\.1\)$", e[2]):
                okp = True
    rep.ob("C02.d|segment-handover", okp, "pass 2 receives (items, type, start address) exactly as pass 1 computed them" if okp else
           "the segment pushed for pass 2 is not (pass-1 items, same type, pass-1 start address)")


# ------------------------------------------------------------------------------------------------ e
def clause_e(P, rep, rows1):
    # start address and overlap guard in pass_1_internal
    fn = "builder::pass1::pass_1_internal"
    M = absint.Machine(P, max_depth=3, opaque={"instruction::operation::Operation::info"}, summaries={L.ACTUAL_LEN: L.actual_len_summary}, loop_limit=2)
    M.iter_budget = 0
    paths = M.explore(fn, M.arg_unknowns(fn))
    oks = [p for p in paths if p.exit == "Ok"]
    errs = [p for p in paths if p.exit == "Err"]
    variants = set()
    for p in oks:
        cs = {(sx.show(e), t) for e, t in p.conds if "segment*.address" in sx.show(e)}
        start = p.ret[3][0][3][1] if p.ret[0] == 'agg' and p.ret[3] and p.ret[3][0][0] == 'agg' else None
        end = p.ret[3][0][3][0] if start is not None else None
        sd = M.describe(p.state, start) if start is not None else None
        ed = M.describe(p.state, end) if end is not None else None
        variants.add((tuple(sorted(cs)), sd, ed))
    # the parameters by position: the running location counter, and (when the function takes one) the end of what is occupied
    body = P.body[fn]
    import canon_params
    pnames = canon_params.names_of(P, fn)
    u32s = [pnames[i - 1] for i in range(1, body["arg_count"] + 1) if P.tys(fn, body["locals"][i]["ty"]) == "u32"]
    running = u32s[0] if u32s else "address"
    floor = u32s[1] if len(u32s) > 1 else running
    want = {((("(segment*.address == 0)", True),), running, running),
            ((("(segment*.address < %s)" % floor, False), ("(segment*.address == 0)", False)), "segment*.address", "segment*.address")}
    ok = variants == want
    rep.ob("C02.e|start-and-guard", ok,
           "segment start = running offset when no .org was given, else the .org address, accepted iff it is not below what is occupied in that memory" if ok else
           "start/guard of a segment differ from (address == 0 ? running : address) under address >= occupied end: %s" % sorted(variants, key=str),
           detail={"found": sorted(variants, key=str)})
    eg = [p for p in errs if any(sx.show(e) == "(segment*.address < %s)" % floor and t for e, t in p.conds)]
    rep.ob("C02.e|overlap-rejected", len(eg) == 1 and len(errs) == 1, "a segment placed below the running offset fails the build" if len(eg) == 1 and len(errs) == 1 else
           "overlap handling: %d error paths, %d for the overlap guard" % (len(errs), len(eg)))
    # pad loops of build_pass_2
    fn = "builder::pass2::build_pass_2"
    M = absint.Machine(P, max_depth=4, opaque={"builder::pass2::pass_2_internal"}, loop_limit=3)
    M.iter_budget = 2
    paths = M.explore(fn, M.arg_unknowns(fn))
    segv = L.variant_names(P, "parser::SegmentType")
    fields = [f["name"] for f in P.lib.adts["builder::pass2::BuildResultPass2"]["variants"][0]["fields"]]
    rep.count("paths of build_pass_2 (two segments)", len(paths))
    done = {}
    for p in paths:
        if p.exit != "Ok":
            continue
        t1 = L.dom1(p.state, "pass1.segments[i].t#d")
        t2 = L.dom1(p.state, "pass1.segments[i+1].t#d")
        if t1 is None or t2 is None:
            continue
        t1, t2 = segv[t1], segv[t2]
        ret = p.ret[3][0]
        imgs = {"Code": ret[3][fields.index("code")], "Eeprom": ret[3][fields.index("eeprom")]}
        rec = done.setdefault((t1, t2), {"bad": [], "n": 0, "trips": set()})
        rec["n"] += 1

        def is_fragment(seg):
            return seg[0] == 'blob' and str(seg[1]).startswith("pass_2_internal(")

        def which(seg):
            return "[i+1]" if "segments[i+1]" in str(seg[1]) else "[i]"

        # fragments land in their own image, in order
        for T, img in imgs.items():
            if img[0] != 'vec':
                rec["bad"].append("%s image is not a readable sequence" % T)
                continue
            got = [which(sg) for sg in img[2] if is_fragment(sg)]
            want = []
            if t1 == T:
                want.append("[i]")
            if t2 == T:
                want.append("[i+1]")
            if got != want:
                rec["bad"].append("%s image holds fragments %s, expected %s" % (T, got, want))
        # position of each fragment: total length of everything in front of it must be unit x its segment's address
        for T, img in imgs.items():
            if img[0] != 'vec':
                continue
            unit = UNIT[T]
            before = []
            for sg in img[2]:
                if is_fragment(sg):
                    tag = which(sg)
                    addr_name = "pass1.segments[i+1].address" if tag == "[i+1]" else "pass1.segments[i].address"
                    total = C(0, 64, False)
                    zero_fill = True
                    for b2 in before:
                        if b2[0] == 'items':
                            total = sx.Bin('Add', total, C(len(b2[1]), 64, False), 64, False)
                            if not is_fragment(b2) and any(not (it[0] == 'int' and sx.is_const(it[1]) and sx.cval(it[1]) == 0) for it in b2[1]):
                                zero_fill = False
                        else:
                            total = sx.Bin('Add', total, b2[2], 64, False)
                            if not is_fragment(b2) and str(b2[1]) != "fill(0)":
                                zero_fill = False
                    if not zero_fill:
                        rec["bad"].append("padding in front of the %s fragment %s is not zero bytes" % (T, tag))
                    # pass 1 counts a segment as occupying its memory only when it places something (the end moves); pass 2 may fill
                    # the gap in front of a segment only on the same condition, i.e. where the fragment is known not to be empty
                    pad_here = []
                    for b2 in reversed(before):
                        if is_fragment(b2):
                            break
                        pad_here.append(b2)
                    if pad_here and len(sg) > 2:
                        lsyms = {sy[1] for sy in sx.syms(sg[2])}
                        if lsyms:
                            envz = {"pass1.segments[i].address": 7, "pass1.segments[i+1].address": 64}
                            for sy in {sy2 for e_, t_ in p.conds for sy2 in sx.syms(e_)}:
                                if sy[1].endswith("#len"):
                                    envz[sy[1]] = 6
                            for nm in lsyms:
                                envz[nm] = 0
                            for a1, a2 in ((7, 64), (0, 0), (100, 3), (4096, 5000)):
                                envz["pass1.segments[i].address"], envz["pass1.segments[i+1].address"] = a1, a2
                                if L.conds_hold(p.conds, envz):
                                    rec["bad"].append("the gap in front of the %s fragment %s is filled on a path where the fragment may be empty (a segment of "
                                                      "directives that place nothing): pass 1 does not count such a segment as occupying, so the overlap "
                                                      "and capacity checks and the labels behind it disagree with the image" % (T, tag))
                                    break
                    # pad loops of the old shape leave a trip count we cannot sum: detect and use the loop bound instead
                    rng = [e for e in p.events if e[0] == 'range-next' and addr_name.split(".")[1] in e[2]]
                    checked = 0
                    for a1 in (0, 1, 7, 100, 4096):
                        for a2 in (0, 3, 64, 5000):
                            for f1 in (0, 2, 6, 40, 200):
                                env = {"pass1.segments[i].address": a1, "pass1.segments[i+1].address": a2}
                                for sy in sx.syms(total) | {sy2 for e_, t_ in p.conds for sy2 in sx.syms(e_)}:
                                    if sy[1].endswith(":Ok.0#len"):
                                        env[sy[1]] = f1
                                if not L.conds_hold(p.conds, env):
                                    continue
                                # pass 1 guarantees: a segment never starts below what is already in its image
                                try:
                                    tot = L.eval_expr(total, env)
                                except KeyError as ke:
                                    rec["bad"].append("length in front of a fragment depends on %s" % ke)
                                    break
                                addr = env[addr_name]
                                if rng:
                                    continue
                                checked += 1
                                if tot < unit * addr:
                                    rec["bad"].append("%s fragment %s starts at byte %d, its segment's address is %d (x%d = %d): the gap is not filled" % (T, tag, tot, addr, unit, unit * addr))
                                elif tot > unit * addr:
                                    # only legal when the image was already longer than the address (excluded by pass 1's overlap guard):
                                    # the path must then not have padded anything
                                    grew = any(b2[0] == 'blob' and str(b2[1]).startswith("fill(") for b2 in before[-1:])
                                    if grew:
                                        rec["bad"].append("%s fragment %s starts at byte %d although padding ran; expected %d" % (T, tag, tot, unit * addr))
                    rec["trips"].add(checked)
                before.append(sg)
        # old shape (counted pad loops): keep the loop-bound identity
        for T in ("Code", "Eeprom"):
            if t2 != T:
                continue
            rng = [e for e in p.events if e[0] == 'range-next' and "segments[i+1]" in e[2]]
            if not rng:
                continue
            unit = UNIT[T]
            lo, hi = rng[0][4], rng[0][5]
            if not sx.is_const(lo) or sx.cval(lo) != 0:
                rec["bad"].append("pad loop does not start at 0")
            addr = [s_ for s_ in sx.syms(hi) if s_[1].endswith("segments[i+1].address")]
            lens = [s_ for s_ in sx.syms(hi) if s_[1].endswith("#len")]
            if len(addr) != 1:
                rec["bad"].append("pad loop bound does not depend on the segment address: %s" % sx.show(hi))
                continue
            for a2 in (0, 1, 7, 100, 4096):
                for lb in (0, 2, 6, 40, 200):
                    env = {addr[0]: a2}
                    for s_ in lens:
                        env[s_] = lb
                    for s_ in sx.syms(hi):
                        env.setdefault(s_, 0)
                    try:
                        h = sx.evaluate(hi, env)
                    except sx.Unevaluable:
                        continue
                    lenb = lb if (t1 == t2 and lens) else 0
                    if lenb % unit or a2 * unit < lenb:
                        continue
                    if lenb + unit * max(0, h) != unit * a2:
                        rec["bad"].append(".org %d after %d byte(s) of %s: pad loop runs %d time(s) x %d byte(s)" % (a2, lenb, T.lower(), max(0, h), unit))
    for (t1, t2), rec in sorted(done.items()):
        bad = sorted(set(rec["bad"]))
        rep.ob("C02.e|pad|%s-then-%s" % (t1, t2), not bad,
               "%s then %s: fragments go to their own image and zero padding brings the image to unit x .org address (%d paths, %d positions evaluated)" % (
                   t1, t2, rec["n"], sum(rec["trips"])) if not bad else "%s then %s: %s" % (t1, t2, "; ".join(bad[:3])),
               detail={"problems": bad})
    rep.ob("C02.e|coverage", len(done) == 9, "all 9 ordered pairs of segment types analysed for padding (%d)" % len(done), kind="unprovable", nontrivial=False)


# ------------------------------------------------------------------------------------------------ g
def clause_g(P, rep):
    """(P) `.org` and `.byte` never drop an operand silently: every success path of their arms in Directive::parse has the directive's
    effect (segment address stored / reservation item pushed); a missing or unusable operand is an error."""
    import rules_C08
    fn = "directive::Directive::parse"
    dv = rules_C08.dvariants(P)
    inv = {n: d for d, n in dv.items()}
    M = absint.Machine(P, max_depth=4, opaque={"expr::Expr::run", "parser::parse_file_internal", "parser::ParseContext::push_to_last",
                                               "parser::ParseContext::last_segment", "parser::ParseContext::add_segment"})
    doms = {S("self*#d", 64, True): sx.dom_set([inv["Org"], inv["Byte"]])}
    paths = M.explore(fn, M.arg_unknowns(fn), doms=doms)
    for d, effect, what in (("Org", lambda p: any(e[0] == 'store' and e[1].endswith(".2") or (e[0] == 'store' and "address" in e[1]) for e in p.events),
                             "the segment's start address is stored"),
                            ("Byte", lambda p: any(e[0] == 'call' and e[1].endswith("::push_to_last") and "ReserveData" in " ".join(e[2]) for e in p.events),
                             "a reservation item is pushed")):
        oks = [p for p in paths if p.exit == "Ok" and L.dom1(p.state, "self*#d") == inv[d]]
        silent = [p for p in oks if not effect(p)]
        shapes = set()
        for p in silent:
            ds = sorted("%s=%s" % (s_[1][-40:], sx.dom_show(dd)) for s_, dd in p.state.doms.items() if isinstance(s_, tuple) and s_[0] == 's' and s_[1].endswith("#d") and s_[1] != "self*#d" and sx.dom_size(dd) <= 3)
            shapes.add("; ".join(ds))
        rep.ob("C02.g|%s" % d.lower(), bool(oks) and not silent,
               ".%s: on every success path %s; anything else is an error" % (d.lower(), what) if oks and not silent else
               ".%s can succeed without any effect (%d of %d success paths): the operand is silently dropped and everything after it is placed as if the "
               "directive were not there — operand shapes: %s" % (d.lower(), len(silent), len(oks), sorted(shapes)[:2]),
               detail={"silent paths": len(silent), "shapes": sorted(shapes)})


def org_zero(P, rep):
    """`.org N` makes the next item land at N - for N = 0 as well.  The passes keep a segment's start as a plain number in which 0 stands
    for `no .org`: pass 1 branches on `address == 0` and then goes on at the running counter, so an `.org 0` that was written cannot
    be told from none."""
    fn = "builder::pass1::pass_1_internal"
    if fn not in P.body:
        rep.unprovable("C02.g|org-zero", "pass_1_internal not found")
        return
    M = absint.Machine(P, max_depth=3, loop_limit=1)
    paths = M.explore(fn, M.arg_unknowns(fn))
    sentinel = any(re.match(r"^\(segment\*\.address == 0\)$", sx.show(e)) and t for p in paths for e, t in p.conds)
    aty = P.tys("parser::parse", 0) if False else None
    fields = {f["name"]: f for f in P.lib.adts["parser::Segment"]["variants"][0]["fields"]}
    rep.ob("C02.g|org-zero", not sentinel,
           "a segment's start is used as stored, whatever its value" if not sentinel else
           "pass 1 takes a stored start address of 0 for `no .org` and goes on at the running counter: `nop / .org 0 / x: nop` gives x = 1 and no overlap error, `.eseg / .db 1 / .org 0 / e: .db 2` puts e at 1")


def byte_operand_dropped(P, rep, key, consequence):
    """The same decision as C02.g|byte under another property's key: `.byte` with an operand that is not a number literal succeeds
    without any effect.  `consequence` says what that means for the property at hand."""
    import rules_C08
    fn = "directive::Directive::parse"
    dv = rules_C08.dvariants(P)
    inv = {n: d for d, n in dv.items()}
    M = absint.Machine(P, max_depth=4, opaque={"expr::Expr::run", "parser::parse_file_internal", "parser::ParseContext::push_to_last",
                                               "parser::ParseContext::last_segment", "parser::ParseContext::add_segment"})
    paths = M.explore(fn, M.arg_unknowns(fn), doms={S("self*#d", 64, True): sx.dom_set([inv["Byte"]])})
    oks = [p for p in paths if p.exit == "Ok"]
    silent = [p for p in oks if not any(e[0] == 'call' and e[1].endswith("::push_to_last") and "ReserveData" in " ".join(e[2]) for e in p.events)]
    rep.ob(key, bool(oks) and not silent,
           ".byte: every success path pushes a reservation; an operand that cannot be used is an error" if oks and not silent else
           ".byte can succeed without any effect (%d of %d success paths: the operand is not a number literal): %s" % (len(silent), len(oks), consequence),
           detail={"silent paths": len(silent)})


def clause_g_segments(P, rep):
    """(P) what the segment directives and `.org` do to the segment list, exactly: `.cseg/.dseg/.eseg` open a fresh segment of their
    type when the current one holds items and otherwise only re-type the (empty) current one — its start address, which an `.org` may just
    have set, is left alone; `.org` opens a fresh segment of the current type when the current one holds items and then stores the value."""
    import rules_C08
    fn = "directive::Directive::parse"
    dv = rules_C08.dvariants(P)
    inv = {n: d for d, n in dv.items()}
    want_t = {"CSeg": "Code", "DSeg": "Data", "ESeg": "Eeprom"}
    M = absint.Machine(P, max_depth=4, opaque={"expr::Expr::run", "parser::parse_file_internal"})
    paths = M.explore(fn, M.arg_unknowns(fn), doms={S("self*#d", 64, True): sx.dom_set([inv[d] for d in want_t])})
    if M.capped or M.unsupported:
        rep.unprovable("C02.g|segment-switch|explore", "exploration incomplete: %s" % M.unsupported[:2])
        return
    fields = [f["name"] for f in P.lib.adts["parser::Segment"]["variants"][0]["fields"]]
    ft = fields.index("t")
    per = {}
    for p in paths:
        # the directive of the path: its type is what gets written / pushed
        d = L.dom1(p.state, "self*#d")
        eff = [(e[0], e[1], e[2]) for e in p.events if e[0] in ('store', 'push')]
        empty = addressed = same_type = None
        type_facts = []
        for e, t in p.conds:
            sh = sx.show(e)
            if sh.endswith(".items#len == 0)"):
                empty = t
            if sh.endswith(".address != 0)"):
                addressed = t
            if sh.endswith(".address == 0)"):
                addressed = not t
            m = re.search(r"^\((?:[\w:<> ]*::)?(ne|eq)\(.*\.t, SegmentType::\w+\)(?:@\d+)? == 0\)$", sh)
            if m:
                # (ne(..) == 0) holds: equal types
                same_type = t if m.group(1) == "ne" else (not t)
            # the same comparison inlined: the discriminant of the current segment's type against a constant
            m = re.search(r"\.t#d == (0x[0-9a-f]+|\d+)\)$", sh)
            if m:
                tdisc = int(m.group(1), 0)
                type_facts.append((tdisc, t))
        per.setdefault(dv.get(d) if d is not None else None, []).append((p.exit, empty, addressed, same_type, eff, type_facts))
    # paths whose directive is not pinned by a condition belong to the `_ => Code` default of the inner match: attribute by effect
    for dname, tname in want_t.items():
        rows = per.get(dname, []) + [r for r in per.get(None, [])]
        okd = True
        why = ""
        seen_nonempty = seen_empty = False
        segd = {v["name"]: int(v["discr"]) for v in P.lib.adts["parser::SegmentType"]["variants"]}
        for exit_, empty, addressed, same_type, eff, type_facts in rows:
            for tdisc, truth in type_facts:
                if tdisc == segd.get(tname):
                    same_type = truth
                elif truth:
                    same_type = False
            if exit_ != "Ok":
                okd, why = False, "a segment directive can fail"
                continue
            mine = [x for x in eff if ("SegmentType::%s" % tname) in str(x[2])]
            if not mine:
                continue
            fresh = len(eff) == 1 and eff[0][0] == 'push' and re.search(r"Segment::Segment\(vec, SegmentType::%s, 0\)" % tname, str(eff[0][2]))
            retype = len(eff) == 1 and eff[0][0] == 'store' and eff[0][1].endswith(".%d" % ft) and str(eff[0][2]) == "SegmentType::%s" % tname
            if empty is False:
                seen_nonempty = True
                if not fresh:
                    okd, why = False, "with items in the current segment the directive does not open exactly one fresh %s segment (effects %s)" % (tname, [str(x[2])[:60] for x in eff])
            elif empty is True:
                if fresh:
                    continue         # the empty segment stays as it is, a fresh one without an address is opened: nothing is lost
                if not retype:
                    okd, why = False, ("on a still empty current segment the directive does more than set its type (%s)" % [("%s %s" % (x[0], str(x[1])[-24:])) for x in eff])
                    continue
                seen_empty = True
                # re-typing keeps the start address: fine when there is none, or when the memory stays the same
                if not (addressed is False or same_type is True):
                    okd, why = False, ("a still empty segment is re-typed although it may carry a start address that `.org` stored for another memory "
                                       "(`.org 0x100` / `.dseg`: the data would start at the code origin)")
        if okd and not (seen_empty and seen_nonempty):
            okd, why = False, "the two cases (current segment empty / not empty) were not both found for .%s" % dname.lower()
        rep.ob("C02.g|segment-switch|%s" % dname.lower(), okd,
               ".%s opens a fresh %s segment after items and when the empty current one carries an address of another memory, and otherwise only re-types a still empty segment" % (dname.lower(), tname.lower()) if okd else
               ".%s: %s" % (dname.lower(), why))
