"""Layout invariance decided on the grammar itself (C14), with the project's own PEG read by analysis/peg.py.

A line is written as a list of tokens with *gaps* between them: an optional gap may hold nothing, blanks or tabs; a mandatory one
(mnemonic / operands, directive / operands) at least one of them.  Every way of filling the gaps, every indentation, every trailing
blank and every trailing comment form must be matched by `line()` through the same alternatives with the same captured texts as
the tightest spelling: the parse trace (rule, action, captures with layout blanks removed) is the parse result up to the Rust
actions, which see only the captures.  The token lists are generated from the grammar where it enumerates something (every infix
and prefix operator of the precedence table) and written out for the line forms.

Nothing of the repository runs: the matcher interprets the grammar text (ordered choice, greedy repetition, rust-peg's
translation of precedence!{})."""
import re

import peg

O, M = ("gap", "o"), ("gap", "m")
GAP_ALTS = {"o": ["", " ", "\t", "  ", " \t "], "m": [" ", "\t", "  ", "\t \t"]}
CANON = {"o": "", "m": " "}
INDENTS = ["", " ", "\t", "    ", " \t"]
TRAILING_BLANKS = ["", " ", "\t", "  \t"]
COMMENTS = {
    "semicolon": [";c", "; c d", " ; c", "\t;"],
    "slashes": ["//c", "// c d", " // c", "\t//"],
    "block": ["/*c*/", "/* c d */", " /* c */", "/**/"],
    "block+blank": ["/* c */ ", "/* c */\t"],
    "block+block": ["/* a */ /* b */", "/*a*//*b*/"],
    "block+semicolon": ["/* a */ ; b", "/* a */; b"],
    "block+slashes": ["/* a */ // b", "/* a */// b"],
    "semicolon+others": ["; a /* b */ // c", "; a // b"],
}


def line_templates(g):
    t = {}
    t["instr|two-registers"] = ["add", M, "r1", O, ",", O, "r2"]
    t["instr|labelled"] = ["lab:", O, "add", M, "r1", O, ",", O, "R2"]
    t["instr|no-operand"] = ["nop"]
    t["instr|labelled-no-operand"] = ["lab:", O, "ret"]
    t["instr|immediate"] = ["ldi", M, "r16", O, ",", O, "0x1F"]
    t["instr|one-operand"] = ["rjmp", M, "somewhere"]
    t["instr|function"] = ["ldi", M, "r16", O, ",", O, "low", O, "(", O, "a", O, ")"]
    t["instr|parenthesis"] = ["ldi", M, "r16", O, ",", O, "(", O, "a", O, ")"]
    t["instr|char"] = ["ldi", M, "r16", O, ",", O, "'a'"]
    t["instr|macro-call"] = ["mymacro", M, "r1", O, ",", O, "2", O, ",", O, "b"]
    t["instr|pointer"] = ["ld", M, "r2", O, ",", O, "X"]
    t["instr|pointer-post-increment"] = ["ld", M, "r2", O, ",", O, "X", O, "+"]
    t["instr|pointer-pre-decrement"] = ["st", M, "-", O, "Y", O, ",", O, "r3"]
    t["instr|pointer-displacement"] = ["ldd", M, "r8", O, ",", O, "Y", O, "+", O, "5"]
    t["instr|pointer-displacement-store"] = ["std", M, "Z", O, "+", O, "q", O, ",", O, "r9"]
    t["instr|lpm-post-increment"] = ["lpm", M, "r4", O, ",", O, "Z", O, "+"]
    t["label|alone"] = ["lab:"]
    t["directive|assign"] = [".equ", M, "a", O, "=", O, "1"]
    t["directive|assign-register"] = [".def", M, "tmp", O, "=", O, "r16"]
    t["directive|list"] = [".db", M, "1", O, ",", O, "2", O, ",", O, "\"s t\""]
    t["directive|labelled-list"] = ["tab:", O, ".dw", M, "1", O, ",", O, "b"]
    t["directive|one-operand"] = [".org", M, "0x10"]
    t["directive|string"] = [".include", M, "\"f.inc\""]
    t["directive|name"] = [".macro", M, "m"]
    t["directive|condition"] = [".if", M, "a", O, "==", O, "1"]
    t["directive|bare"] = [".endif"]
    t["directive|segment"] = [".cseg"]
    t["directive|hash"] = ["#define", M, "X"]
    t["directive|hash-condition"] = ["#ifdef", M, "X"]
    t["directive|device"] = [".device", M, "ATmega48"]
    # every operator the precedence table has: prefix ones in front of an operand, infix ones between two
    try:
        rows = g.prec_table("expr")
    except (peg.PegError, KeyError):
        rows = []
    for r in rows:
        if not r["tokens"]:
            continue
        tok = r["tokens"][0]
        if r["kind"] == "infix":
            t["infix|%s" % tok] = ["ldi", M, "r16", O, ",", O, "a", O, tok, O, "b"]
            t["infix-in-directive|%s" % tok] = [".dw", M, "a", O, tok, O, "2"]
        elif r["kind"] == "prefix":
            t["prefix|%s" % tok] = ["ldi", M, "r16", O, ",", O, tok, O, "b"]
            t["prefix-number|%s" % tok] = ["subi", M, "r17", O, ",", O, tok, O, "3"]
            t["prefix-parenthesis|%s" % tok] = [".dw", M, tok, O, "(", O, "1", O, "+", O, "2", O, ")"]
            t["prefix-after-infix|%s" % tok] = [".dw", M, "3", O, "-", O, tok, O, "1"]
    return t


def render(tpl, fill):
    """fill: gap index -> text (default: the tightest spelling)"""
    out = []
    gi = 0
    for x in tpl:
        if isinstance(x, tuple):
            out.append(fill.get(gi, CANON[x[1]]))
            gi += 1
        else:
            out.append(x)
    return "".join(out)


def gaps(tpl):
    return [x[1] for x in tpl if isinstance(x, tuple)]


def _squeeze(text):
    """layout blanks removed, quoted texts kept"""
    out = []
    q = None
    for c in text:
        if q:
            out.append(c)
            if c == q:
                q = None
        elif c in "\"'":
            q = c
            out.append(c)
        elif c not in " \t":
            out.append(c)
    return "".join(out)


_COND = [None]


def use_conditions(P):
    """`{? }` conditions: a register name is one that Reg8::from_str / Reg16::from_str knows (read from their MIR), a number literal fits"""
    import rules_C01_extra as X
    pairs = {"Reg8": X.from_str_pairs(P, "instruction::register::Reg8"), "Reg16": X.from_str_pairs(P, "instruction::register::Reg16")}

    def cond(rule, action, caps):
        m = re.search(r"(\w+)::from_str\(\s*(\w+)", action["text"])
        if m and m.group(1) in pairs and pairs[m.group(1)] and m.group(2) in caps:
            txt = caps[m.group(2)]
            if "to_lowercase" in action["text"]:
                txt = txt.lower()
            return txt in pairs[m.group(1)]
        return True
    _COND[0] = cond


def trace_of(g, text, cond=None):
    tr = peg.full_match(g, "line", text, cond or _COND[0] or (lambda rule, act, caps: True))
    if tr is None:
        return None
    return tuple((rule, act, tuple(sorted((k, _squeeze(v)) for k, v in caps.items() if k in caps.slices))) for rule, act, caps in tr.actions)


def variants(tpl):
    """(description, text) for the fillings checked: each gap on its own through its alternatives, all gaps wide at once, each
    indentation, each run of trailing blanks"""
    gs = gaps(tpl)
    for i, kind in enumerate(gs):
        for alt in GAP_ALTS[kind]:
            if alt != CANON[kind]:
                yield "gap %d = %r" % (i, alt), render(tpl, {i: alt})
    if gs:
        yield "all gaps wide", render(tpl, {i: " \t" for i in range(len(gs))})
        yield "all gaps one blank", render(tpl, {i: " " for i in range(len(gs))})
        yield "all gaps one tab", render(tpl, {i: "\t" for i in range(len(gs))})
    base = render(tpl, {})
    for ind in INDENTS[1:]:
        yield "indented by %r" % ind, ind + base
    for tb in TRAILING_BLANKS[1:]:
        yield "followed by %r" % tb, base + tb


def check(g, rep, prefix="C14.layout"):
    tpls = line_templates(g)
    n_variants = 0
    canon = {}
    for name, tpl in sorted(tpls.items()):
        base = render(tpl, {})
        want = trace_of(g, base)
        canon[name] = want
        if want is None:
            rep.ob("%s|%s" % (prefix, name), False, "the line `%s` is not matched by line() at all" % base)
            continue
        bad = []
        n = 0
        for what, text in variants(tpl):
            n += 1
            got = trace_of(g, text)
            if got != want:
                bad.append((what, text, "is not recognised" if got is None else "is read differently (%s)" % _first_difference(want, got)))
        n_variants += n
        rep.ob("%s|%s" % (prefix, name), not bad,
               "`%s`: %d spellings that differ in blanks and tabs only are read alike" % (base, n) if not bad else
               "`%s` written as `%s` (%s) %s; %d of %d layout variants differ" % (base, _show(bad[0][1]), bad[0][0], bad[0][2], len(bad), n),
               detail={"variants": [(w, t, d) for w, t, d in bad[:6]]})
    # trailing comments: every form after every line, tight and with a blank in front
    for cname, forms in sorted(COMMENTS.items()):
        bad = []
        n = 0
        for name, tpl in sorted(tpls.items()):
            want = canon[name]
            if want is None:
                continue
            base = render(tpl, {})
            for c in forms:
                for sep in ("", " "):
                    n += 1
                    text = base + sep + c
                    got = trace_of(g, text)
                    if got != want:
                        bad.append((name, text, "is not recognised" if got is None else "is read differently (%s)" % _first_difference(want, got)))
        n_variants += n
        rep.ob("%s|comment|%s" % (prefix, cname), not bad,
               "a trailing comment of the form %s changes nothing after any of the %d line forms (%d spellings)" % (forms[0], len(tpls), n) if not bad else
               "`%s` %s; %d of %d lines with a trailing comment of this form differ from the line without it" % (_show(bad[0][1]), bad[0][2], len(bad), n),
               detail={"variants": bad[:6]})
    # comment-only and blank lines
    for what, text in [("empty", ""), ("blanks", "  \t"), ("semicolon comment", "; c"), ("indented comment", "\t ; c"), ("slashes comment", "// c"),
                       ("indented slashes", "  // c"), ("block comment", "/* c */"), ("indented block", "\t/* c */"), ("two blocks", "/* a */ /* b */"),
                       ("block and blank", "/* a */ ")]:
        got = trace_of(g, text)
        ok = got is not None and len(got) == 1 and got[0][0] == "line" and "EmptyLine" in got[0][1]
        n_variants += 1
        rep.ob("%s|empty-line|%s" % (prefix, what), ok, "a line holding only %s is an empty line" % what if ok else
               "a line holding only %s (`%s`) is %s" % (what, _show(text), "not recognised" if got is None else "not read as an empty line"))
    rep.floor("line forms", len(tpls), 75)
    rep.floor("layout variants matched against the grammar", n_variants, 5000)
    return canon


def _show(s):
    return s.replace("\t", "\\t")


def _first_difference(a, b):
    for x, y in zip(a, b):
        if x != y:
            if x[0] != y[0]:
                return "%s() instead of %s()" % (y[0], x[0])
            return "%s() captures %s instead of %s" % (x[0], dict(y[2]), dict(x[2]))
    return "%d instead of %d parse steps" % (len(b), len(a))


# ------------------------------------------------------------------------------------------------ names that look like registers
REGISTER_LIKE = ["r1x", "r16_loop", "R2D2", "r0_save", "r100", "r32", "x1", "y_", "zero", "Zed", "xl", "XH", "r", "rx", "x_y"]


def identifier_operands(g, rep, prefix, shapes=None, floor=80):
    """A symbol whose name begins like a register name (r16_loop, zero, xl) is still a symbol when it is written as an operand, bare or
    behind a unary minus: the operand must be matched as the expression naming exactly that identifier."""
    n = 0
    for ident in REGISTER_LIKE:
        for shape, text in (("bare", "ldi r16, %s" % ident), ("negated", "ldi r16, -%s" % ident), ("target", "rjmp %s" % ident),
                            ("in-sum", ".dw 1 + %s" % ident), ("directive", ".dw %s" % ident), ("negated-directive", ".dw -%s" % ident),
                            ("branch-target", "brne %s" % ident), ("call-target", "rcall %s" % ident)):
            if shapes is not None and shape not in shapes:
                continue
            n += 1
            got = trace_of(g, text)
            names = [dict(c).get("i") for rule, act, c in (got or ()) if rule == "e_ident"]
            regs = [rule for rule, act, c in (got or ()) if rule in ("reg16", "index_ops") or (rule == "reg8" and shape != "bare" and shape != "negated")]
            # `ldi r16, <ident>`: the first operand is a register by intention
            if shape in ("bare", "negated"):
                regs = [rule for rule, act, c in (got or ()) if rule in ("reg16", "index_ops")]
                nreg8 = sum(1 for rule, act, c in (got or ()) if rule == "reg8")
                if nreg8 != 1:
                    regs.append("reg8")
            ok = got is not None and names == [ident] and not regs
            rep.ob("%s|%s|%s" % (prefix, shape, ident), ok,
                   "`%s`: the operand is the symbol %s" % (text, ident) if ok else
                   "`%s`: the operand is %s although %s is a legal symbol name" % (
                       text, "not recognised" if got is None else "read as %s" % (", ".join(regs) or "the identifier(s) %s" % names), ident))
    rep.floor("operands that are symbols named like registers", n, floor)


# ------------------------------------------------------------------------------------------------ what counts as code on a line
CODE_SAMPLES = [
    [("code", "ldi r16, 1+(2)")],
    [("code", "ldi r16, "), ("char", "'('"), ("code", " "), ("comment", "; (((( )")],
    [("code", ".db "), ("string", '"(((("'), ("code", ", 1 "), ("comment", "; ((((")],
    [("code", ".db "), ("string", '"a;(b"'), ("code", ", 2 "), ("comment", "// ((((")],
    [("code", "nop "), ("comment", "/* (((( */")],
    [("code", "nop "), ("comment", "/* (((( */ ; ((((")],
    [("code", "nop "), ("comment", "/* (((( */ /* (((( */ // ((((")],
    [("code", "nop "), ("comment", "/* (((( */ ")],
    [("code", ".db "), ("string", '"/* (((("'), ("code", ", 3")],
    [("code", ".db "), ("string", '";("'), ("code", ", "), ("string", '"//("'), ("code", ", "), ("string", '"/*("')],
    [("code", ".db "), ("char", "'\"'"), ("code", ", (4) "), ("comment", "; \"((((")],
    [("code", ".db "), ("char", "';'"), ("code", ", (5)")],
    [("code", "lab: .dw -(1) "), ("comment", ";")],
    [("comment", "; (((( only a comment")],
    [("comment", "// ((((")],
    # a block comment that is never closed is no comment for the line parser: it must count as code
    [("code", "nop /* ((((")],
]


def code_text(g, line, rule="code_part"):
    """the characters the rule hands on as code: its `$()` captures, in order"""
    tr = peg.full_match(g, rule, line, lambda r, a, c: True)
    if tr is None:
        return None
    return "".join(v for r, a, caps in tr.actions if r == rule for k, v in caps.items() if k in caps.slices)


def check_code_part(g, rep, key, rule="code_part"):
    """What a filter in front of the line parser may judge: exactly the characters of a line that are code - nothing out of a quoted text or
    a comment (they carry no meaning), and all the rest (a guard must see every parenthesis the parser will see)."""
    bad = []
    for pieces in CODE_SAMPLES:
        line = "".join(t for k, t in pieces)
        want = "".join(t for k, t in pieces if k == "code")
        got = code_text(g, line, rule)
        # blanks between comments are nobody's
        if got is None or got.replace(" ", "").replace("\t", "") != want.replace(" ", "").replace("\t", ""):
            bad.append((line, want, got))
    rep.ob(key, not bad,
           "%s() hands on exactly the code of a line: quoted texts and comments (trailing ;, //, /* */ and their combinations) are left out, an unclosed /* is code (%d sample lines)" % (rule, len(CODE_SAMPLES)) if not bad else
           "%s() on `%s` hands on `%s`, the code of the line is `%s`; %d of %d sample lines differ" % (rule, _show(bad[0][0]), bad[0][2], bad[0][1], len(bad), len(CODE_SAMPLES)),
           detail={"lines": bad[:5]})


# ------------------------------------------------------------------------------------------------ what a macro body keeps of a line
# pieces: "keep" = what an expansion must still hold (code, quoted texts, block comments - `;` and `//` inside them are no comment start),
#         "cut"  = the trailing `;` or `//` comment
TEXT_SAMPLES = [
    [("keep", "ldi r16, 1+(2)")],
    [("keep", "ldi r16, 1 "), ("cut", "; load")],
    [("keep", "ldi r16, 1 "), ("cut", "// load ; twice")],
    [("keep", ".db \"a;b\", 1 "), ("cut", "; text")],
    [("keep", ".db \"a//b\", 1")],
    [("keep", ".db ';', 2 "), ("cut", "// semicolon")],
    [("keep", ".db '\"', 3 "), ("cut", "; quote \"")],
    [("keep", "ldi r16, 4 /* first value; low half */")],
    [("keep", "ldi r16, 5 /* see http://example.org */")],
    [("keep", "ldi r16, 6 /* a; b */ "), ("cut", "; c")],
    [("keep", "ldi r16, 7 /* a */ /* b // c */ "), ("cut", "// d")],
    [("keep", "nop /* not closed ; still code")],
    [("keep", "add r16, @0 /* ; */ "), ("cut", ";")],
    [("cut", "; only a comment")],
    [("cut", "// only a comment")],
    [("keep", "")],
]


def check_code_text(g, rep, key, rule="code_text"):
    """What a macro body keeps of its lines before they are copied into every expansion: everything in front of the trailing `;` or `//`
    comment, and nothing less - a `;` or `//` inside a quoted text or inside /* */ starts no comment (cutting there leaves an unclosed
    string or comment behind, and the line no longer parses, or parses as something else)."""
    bad = []
    for pieces in TEXT_SAMPLES:
        line = "".join(t for k, t in pieces)
        want = "".join(t for k, t in pieces if k == "keep")
        got = code_text(g, line, rule)
        if got is None or got != want:
            bad.append((line, want, got))
    rep.ob(key, not bad,
           "%s() keeps a line up to its trailing ; or // comment; quoted texts and /* */ comments are stepped over whole (%d sample lines)" % (rule, len(TEXT_SAMPLES)) if not bad else
           "%s() on `%s` keeps `%s`, the line without its trailing comment is `%s`; %d of %d sample lines differ" % (rule, _show(bad[0][0]), bad[0][2], bad[0][1], len(bad), len(TEXT_SAMPLES)),
           detail={"lines": bad[:5]})
