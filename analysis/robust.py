"""E5 — panic-site, recursion, loop and allocation classification for C16.

Sites are enumerated on the dev-profile MIR (every possible arithmetic overflow is an explicit Assert there) of every function reachable
from the API roots.  A site is *discharged* only by a computed reason:
  type       unwrap on Result<_, Infallible>;
  guard      E1 explores the enclosing function (callees opaque, loops cut with havocked state): on every path that reaches the site the
             failing side is infeasible under the value sets established by the guards in front of it;
  grammar    the unwrapped parse is applied to a `$()` capture whose finite language (E2) is contained in the keys the target from_str
             accepts, or whose minimum length makes .next().unwrap() safe;
  invariant  a named structural invariant with a checked witness (non-empty segment vector).
Everything else is a finding keyed  kind|function|what ."""
import re

import absint
import graph as G
import mirutil as MU
import sx

ROOTS = ["builder::build_str", "builder::build_file", "parser::parse_str", "parser::parse_file", "writer::write_code_hex",
         "writer::write_eeprom_hex", "instruction::process"]

UNWRAP = re.compile(r"^std::(option::Option::<T>|result::Result::<T, E>)::(unwrap|expect)$")
INDEX = re.compile(r"as std::ops::Index(Mut)?<.*>>::index(_mut)?$|^core::slice::index::<impl std::ops::Index(Mut)?<I> for \[T\]>::index(_mut)?$|^core::str::traits::<impl std::ops::Index")
PANIC = re.compile(r"^std::rt::begin_panic|^core::panicking::|^std::rt::panic_fmt|^std::process::abort")
BENIGN_ASSERT = ("MisalignedPointerDereference", "NullPointerDereference")


class Site:
    def __init__(self, kind, fn, bb, what, span):
        self.kind = kind
        self.fn = fn
        self.bb = bb
        self.what = what
        self.span = span
        self.reason = None
        self.detail = None

    def key(self):
        return "%s|%s|%s" % (self.kind, self.fn, self.what)


def enumerate_sites(P, reach):
    sites = []
    for k in sorted(reach):
        b = P.body[k]
        if "#promoted" in k:
            continue
        counts = {}
        for bb, bl in enumerate(b["blocks"]):
            if bl["cleanup"]:
                continue
            t = bl["term"]
            sp = bl["tspan"]
            if t["k"] == "call":
                full, rp = MU.callee_names(t)
                what = None
                kind = None
                if UNWRAP.match(rp):
                    kind = "unwrap"
                    g = t["callee"].get("generics") or []
                    tys = [P.tys(k, x) for x in g]
                    what = "%s of %s" % (rp.rsplit("::", 1)[-1], " / ".join(x.replace("std::", "") for x in tys)[:90])
                elif INDEX.search(rp):
                    kind = "index"
                    what = full.split(" as ")[0].lstrip("<").replace("std::", "")[:80]
                elif PANIC.match(rp):
                    kind = "panic"
                    what = rp
                if kind:
                    n = counts.get((kind, what), 0)
                    counts[(kind, what)] = n + 1
                    s = Site(kind, k, bb, what + ("" if n == 0 else " #%d" % (n + 1)), sp)
                    s.term = t
                    sites.append(s)
            elif t["k"] == "assert" and t["msg"] not in BENIGN_ASSERT:
                kind = "arith"
                what = t["msg"]
                n = counts.get((kind, what), 0)
                counts[(kind, what)] = n + 1
                s = Site(kind, k, bb, what + ("" if n == 0 else " #%d" % (n + 1)), sp)
                s.term = t
                sites.append(s)
    return sites


def e1_events(P, fn, cache={}, depth=1):
    """explore one function (callees opaque) and return {bb: set of verdicts} for index / unwrap / assert sites:
    'safe' when reached and the failing side was infeasible, 'may' when the failing side was feasible"""
    if depth != 1:
        cache = _deep_cache
    if fn in cache:
        return cache[fn]
    M = absint.Machine(P, max_depth=depth, loop_limit=1, max_paths=20000)
    M.havoc_loops = True
    res = {"reached": set(), "may": set(), "modelled": set(), "opaque": set(), "capped": False, "error": None}
    try:
        paths = M.explore(fn, M.arg_unknowns(fn))
    except Exception as e:       # an engine failure on one function must not hide sites: nothing is discharged for it
        res["error"] = "%s: %s" % (type(e).__name__, e)
        cache[fn] = res
        return res
    res["capped"] = M.capped or bool(M.unsupported)
    # panics recorded on states that had no continuation (an unwrap with only its failing side left)
    for ev in getattr(M, "panic_records", []):
        if ev[2] == fn:
            res["may"].add(ev[3])
            res["reached"].add(ev[3])
    for p in paths:
        for (k, bb) in p.trace:
            if k == fn:
                res["reached"].add(bb)
        seen_here = set()
        for ev in p.events:
            if ev[0] == 'modelled' and ev[1][0] == fn:
                seen_here.add(ev[1][1])
        res["modelled"] |= seen_here
        # a call site that some path passed without the summary deciding it was decided by nobody on that path
        for (k, bb) in p.trace:
            if k == fn and bb not in seen_here:
                res["opaque"].add(bb)
        for ev in p.events:
            if ev[0] == 'may-panic' and ev[2] == fn:
                res["may"].add(ev[3])
            elif ev[0] == 'index' and ev[3][0] == fn and not ev[4]:
                res["may"].add(ev[3][1])
    cache[fn] = res
    return res


_deep_cache = {}


def discharge_by_guard(P, site):
    ok, why = _discharge_by_guard(P, site, 1)
    if not ok and site.kind != "panic":
        # the guard may stand in a helper the function calls (a count checked by a method of the operation, a budget charged by a
        # function of its own): look again with the local helpers that have no loops read into the function
        ok2, why2 = _discharge_by_guard(P, site, 3)
        if ok2:
            return True, why2 + " (helpers read in)"
    return ok, why


def _discharge_by_guard(P, site, depth):
    r = e1_events(P, site.fn, depth=depth)
    if r["error"] or r["capped"]:
        return False, "analysis of %s incomplete (%s)" % (site.fn, r["error"] or "path cap / unsupported construct")
    if site.kind == "panic":
        # an explicit panic is safe only if no feasible path gets there
        if site.bb in r["reached"]:
            return False, "a feasible path of %s reaches the panic" % site.fn.split("::")[-1]
        return True, "unreachable: no feasible path of the (completely explored) function reaches it"
    if site.bb not in r["reached"]:
        return False, "site not reached by the explored paths"
    if site.bb in r["may"]:
        return False, "the failing case is feasible under the guards in front of the site"
    if site.kind != "arith" and (site.bb not in r["modelled"] or site.bb in r["opaque"]):
        return False, "the operation is not modelled by the interpreter on some path (receiver or index not readable), so nothing excludes its failing case"
    return True, "guarded: on every explored path reaching the site the failing case is excluded by the preceding checks"


def from_str_keys(P, ty):
    """string constants accepted by the strum-generated <ty as FromStr>::from_str (read from its MIR)"""
    key = "<%s as std::str::FromStr>::from_str" % ty
    b = P.body.get(key)
    if b is None:
        return None
    keys = set()
    for bl in b["blocks"]:
        t = bl["term"]
        if t["k"] == "call":
            for a in t["args"]:
                if "const" in a and "str" in a["const"]:
                    keys.add(a["const"]["str"])
        for st in bl["stmts"]:
            if st["k"] == "assign" and st["rv"]["k"] == "use" and "const" in st["rv"]["op"] and "str" in st["rv"]["op"]["const"]:
                keys.add(st["rv"]["op"]["const"]["str"])
    return keys
