"""What parse_iter turns one parsed line into: the label (whichever kind of line carries it) and the instruction with its operands go
to the output's last segment unchanged, label first.  One round of parse_iter's loop is explored with skip, the line parser, the nesting
guard and Directive::parse opaque; the pushes on every path are compared with the four shapes a line can have."""
import re

import absint
import sx


def explore(P):
    fn = "parser::parse_iter"
    M = absint.Machine(P, max_depth=4, opaque={"parser::skip", "document::document::line", "directive::Directive::parse", "parser::nesting_is_parsable"}, loop_limit=1)
    paths = M.explore(fn, M.arg_unknowns(fn))
    return M, paths


def shapes(P):
    """-> (problems, {kind: set of push sequences}) with the line-parser result abbreviated to LINE and the line index to N"""
    M, paths = explore(P)
    problems = []
    if M.capped or M.unsupported:
        problems.append("exploration of parse_iter incomplete: %s" % M.unsupported[:2])
    docv = {int(v["discr"]): v["name"] for v in P.lib.adts["document::Document"]["variants"]}
    out = {}
    for p in paths:
        if p.exit != "loop":
            continue
        line = None
        idx = None
        for e in p.events:
            if e[0] == 'call' and e[1] == "document::document::line":
                pass
        kind = None
        has_label = None
        for e, t in p.conds:
            sh = sx.show(e)
            m = re.match(r"^\((line\(.*\)@\d+):Ok\.0#d == (\d+)\)$", sh)
            if m and t:
                line = m.group(1)
                kind = docv.get(int(m.group(2)))
            m = re.match(r"^\((line\(.*\)@\d+):Ok\.0:(CodeLine|DirectiveLine)\.0\*#d == 1\)$", sh)
            if m and has_label is None:
                has_label = t
            # the optional label is a boxed Document: only its Label variant is a label (the grammar builds no other)
            m = re.match(r"^\((line\(.*\)@\d+):Ok\.0:(CodeLine|DirectiveLine)\.0\*:Some\.0#d == (\d+)\)$", sh)
            if m:
                is_lab = (docv.get(int(m.group(3))) == "Label") == t
                if not is_lab:
                    has_label = "not-a-label"
        if kind is None or line is None:
            continue
        m = re.search(r"line\((skip\(.*\)@\d+)\.0:Some\.0\.1\*\)@\d+$", line)
        idx = (m.group(1) + ".0:Some.0.0") if m else None
        seq = []
        for e in p.events:
            if e[0] == 'push':
                v = e[2].replace(line, "LINE")
                if idx:
                    v = v.replace(idx, "N")
                seq.append((("last-segment" if "last(context*.segments" in e[1] else e[1][-40:]), v))
            elif e[0] == 'call' and e[1] == "directive::Directive::parse":
                seq.append(("call", "Directive::parse"))
        out.setdefault((kind, has_label), set()).add(tuple(seq))
    return problems, out


def check(P, rep, prefix, want_labels=True, want_instruction=True):
    problems, out = shapes(P)
    for pr in problems:
        rep.unprovable("%s|explore" % prefix, pr)
    lab = lambda src: ("last-segment", "agg(CodePoint::CodePoint((N + 1), 1), Item::Label(%s))" % src)
    ins = ("last-segment", "agg(CodePoint::CodePoint((N + 1), 2), Item::Instruction(LINE:Ok.0:CodeLine.1, LINE:Ok.0:CodeLine.2))")

    def only(kind, has_label, pred, what):
        got = out.get((kind, has_label), set())
        ok = bool(got) and all(pred(list(s)) for s in got)
        return ok, got
    if want_labels:
        ok, got = only("Label", None, lambda s: s == [lab("LINE:Ok.0:Label.0")], "")
        rep.ob("%s|label-line" % prefix, ok, "a line that is only a label binds that label (one Label item with the line's number)" if ok else
               "a label-only line does not yield exactly its Label item: %s" % sorted(got)[:2])
        ok, got = only("CodeLine", True, lambda s: s[:1] == [lab("LINE:Ok.0:CodeLine.0*:Some.0:Label.0")], "")
        rep.ob("%s|label-on-instruction-line" % prefix, ok, "a label in front of an instruction is bound first, then the instruction follows" if ok else
               "a label written in front of an instruction is lost or comes after it: %s" % sorted(got)[:2])
        ok, got = only("DirectiveLine", True, lambda s: s[:1] == [lab("LINE:Ok.0:DirectiveLine.0*:Some.0:Label.0")] and all(x[0] != "last-segment" or i == 0 for i, x in enumerate(s)), "")
        rep.ob("%s|label-on-directive-line" % prefix, ok, "a label in front of a directive is bound before the directive is carried out" if ok else
               "a label written in front of a directive is lost or bound after the directive: %s" % sorted(got)[:2])
    if want_instruction:
        for hl in (True, False):
            ok, got = only("CodeLine", hl, lambda s: s[-1:] == [ins] and sum(1 for x in s if "Item::Instruction" in x[1]) == 1, "")
            rep.ob("%s|instruction|%s" % (prefix, "labelled" if hl else "plain"), ok,
                   "the mnemonic and operands the line parser returned become the Instruction item unchanged, once, numbered with the line" if ok else
                   "an instruction line does not yield exactly one Instruction item built from the parsed mnemonic and operands: %s" % sorted(got)[:2])
