"""C14 — surface syntax that carries no meaning never changes the output  (grammar-structure clauses).

Each listed rewrite corresponds to a place in the grammar / lexing that must be tolerant; each is a necessary condition checked on the
PEG AST (E2, cross-checked against the compiled parser) or by the lower-case typestate (E4):
 case     the text handed to the mnemonic table, to Reg8/Reg16::from_str and to the function-name match is lower-cased; the register
          and hex-digit character classes contain both letter cases (symbol references: C10);
 comments every content-bearing alternative of `line` ends in  space() comment()? ; `comment` has the forms ; // /* */ ; a blank or
          comment-only line yields EmptyLine;
 blanks   every infix row is  space() tok space() ; parentheses and function calls have space() inside the delimiters; the operand
          delimiter is  space() "," space() ; label / mnemonic-or-directive / operand list / comment are separated by space();
          space admits ' ' and '\\t';
 line ends the line iterator is str::lines (drops \\n and \\r\\n alike);
 radix    C05.3."""
import facts as F
import grammar
import re

import graph as G
import mirutil as MU
import norm
import peg
from common import Reporter, loc_of


def top_seq(node):
    while node[0] == "group":
        node = node[1]
    return node


def alts(node):
    node = top_seq(node)
    return node[1] if node[0] == "choice" else [node]


def collapse(elems):
    """drop repeated space() calls (an extra space() is harmless)"""
    out = []
    for x in elems:
        if out and x == ("call", "space") and out[-1] == ("call", "space"):
            continue
        out.append(x)
    return out


def is_call(e, name):
    return e[0] == "call" and e[1] == name


def ends_with_space_comment(seq):
    """sequence ends with  space() comment()?"""
    if seq[0] != "seq" or len(seq[1]) < 2:
        return False
    last = seq[1][-1][1]
    prev = seq[1][-2][1]
    return last[0] == "opt" and is_call(last[1], "comment") and is_call(prev, "space")


def run(tier):
    rep = Reporter("C14", tier, "other", "structural rules on the PEG grammar AST (own rust-peg reader, cross-checked with the compiled parser's MIR) + lower-case typestate on keyword lookups + resolved callee of the line splitter")
    rep.explanation = ("Every meaningless respelling named by C14 needs a tolerant spot in the grammar or lexer; each spot is a necessary condition "
                       "decided on the grammar's AST or on MIR. Blanks, tabs and trailing comments are decided by matching: ~80 line forms (every "
                       "operator of the precedence table among them) x every filling of their gaps, indentation, trailing blanks and comment "
                       "form must go through the same alternatives of line() with the same captured texts. Out of scope: /* */ comments that "
                       "span lines, upper-case 0X/0B prefixes and upper-case directive names.")
    rep.trusted = ["rustc nightly MIR", "analysis/peg.py reading of rust-peg 0.8 syntax (cross-checked: rule names and per-rule literal multisets)", "analysis/norm.py"]
    P = G.Program(F.load("dev"))
    g, problems = grammar.load_checked(P)
    for pr in problems:
        rep.unprovable("C14.grammar|cross-check", "grammar reader disagrees with the compiled parser: %s" % pr)
    R = g.rules
    rep.count("grammar rules", len(R))

    def need(rule):
        if rule not in R:
            rep.unprovable("C14.anchor|%s" % rule, "grammar rule %s not found" % rule)
            return None
        return R[rule]["expr"]

    # ---- blanks, tabs and comments: decided by matching every layout variant of every line form against the grammar (layout_match.py);
    # the earlier rules on the *shape* of the grammar (space() on both sides of each infix token, line = label? space() ...) were
    # withdrawn: a grammar that tolerates more (a blank before a label, a comment after a block comment) tripped them.
    import layout_match
    layout_match.use_conditions(P)
    layout_match.check(g, rep, "C14.layout")
    # ---- case: character classes
    for rule, want, what in (("reg8", {"r", "R"}, "register prefix"), ("reg16", {"x", "y", "z", "X", "Y", "Z"}, "pointer register names")):
        e = need(rule)
        if e is None:
            continue
        cls = g.find(e, lambda n: n[0] == "class")
        chars = g.lang(cls[0]) if cls else set()
        rep.ob("C14.case|%s-class" % rule, want <= (chars or set()), "%s accepts both letter cases" % what if want <= (chars or set()) else "%s accepts only %s" % (what, sorted(chars or [])))
    e = need("e_const")
    if e is not None:
        hexcls = [c for c in g.find(e, lambda n: n[0] == "class") if (g.lang(c) or set()) & set("abcdef")]
        ok = bool(hexcls) and all(set("abcdefABCDEF0123456789") <= (g.lang(c) or set()) for c in hexcls)
        rep.ob("C14.case|hex-digits", ok, "hex digits may be written in either case (%d hex forms)" % len(hexcls) if ok else "a hex digit class lacks one letter case")
    # ---- case: lower-casing before keyword lookups (E4)
    N = norm.Norm(P)
    targets = {"document::document::standard_operation": ("mnemonic table", 0), "document::document::standard_directive": ("directive table", 0)}
    nsites = 0
    reach = P.reachable(["builder::build_str", "builder::build_file", "parser::parse_str", "parser::parse_file"])
    for k in sorted(reach):
        for bb, t, name, tg in P.call_sites(k):
            full, rp = MU.callee_names(t)
            what = None
            argi = 0
            if rp in targets:
                what, argi = targets[rp]
            elif rp.endswith("as std::str::FromStr>::from_str") and any(x in full for x in ("register::Reg8", "register::Reg16")):
                what, argi = ("register table (%s)" % ("Reg8" if "Reg8" in full else "Reg16")), 0
            if what is None:
                continue
            nsites += 1
            ok, why = N.operand(k, t["args"][argi])
            rep.ob("C14.case|lookup|%s|%s" % (what, k), ok, "%s lookup in %s uses lower-cased text (%s)" % (what, k.split("::")[-1], why) if ok else
                   "%s lookup in %s is given text that is not lower-cased (%s): the spelling's letter case changes the result" % (what, k.split("::")[-1], why),
                   loc=loc_of(P.body[k]["blocks"][bb]["tspan"]))
    rep.floor("keyword lookup sites", nsites, 4)
    # symbol references and names in mnemonic position (macro calls): every key that reaches a symbol map or the macro table is lower-cased
    import rules_C10
    tables = [(k, bb, t, f, m) for k, bb, t, f, m in rules_C10.map_sites(P, "context::CommonContext", rules_C10.MAPS)] + \
             [(k, bb, t, f, m) for k, bb, t, f, m in rules_C10.map_sites(P, "parser::Macro", ("macroses",))] + \
             [(k, bb, t, f, m) for k, bb, t, f, m in rules_C10.map_sites(P, "context::CommonContext", ("defines",))]
    for k in ("builder::pass0::macro_expand",):
        if k in P.body:
            for bb, t, name, tg in P.call_sites(k):
                if rules_C10.MAP_METHODS.match(MU.callee_names(t)[1]) and (k, bb) not in {(x[0], x[1]) for x in tables}:
                    tables.append((k, bb, t, "macroses", MU.callee_names(t)[1].rsplit("::", 1)[-1]))
    for k, bb, t, fname, meth in tables:
        ok, why = N.operand(k, t["args"][1])
        rep.ob("C14.case|symbol|%s|%s|%s" % (fname, k, meth), ok,
               "%s.%s in %s: the name is lower-cased before it is used (%s)" % (fname, meth, k.split("::")[-1], why) if ok else
               "%s.%s in %s: the name is used as spelled (%s): the letter case of a symbol reference or macro call changes the result" % (fname, meth, k.split("::")[-1], why),
               loc=loc_of(P.body[k]["blocks"][bb]["tspan"]))
    rep.floor("symbol / macro table access sites", len(tables), 12)
    # function names in the evaluator: every comparison of a string with one of the function-name literals has a lower-cased left side
    FN = {"low", "high", "byte2", "byte3", "byte4", "lwrd", "hwrd", "exp2", "log2", "page"}
    # the evaluator function: whichever body reachable from Expr::run compares strings with the function-name literals
    key = None
    for cand in sorted(P.reachable(["expr::Expr::run"])):
        for bb, t, name, tg in P.call_sites(cand):
            full, rp = MU.callee_names(t)
            if "PartialEq" in rp and "str" in rp and rp.endswith("::eq"):
                lits = [a["const"]["str"] for a in t["args"] if "const" in a and "str" in a["const"]]
                if not lits:
                    locs, consts, calls, places = MU.backward_slice(P.body[cand], t["args"][1:2])
                    lits = [c["str"] for c in consts if "str" in c]
                if lits and lits[0] in FN:
                    key = cand
    if key is not None:
        b = P.body[key]
        nf = 0
        bad = None
        for bb, t, name, tg in P.call_sites(key):
            full, rp = MU.callee_names(t)
            if "PartialEq" in rp and "str" in rp and rp.endswith("::eq"):
                lits = [a["const"]["str"] for a in t["args"] if "const" in a and "str" in a["const"]]
                if not lits:
                    locs, consts, calls, places = MU.backward_slice(b, t["args"][1:2])
                    lits = [c["str"] for c in consts if "str" in c]
                if lits and lits[0] in FN:
                    nf += 1
                    ok, why = N.operand(key, t["args"][0])
                    if not ok:
                        bad = (lits[0], why)
        rep.ob("C14.case|function-names", nf >= 8 and bad is None, "function names are compared after lower-casing (%d comparisons)" % nf if nf >= 8 and bad is None else
               "function name %s is compared with text that is not lower-cased (%s)" % bad if bad else "only %d function-name comparisons found" % nf)
    else:
        rep.unprovable("C14.case|function-names", "no function-name comparisons found in code reachable from Expr::run")
    # ---- line ends
    key = "parser::parse"
    if key in P.body:
        scope = [k for k in P.reachable([key]) if k.startswith("parser::")]
        calls = [MU.callee_names(t)[1] for k in scope for _, t, _, _ in P.call_sites(k)]
        ok = "core::str::<impl str>::lines" in calls
        rep.ob("C14.line-ends", ok, "lines are split with str::lines, which treats LF and CRLF alike" if ok else
               "the line splitter is not str::lines (%s): CRLF input may leave a CR on every line" % [c for c in calls if "split" in c or "lines" in c])
    else:
        rep.unprovable("C14.line-ends", "parser::parse not found")
    raw_text(P, rep)
    prefilters(P, g, rep)
    return rep


RAW_TEXT_API = re.compile(r"^(core|std)::str::<impl str>::(find|rfind|contains|starts_with|ends_with|split\w*|rsplit\w*|trim\w*|strip_\w+|matches|rmatches|match_indices|"
                          r"char_indices|chars|bytes|as_bytes|get|get_unchecked|replace|replacen|is_char_boundary|eq_ignore_ascii_case|to_ascii_\w+|split_at\w*|"
                          r"parse|repeat)$|^core::str::traits::<impl std::ops::Index|^core::str::traits::<impl std::cmp::PartialEq for str>::eq$|"
                          r"^(core|std)::char::methods::<impl char>::")


def raw_text(P, rep):
    """Layering, second half: between reading the source and the grammar, the line pipeline (module `parser`) does not look into the text
    of a line — no search, split, trim, slice, comparison or character test — except on what the grammar's code_part rule handed out.
    Line splitting (str::lines) and plain copying are no decisions.  What the text means is decided in one place, the grammar."""
    roots = [r for r in ("parser::parse_str", "parser::parse_file", "parser::parse") if r in P.body]
    scope = sorted(k for k in P.reachable(roots) if k.startswith("parser::"))
    n = 0
    for k in scope:
        b = P.body[k]
        for bb, t, name, tg in P.call_sites(k):
            full, rp = MU.callee_names(t)
            if not RAW_TEXT_API.search(rp) or not t["args"]:
                continue
            # paths are not source text
            locs, consts, calls, places = MU.backward_slice(b, t["args"][:1])
            cn = [MU.callee_names(c)[1] for c in calls]
            if any("path::Path" in x or "PathBuf" in x or "to_string_lossy" in x for x in cn):
                continue
            n += 1
            via = any("code_part" in x for x in cn)
            # inside a closure: what it iterates is decided by the enclosing function (checked there through the iterator's slice)
            if "{closure#" in k and not via:
                outer = k.split("::{closure#")[0]
                ob_ = P.body.get(outer)
                if ob_ is not None:
                    via = any("code_part" in MU.callee_names(t2)[1] for _, t2, _, _ in P.call_sites(outer))
            api = rp.rsplit("::", 1)[-1]
            rep.ob("C14.raw-text|%s|%s" % (k, api), via,
                   "%s in %s works on what the grammar's code_part rule handed out" % (api, k.split("::")[-1]) if via else
                   "%s in %s looks into the raw text of a line (%s) before the grammar does: what it finds inside a comment or a string can change what is assembled" % (api, k, rp),
                   loc=loc_of(b["blocks"][bb]["tspan"]))
    rep.count("text-inspecting calls in the line pipeline", n)
    rep.count("functions of the line pipeline", len(scope))
    rep.floor("functions of the line pipeline", len(scope), 6)


def prefilters(P, g, rep, prefix="C14.prefilter"):
    """Layering: what is comment and what is quoted text is decided by the grammar alone.  Any function that sees the raw line before
    document::line and can turn it away (a bool whose false edge skips the parser) must take the characters it judges from the grammar's
    own code_part rule, and that rule must stop at comment() and step over string() and ch()."""
    entry = "document::document::line"
    nfilters = 0
    for k in sorted(P.body):
        if k.startswith("document::document::") or "#promoted" in k:
            continue
        b = P.body[k]
        ch = MU.Chaser(b)
        for bb, t, name, tg in P.call_sites(k):
            if entry not in tg:
                continue
            text_root = ch.root(t["args"][0])[0]
            for gbb, gt, gname, gtg in P.call_sites(k):
                gk = [x for x in gtg if x in P.body and x != entry and not x.startswith("document::document::")]
                if not gk or not gt["args"] or P.tys(gk[0], P.body[gk[0]]["locals"][0]["ty"]) != "bool":
                    continue
                if ch.root(gt["args"][0])[0] != text_root:
                    continue
                nfilters += 1
                gb = P.body[gk[0]]
                via = [tt for _, tt, _, tg2 in P.call_sites(gk[0]) if "document::document::code_part" in tg2]
                okv = bool(via) and all(MU.Chaser(gb).root(tt["args"][0])[0] == 1 for tt in via)
                # every character loop of the filter draws from the value code_part returned
                loops_ok = True
                import rules_C16 as R16
                for head, nodes in R16.natural_loops(gb).items():
                    for x in nodes:
                        t2 = gb["blocks"][x]["term"]
                        if t2["k"] == "call" and MU.callee_names(t2)[1].endswith("::next") and "Iterator" in MU.callee_names(t2)[1]:
                            locs, consts, calls, places = MU.backward_slice(gb, t2["args"][:1])
                            if not any("code_part" in MU.callee_names(c)[1] for c in calls):
                                loops_ok = False
                rep.ob("%s|%s" % (prefix, gk[0]), okv and loops_ok,
                       "%s, which can turn a line away before the grammar sees it, judges only the characters document::code_part hands it (comments and quoted text excluded by the grammar's own rules)" % gk[0].split("::")[-1]
                       if okv and loops_ok else
                       "%s can turn a line away before the grammar sees it and does not take the characters it judges from document::code_part: text inside comments or strings may decide whether a line assembles" % gk[0])
    rep.count("pre-grammar filters", nfilters)
    r = g.rules.get("code_part")
    if nfilters and r is None:
        rep.unprovable("%s|code_part-grammar" % prefix, "grammar rule code_part not found")
    elif r is not None:
        # decided by matching sample lines against the rule (the earlier rule on the rule's shape was withdrawn with the grammar's rewrite)
        import layout_match
        layout_match.check_code_part(g, rep, "%s|code_part-grammar" % prefix)
    # the rule macro bodies are cut with before they are copied into expansions (only where the tree has and uses one)
    users = [k for k in P.body if not k.startswith("document::document::") and
             any("document::document::code_text" in tg for _, _, _, tg in P.call_sites(k))]
    if users and prefix.startswith("C14"):
        if g.rules.get("code_text") is None:
            rep.unprovable("C14.body-text|code_text-grammar", "%s cuts lines with document::code_text, which the grammar reader does not find" % users[0])
        else:
            import layout_match
            layout_match.check_code_text(g, rep, "C14.body-text|code_text-grammar")
