"""C11 — including a file is the same as pasting it, and files are found where documented  (clauses; search outcome not decided).

(N) shared state across the boundary: the ParseContext built for the included file carries the includer's segments, macros, messages
    and symbol context by sharing (Rc clone / clone of a struct of Rcs), never a freshly constructed object; for include_paths either
    the same sharing or a write-back of the directories added inside the included file into the includer's set after the nested parse;
(P) not found -> Err naming the file;
(N) `.exit` is file-local: Exit yields the EndFile mode, which only ends the current line loop; `.include` itself leaves the mode alone
    and only propagates errors of the nested parse;
(N) every directory source named by C11 flows into the set that is searched: caller paths, parent of the current file, the
    .includepath argument (joined to the directive's file's directory when relative); the path as written is tried first."""
import re

import absint
import facts as F
import graph as G
import mirutil as MU
import rules_C08
import sx
from common import Reporter, loc_of

FRESH = re.compile(r"^(std::rc::Rc::<T>::new|std::cell::RefCell::<T>::new|std::collections::\w+::<.*>::new|std::vec::Vec::<T>::new|"
                   r"<std::cell::RefCell<T> as std::clone::Clone>::clone|<std::collections::BTreeSet<T, A> as std::clone::Clone>::clone|"
                   r"<std::collections::HashMap<K, V, S, A> as std::clone::Clone>::clone|<std::vec::Vec<T, A> as std::clone::Clone>::clone|"
                   r"parser::Macro::new|context::CommonContext::new)$")
SHARING = re.compile(r"^(<std::rc::Rc<T, A> as std::clone::Clone>::clone|<context::CommonContext as std::clone::Clone>::clone|<parser::ParseContext as std::clone::Clone>::clone|std::rc::Rc::<T, A>::clone)$")


def context_aggregates(P, key):
    b = P.body[key]
    out = []
    for bi, bl in enumerate(b["blocks"]):
        for st in bl["stmts"]:
            if st["k"] == "assign" and st["rv"]["k"] == "agg" and st["rv"]["kind"].get("path") == "parser::ParseContext":
                out.append((bi, st))
    return out


def run(tier):
    rep = Reporter("C11", tier, "other", "def-use / backward-slice rules on the MIR of the include machinery (sharing vs. fresh construction, error exits, directory flows); mode table from C08's extraction")
    rep.explanation = ("Decides the structural clauses of 'include = paste': what the nested parse context shares with the includer, that directories "
                       "added inside an included file come back, that a missing file is an error naming it, that .exit only ends its own file, and "
                       "that every documented directory source reaches the searched set. Which file wins when several exist, CWD-relative "
                       "behaviour, symlinks and I/O errors are runtime configuration and are not decided.")
    rep.trusted = ["rustc nightly MIR and callee resolution"]
    P = G.Program(F.load("dev"))
    key = "directive::Directive::parse"
    # the Include arm itself, or the private part of the directive module it was moved into: the function that builds the nested context
    # and starts the nested parse
    if key in P.body and not context_aggregates(P, key):
        parts = [k for k in sorted(P.reachable([key])) if k.startswith("directive::") and "{closure" not in k and context_aggregates(P, k) and
                 any("parser::parse_file_internal" in tg for _, _, _, tg in P.call_sites(k))]
        if len(parts) == 1:
            key = parts[0]
    b = P.body.get(key)
    fields = [f["name"] for f in P.lib.adts["parser::ParseContext"]["variants"][0]["fields"]]
    # ---- a. sharing in the Include arm
    aggs = context_aggregates(P, key) if b else []
    rep.ob("C11.shared|anchor", len(aggs) == 1, "the Include arm builds exactly one nested ParseContext (%d)" % len(aggs), kind="unprovable", nontrivial=False)
    nested_call = None
    for bi, st in aggs:
        agg = st["rv"]
        for fi, o in enumerate(agg["ops"]):
            fname = fields[fi]
            if fname not in ("common_context", "segments", "macros", "messages", "include_paths"):
                continue      # not state that definitions live in (current path, nesting depth, ...)
            locs, consts, calls, places = MU.backward_slice(b, [o])
            names = [MU.callee_names(c)[1] for c in calls]
            fresh = [n for n in names if FRESH.match(n)]
            sharing = [n for n in names if SHARING.match(n)]
            from_ctx = 2 in locs or any(pl["local"] == 2 for pl in places)   # `context` parameter (self=1, opts=2?) resolved below
            ok = bool(sharing) and not fresh
            if fname == "include_paths":
                # forward direction: the included file searches the directories the includer knows (a copy of its set, not a fresh one)
                okf = any(n == "<std::cell::RefCell<T> as std::clone::Clone>::clone" or SHARING.match(n) for n in names) and not any(
                    re.search(r"BTreeSet::<T>::new$|RefCell::<T>::new$", n) for n in names)
                rep.ob("C11.search|includer-directories", okf,
                       "the included file starts with the directories its includer knows" if okf else
                       "the included file does not inherit the includer's directory set (%s): a file found through an .includepath of the includer cannot use the same directories itself" % names[:3],
                       loc=loc_of(st["span"]))
                continue    # the way back is decided below (sharing or write-back)
            rep.ob("C11.shared|Directive::parse|%s" % fname, ok,
                   "the included file's context shares the includer's %s (%s)" % (fname, sharing[0].split(" as ")[0].lstrip("<") if sharing else "") if ok else
                   "the included file gets its own %s (%s): definitions made inside the included file are not visible afterwards" % (fname, fresh or names[:2]),
                   loc=loc_of(st["span"]))
    # CommonContext clone shares only if all its fields are Rc
    cc = P.lib.adts["context::CommonContext"]["variants"][0]["fields"]
    allrc = all(P.lib.types[f["ty"]]["k"] == "adt" and P.lib.types[f["ty"]]["path"] == "std::rc::Rc" for f in cc)
    rep.ob("C11.shared|CommonContext-is-handles", allrc, "CommonContext consists of Rc handles only: cloning it shares every symbol table and the device" if allrc else
           "CommonContext has a field that is not an Rc handle: cloning it for the included file copies that state")
    # ---- include_paths: sharing or write-back
    pk = "parser::parse_file_internal"
    pb = P.body.get(pk)
    shared_paths = False
    for bi, st in aggs:
        o = st["rv"]["ops"][fields.index("include_paths")]
        locs, consts, calls, places = MU.backward_slice(b, [o])
        names = [MU.callee_names(c)[1] for c in calls]
        if any(SHARING.match(n) for n in names) and not any(FRESH.match(n) for n in names):
            shared_paths = True
    # chain of custody: Directive::parse(Include) -> parse_file_internal -> parse.  At each hop the set either is the caller's own cell
    # (sharing) or everything added below is written back into the caller's cell after the nested call returned successfully.
    hops = {}
    for fn, callee in ((key, "parser::parse_file_internal"), (pk, "parser::parse")):
        body = P.body.get(fn)
        hops[fn] = None
        if body is None:
            continue
        idom = G.dominators(body)
        nested = [(bb, t) for bb, t, n, tg in P.call_sites(fn) if callee in tg]
        aggs_fn = context_aggregates(P, fn)
        share = False
        for bi, st in aggs_fn:
            o = st["rv"]["ops"][fields.index("include_paths")]
            locs, consts, calls, places = MU.backward_slice(body, [o])
            names = [MU.callee_names(c)[1] for c in calls]
            if any(SHARING.match(n) for n in names) and not any(FRESH.match(n) for n in names):
                share = True
        if share:
            hops[fn] = "shares"
            continue
        for nbb, nt in nested:
            okb = MU.result_edges(body, nbb)
            after = okb["ok"] if okb else nt["target"]
            for bb, t, n, tg in P.call_sites(fn):
                rp = MU.callee_names(t)[1]
                if re.search(r"BTreeSet::<T, A>::(insert|append)$|as std::iter::Extend<.*>>::extend$", rp) and after is not None and G.dominates(idom, after, bb):
                    ch = MU.Chaser(body)
                    root, proj, _ = ch.root(t["args"][0])
                    # receiver must be the include_paths cell of this function's own context parameter
                    recv_param = any(1 <= r <= body["arg_count"] for r in [root])
                    locs, consts, calls, places = MU.backward_slice(body, t["args"][1:2])
                    # source must be the nested context's cell (the aggregate built here), read after the nested call
                    agg_locals = {st["place"]["local"] for bi, st in aggs_fn}
                    src_nested = bool(agg_locals & locs) or any(pl["local"] in agg_locals for pl in places)
                    if recv_param and src_nested:
                        hops[fn] = "writes back"
    writeback = all(v is not None for v in hops.values()) and any(v == "writes back" for v in hops.values())
    shared_paths = all(v == "shares" for v in hops.values())
    wb_where = ", ".join("%s %s" % (k.split("::")[-1], v) for k, v in hops.items())
    ok = shared_paths or writeback
    rep.ob("C11.shared|include_paths", ok,
           ("the included file shares the includer's include-path set" if shared_paths else
            "directories added by .includepath inside an included file reach the includer's set at every hop (%s)" % wb_where) if ok else
           "the included file works on a copy of the include-path set and the chain back to the includer is broken (%s): a directory added by "
           ".includepath inside an included file is unknown to the including file afterwards, unlike with pasted text" % wb_where,
           loc=loc_of(aggs[0][1]["span"]) if aggs else None)
    # ---- b. not found -> Err naming the file
    if pb is None:
        rep.unprovable("C11.notfound|anchor", "parse_file_internal not found")
    else:
        opens = [(bb, t) for bb, t, n, tg in P.call_sites(pk) if MU.callee_names(t)[1] == "std::fs::File::open"]
        if len(opens) != 1:
            rep.unprovable("C11.notfound|open", "File::open called %d times in parse_file_internal" % len(opens))
        else:
            obb, ot = opens[0]
            e = MU.result_edges(pb, obb)
            if not e or e["err"] is None:
                rep.ob("C11.notfound|error", False, "the result of File::open is not inspected / failure is not turned into an error")
            else:
                region = G.reach_blocks(pb, e["err"])
                returns_ok = False
                names_path = False
                ch = MU.Chaser(pb)
                open_root = ch.root(ot["args"][0])[0]
                for x in region:
                    bl = pb["blocks"][x]
                    for st in bl["stmts"]:
                        if st["k"] == "assign" and st["place"]["local"] == 0 and st["rv"]["k"] == "agg" and st["rv"]["kind"].get("vname") == "Ok":
                            returns_ok = True
                    tt = bl["term"]
                    if tt["k"] == "call" and "fmt::rt::Argument" in MU.callee_names(tt)[1]:
                        # a formatted argument derived from the looked-up path itself (not merely from the io::Error of the open call)
                        r0, pr0, _c = MU.chase_fields(ch, tt["args"][0])
                        if r0 is not None:
                            locs, consts, calls, places = MU.backward_slice(pb, [{"copy": {"local": r0, "proj": []}}])
                            if open_root in locs and not any(MU.callee_names(c)[1] == "std::fs::File::open" for c in calls):
                                names_path = True
                # the region reaches the normal continuation only if it leaks
                leaks = e["ok"] in region if e["ok"] is not None else False
                rep.ob("C11.notfound|error", not returns_ok and not leaks, "a file that cannot be opened fails the build" if not returns_ok and not leaks else
                       "after File::open fails parsing continues or Ok is returned")
                rep.ob("C11.notfound|names-file", names_path, "the error message names the file that was looked for" if names_path else
                       "the not-found error does not mention the file name", loc=loc_of(pb["blocks"][obb]["tspan"]))
            # the path as written is tried first, then every directory of the set
            locs, consts, calls, places = MU.backward_slice(pb, [ot["args"][0]])
            names = [MU.callee_names(c)[1] for c in calls]
            # control dependence: Path::exists on the path taken from the context decides between "as written" and the directory search
            as_written = False
            for xbb, xt, xn, xtg in P.call_sites(pk):
                if MU.callee_names(xt)[1] in ("std::path::Path::exists", "std::path::Path::is_file"):
                    l3, c3, calls3, p3 = MU.backward_slice(pb, xt["args"][:1])
                    sw = pb["blocks"][xt["target"]]["term"] if xt.get("target") is not None else None
                    if (1 in l3 or any(pl["local"] == 1 for pl in p3)) and sw is not None and sw["k"] == "switch":
                        as_written = True
            searched = any(n.endswith("BTreeSet::<T, A>::iter") for n in names) and "std::path::PathBuf::push" in names
            rep.ob("C11.search|as-written", as_written, "the path as written is tried before the include directories" if as_written else "the path as written is not tried")
            # what is looked for is a file: a probe that a directory of that name satisfies ends the search in front of the place where
            # the file is
            probes = [MU.callee_names(xt)[1].rsplit("::", 1)[-1] for xbb, xt, xn, xtg in P.call_sites(pk)
                      if re.match(r"^std::path::Path::(exists|is_file|is_dir|try_exists|metadata|symlink_metadata)$", MU.callee_names(xt)[1])]
            okp = bool(probes) and all(x == "is_file" for x in probes)
            rep.ob("C11.search|probe-is-file", okp, "every place is probed for a file of that name (%d probes)" % len(probes) if okp else
                   "the search probes with %s: a directory of the same name in an earlier place ends the search, and the file where it is documented to be found is never reached" % sorted(set(probes)))
            rep.ob("C11.search|directories", searched, "otherwise every directory of the include-path set is tried with the name appended" if searched else
                   "the include-path set is not searched (no iteration + PathBuf::push in the flow to File::open)")
            # parent directory of the file that was opened joins the set used for the nested parse
            agg2 = context_aggregates(P, pk)
            okp = False
            for bi, st in agg2:
                o = st["rv"]["ops"][fields.index("include_paths")]
                locs, consts, calls, places = MU.backward_slice(pb, [o])
                names = [MU.callee_names(c)[1] for c in calls]
                if "std::path::Path::parent" in names and any(n.endswith("BTreeSet::<T, A>::insert") for n in names):
                    okp = True
                for fname in ("common_context", "segments", "macros", "messages"):
                    o2 = st["rv"]["ops"][fields.index(fname)]
                    l2, c2, calls2, p2 = MU.backward_slice(pb, [o2])
                    n2 = [MU.callee_names(c)[1] for c in calls2]
                    fresh = [n for n in n2 if FRESH.match(n)]
                    rep.ob("C11.shared|parse_file_internal|%s" % fname, not fresh and 1 in l2,
                           "parse_file_internal parses the file with the caller's %s" % fname if not fresh and 1 in l2 else
                           "parse_file_internal replaces %s by a fresh object (%s)" % (fname, fresh))
            # the nested context knows the file by the location that was actually opened (relative .includepath inside it is resolved
            # against current_path: C11.search|includepath)
            chp = MU.Chaser(pb)
            opened_r = [chp.root(xt["args"][0], through_calls=False) for _, xt, _, _ in P.call_sites(pk) if MU.callee_names(xt)[1] == "std::fs::File::open"]
            opened = [r_[0] for r_ in opened_r]
            for bi, st in agg2:
                cur = chp.root(st["rv"]["ops"][fields.index("current_path")], through_calls=False)[0]
                okc_ = len(opened) == 1 and (cur == opened[0] or (opened[0] == st["place"]["local"] and MU.proj_fields(opened_r[0][1]) == [fields.index("current_path")]))
                rep.ob("C11.search|current-path", okc_, "the file is parsed under the location that was opened, so a relative .includepath inside it starts from its real directory" if okc_ else
                       "the context the file is parsed with does not carry the location that was opened (File::open takes `%s`, current_path is `%s`): a relative .includepath inside a file found through the search directories starts from the wrong directory" % (
                           pb["locals"][opened[0]]["name"] if opened and opened[0] is not None else "?", pb["locals"][cur]["name"] if cur is not None else "?"))
            # ... and on every path that reaches the nested parse, not only when the file was found as written
            idomp = G.dominators(pb)
            parse_calls = [x for x, xt, xn, xtg in P.call_sites(pk) if "parser::parse" in xtg]
            parents = [x for x, xt, xn, xtg in P.call_sites(pk) if MU.callee_names(xt)[1] == "std::path::Path::parent"]
            always = bool(parse_calls) and any(all(G.dominates(idomp, x, pc) for pc in parse_calls) for x in parents)
            # including is pasting: the function succeeds only after the file was read and its text parsed — no shortcut returns Ok before
            # that (a file asked for twice is read twice)
            early = []
            for pc in parse_calls:
                e_ = MU.result_edges(pb, pc)
                okb_ = e_["ok"] if e_ else None
                for bi_, bl_ in enumerate(pb["blocks"]):
                    if bl_["cleanup"]:
                        continue
                    for st_ in bl_["stmts"]:
                        if st_["k"] == "assign" and st_["place"]["local"] == 0 and not st_["place"]["proj"] and st_["rv"]["k"] == "agg" and st_["rv"]["kind"].get("vname") == "Ok":
                            if okb_ is None or not G.dominates(idomp, okb_, bi_):
                                early.append(loc_of(st_["span"]))
            # what is parsed is the whole text that was read from that file
            reads = [(x, xt) for x, xt, xn, xtg in P.call_sites(pk) if MU.callee_names(xt)[1].endswith("as std::io::Read>::read_to_string") or MU.callee_names(xt)[1] == "std::io::Read::read_to_string"]
            whole = False
            why_w = "no read_to_string found"
            if reads and parse_calls:
                chw = MU.Chaser(pb)
                buf = chw.root(reads[0][1]["args"][1], through_calls=False)[0]
                fileh = chw.root(reads[0][1]["args"][0], through_calls=False)[0]
                pt = pb["blocks"][parse_calls[0]]["term"]
                chw2 = MU.Chaser(pb, transparent={"std::string::String::as_str", "<std::string::String as std::ops::Deref>::deref",
                                                  "<std::string::String as std::convert::AsRef<str>>::as_ref", "<std::string::String as std::borrow::Borrow<str>>::borrow"})
                rt = chw2.root(pt["args"][0])
                text_ok = rt[0] == buf and not MU.proj_fields(rt[1])
                d_ = chw2.single_def(rt[0]) if rt[0] is not None and rt[0] != buf else None
                between = [MU.callee_names(d_[2])[1]] if d_ and d_[0] == "call" else []
                read_checked = MU.result_edges(pb, reads[0][0]) is not None
                opened = [x for x, xt, xn, xtg in P.call_sites(pk) if MU.callee_names(xt)[1] == "std::fs::File::open"]
                same_file = False
                if opened:
                    lf, cf, callsf, pf = MU.backward_slice(pb, reads[0][1]["args"][:1])
                    same_file = any(MU.callee_names(c)[1] == "std::fs::File::open" for c in callsf)
                whole = text_ok and read_checked and same_file
                why_w = ("the text handed to the parser goes through %s" % [n for n in between if not re.search(r"as_str$|String::new$|deref$", n)][:2] if not text_ok else
                         "a failed read is not turned into an error" if not read_checked else "the text is not read from the file that was opened")
            rep.ob("C11.paste|whole-text", whole, "the parser gets the whole text read from the opened file (read errors fail the build)" if whole else
                   "what is parsed is not simply the text of the included file: %s" % why_w)
            rep.ob("C11.paste|no-early-ok", bool(parse_calls) and not early,
                   "parse_file_internal returns Ok only after the file's text went through the parser" if parse_calls and not early else
                   "parse_file_internal can return Ok without having parsed the file (%s): an .include may contribute nothing — e.g. a file that is included a second time" % (early[:2] or "no parse call"))
            rep.ob("C11.search|own-directory|always", okp and always,
                   "the file's own directory is determined on every path to the nested parse (however the file was found)" if okp and always else
                   "the file's own directory is added to the search set only on some paths (e.g. only when the path exists as written): a file found through the include directories cannot include its siblings by bare name")
            rep.ob("C11.search|own-directory", okp, "the directory of the file being parsed is added to the set its own includes are searched in" if okp else
                   "the directory of the including file is not added to the search set")
    # caller-supplied directories
    fk = "parser::parse_file"
    fb = P.body.get(fk)
    if fb is not None:
        news = [t for _, t, _, tg in P.call_sites(fk) if "parser::ParseContext::new" in tg]
        okc = False
        if news:
            locs, consts, calls, places = MU.backward_slice(fb, [news[0]["args"][1]])
            okc = 2 in locs
        rep.ob("C11.search|caller-paths", okc, "directories supplied by the caller seed the include-path set" if okc else "the caller's directories do not reach the include-path set")
    else:
        rep.unprovable("C11.search|caller-paths", "parse_file not found")
    # .includepath: relative -> joined to the directory of the file containing the directive
    # (the IncludePath arm of Directive::parse, or the private part of the directive module it was moved into)
    key_inc, b_inc = key, b
    key = "directive::Directive::parse"
    if key in P.body:
        cands = [k for k in sorted(P.reachable([key])) if k.startswith("directive::") and "{closure" not in k and
                 any(MU.callee_names(t)[1].endswith("BTreeSet::<T, A>::insert") for _, t, _, _ in P.call_sites(k)) and
                 any(MU.callee_names(t)[1] == "std::path::Path::is_relative" for _, t, _, _ in P.call_sites(k))]
        if key not in cands and len(cands) == 1:
            key = cands[0]
    b = P.body.get(key)
    ins = [(bb, t) for bb, t, n, tg in P.call_sites(key) if MU.callee_names(t)[1].endswith("BTreeSet::<T, A>::insert")] if b else []
    oki = False
    for bb, t in ins:
        locs, consts, calls, places = MU.backward_slice(b, t["args"][1:2])
        names = [MU.callee_names(c)[1] for c in calls]
        rel = False
        for xbb, xt, xn, xtg in P.call_sites(key):
            if MU.callee_names(xt)[1] == "std::path::Path::is_relative":
                l3, c3, calls3, p3 = MU.backward_slice(b, xt["args"][:1])
                # the tested path is the one that ends up (possibly joined) in the inserted value
                if any(MU.callee_names(c)[1].startswith("<std::path::PathBuf as std::convert::From<") and c in calls for c in calls3):
                    rel = True
        if rel and "std::path::Path::parent" in names and "std::path::PathBuf::push" in names:
            oki = True
        # chain of custody: between the operand / the current file's directory and the set, the directory goes through nothing of the
        # repository's own (a helper that rewrites it — lexical normalisation of `..`, canonicalisation — is not shown to keep its meaning)
        own = sorted({MU.callee_names(c)[1] for c in calls if P.norm_path(key, c["callee"].get("rpath")) in P.body})
        rep.ob("C11.search|includepath|as-computed", not own,
               "the directory that .includepath adds is stored as computed (operand, joined to the current file's directory when relative)" if not own else
               "the directory that .includepath adds goes through %s before it is stored: that it still names the directory that was written is not established (`..` steps, symbolic links)" % own,
               kind="unprovable" if own else "violated", loc=loc_of(b["blocks"][bb]["tspan"]))
    rep.ob("C11.search|includepath", oki, ".includepath adds its argument, a relative one joined to the directory of the file containing the directive" if oki else
           ".includepath does not resolve a relative argument against the current file's directory")
    # ---- c. .exit is file-local
    parse, n = rules_C08.parse_table_for(P, rep, ["Exit", "Include", "IncludePath"])
    ex = parse.get(("Exit", None))
    rep.ob("C11.exit|mode", ex == {("EndFile", False)}, ".exit yields the EndFile mode" if ex == {("EndFile", False)} else ".exit yields %s" % ex)
    inc = parse.get(("Include", None))
    rep.ob("C11.exit|include-keeps-mode", inc == {("NewLine", False)}, "after .include the including file continues with the next line, whatever ended the included file" if inc == {("NewLine", False)} else
           ".include maps to mode %s" % inc)
    scan, effects, nscan = rules_C08.scan_table(P, rep)
    ef = {a for c, z, a, w in scan.get("EndFile", [])}
    okx = len(ef) == 1 and list(ef)[0][0] == 'none'
    rep.ob("C11.exit|ends-loop-only", okx, "the EndFile mode just ends the line loop of the current file (skip returns None, parse_iter returns Ok)" if okx else
           "EndFile mode does %s" % ef)
    # a .include inside a macro body is looked for like any other: pass 0, which re-parses the bodies, must know the directories
    kb = "builder::pass0::build_pass_0"
    if kb in P.body:
        b0 = P.body[kb]
        pf = [f["name"] for f in P.lib.adts["builder::pass0::Pass0Context"]["variants"][0]["fields"]]
        fresh = None
        for bl in b0["blocks"]:
            for st in bl["stmts"]:
                if st["k"] == "assign" and st["rv"]["k"] == "agg" and st["rv"]["kind"].get("path") == "builder::pass0::Pass0Context":
                    locs, consts, calls, places = MU.backward_slice(b0, [st["rv"]["ops"][pf.index("include_paths")]])
                    from_params = any(1 <= l <= b0["arg_count"] for l in locs)
                    fresh = (not from_params) and any(MU.callee_names(c)[1].endswith(("BTreeSet::<T>::new", "BTreeSet::<T, A>::new")) or "btreeset" in MU.callee_names(c)[1] for c in calls) or (not from_params)
        if fresh is not None:
            rep.ob("C11.search|macro-body|directories", not fresh,
                   "pass 0 re-parses macro bodies with the directories the parse knew" if not fresh else
                   "pass 0 re-parses macro bodies with an empty directory set and no current file: `.include \"defaults.inc\"` inside a macro body is found only relative to the working directory, not next to the file that holds the macro, nor in caller-supplied or .includepath directories")
    return rep
