"""Shared E1 models for C02 / C06: per-item tables of pass 1 and pass 2, the GetData / Operand byte models, the
per-segment-type counters of build_pass_1 and the padding loops of build_pass_2.  All tables are extracted from MIR on
every run (one loop iteration with symbolic loop-carried state); nothing from /repo is executed."""
import re

import absint
import summaries as SM
import sx
from sx import C, S

ACTUAL_LEN = "<std::vec::Vec<directive::Operand> as directive::GetData>::actual_len"
GETDATA = {"Db": "<std::vec::Vec<directive::Operand> as directive::GetData>::get_bytes",
           "Dw": "<std::vec::Vec<directive::Operand> as directive::GetData>::get_words",
           "Dd": "<std::vec::Vec<directive::Operand> as directive::GetData>::get_double_words",
           "Dq": "<std::vec::Vec<directive::Operand> as directive::GetData>::get_quad_words"}
OPERAND_GET = {"Db": "directive::Operand::get_bytes", "Dw": "directive::Operand::get_words",
               "Dd": "directive::Operand::get_double_words", "Dq": "directive::Operand::get_quad_words"}
EXPR_GET = {"Db": "expr::Expr::get_byte", "Dw": "expr::Expr::get_words", "Dd": "expr::Expr::get_double_words", "Dq": "expr::Expr::get_quad_words"}
WIDTH = {"Db": 1, "Dw": 2, "Dd": 4, "Dq": 8}
GET_DEVICE = "<context::CommonContext as context::Context>::get_device"


def sumlen_sym(st, name):
    s = S("sumlen(%s)" % name, 64, False)
    st.doms.setdefault(s, sx.dom_range(0, 1 << 40))
    return s


def actual_len_summary(M, st, fr, t, args, site):
    """Σ Operand::len over an operand vector: a named symbol for an input vector, exact for appended constant items.
    (That the real actual_len is this sum is checked separately: fold(0, |acc, op| acc + op.len()).)"""
    v = SM.deref_arg(M, st, args[0])
    if v[0] in ('unk', 'unkvar'):
        return ('int', sumlen_sym(st, v[2]))
    if v[0] == 'vec':
        total = C(0, 64, False)
        for seg in v[2]:
            if seg[0] == 'blob':
                total = sx.Bin('Add', total, sumlen_sym(st, seg[1]), 64, False)
            else:
                for it in seg[1]:
                    # an appended operand: Operand::E(..) has len 1; anything else is not modelled
                    if it[0] == 'agg' and len(it) > 6 and it[5] == "directive::Operand" and it[6] == "E":
                        total = sx.Bin('Add', total, C(1, 64, False), 64, False)
                    else:
                        return NotImplemented
        return ('int', total)
    return NotImplemented


def dom1(st, name):
    s = None
    for k in st.doms:
        if isinstance(k, tuple) and k[0] == 's' and k[1] == name:
            s = k
    if s is None:
        return None
    d = st.doms[s]
    return sx.dom_min(d) if sx.dom_size(d) == 1 else None


def variant_names(P, adt):
    return {int(v["discr"]): v["name"] for v in P.lib.adts[adt]["variants"]}


class ItemRow:
    def __init__(self):
        self.item = None       # Item variant name
        self.dd = None         # DataDefine variant name
        self.seg = None        # SegmentType variant name or None (does not matter)
        self.exit = None       # 'loop' (continues) | 'Err'
        self.delta = None      # expression: cur_address at loop end
        self.start = None      # expression: cur_address at loop start
        self.conds = []
        self.pushed = None     # value pushed to out_items (pass 1) / bytes appended (pass 2: list of segments)
        self.state = None
        self.events = []


def item_rows(P, M, fn, cur_name, out_name, elem):
    """explore one iteration of the item loop of pass_1_internal / pass_2_internal"""
    body = P.body[fn]
    paths = M.explore(fn, M.arg_unknowns(fn))
    item_v = variant_names(P, "parser::Item")
    dd_v = variant_names(P, "parser::DataDefine")
    seg_v = variant_names(P, "parser::SegmentType")
    cur_l = out_l = None
    for i, l in enumerate(body["locals"]):
        if l["name"] == cur_name and cur_l is None:
            cur_l = i
        if l["name"] == out_name and out_l is None:
            out_l = i
    rows = []
    for p in paths:
        st = p.state
        r = ItemRow()
        iv = dom1(st, "%s.1#d" % elem)
        r.item = item_v.get(iv) if iv is not None else None
        dv = dom1(st, "%s.1:Data.0#d" % elem)
        r.dd = dd_v.get(dv) if dv is not None else None
        sv = dom1(st, "segment*.t#d")
        r.seg = seg_v.get(sv) if sv is not None else None
        r.exit = p.exit
        r.state = st
        r.conds = p.conds
        r.events = p.events
        cv = st.cells.get(('L', 'f0', cur_l))
        r.delta = M.as_int(st, cv) if cv is not None else None
        ov = st.cells.get(('L', 'f0', out_l))
        r.pushed = ov
        r.more = dom1(st, "more(segment*.items)")
        rows.append(r)
    return rows, paths, M


def pass1_rows(P):
    M = absint.Machine(P, max_depth=5, opaque={"instruction::operation::Operation::info"}, summaries={ACTUAL_LEN: actual_len_summary})
    return item_rows(P, M, "builder::pass1::pass_1_internal", "cur_address", "out_items", "segment*.items[i]")


def pass2_rows(P):
    M = absint.Machine(P, max_depth=5, opaque=set(GETDATA.values()) | {"instruction::process", "expr::Expr::run", GET_DEVICE,
                                                                      "device::Device::check_operation"})
    return item_rows(P, M, "builder::pass2::pass_2_internal", "cur_address", "code_fragment", "segment*.items[i]")


def vec_len_expr(v):
    """length expression of an abstract vec value"""
    if v is None or v[0] != 'vec':
        return None
    total = C(0, 64, False)
    for seg in v[2]:
        if seg[0] == 'items':
            total = sx.Bin('Add', total, C(len(seg[1]), 64, False), 64, False)
        else:
            total = sx.Bin('Add', total, seg[2], 64, False)
    return total


def eval_expr(e, env_by_name, default=None):
    """evaluate an sx expression with symbol values looked up by *name* (dict name -> int); unknown names take default"""
    env = {}
    for s in sx.syms(e):
        if s[1] in env_by_name:
            env[s] = env_by_name[s[1]]
        elif default is not None:
            env[s] = default(s)
        else:
            raise KeyError(s[1])
    return sx.evaluate(e, env)


def conds_hold(conds, env_by_name):
    """all path conditions whose symbols are all known hold; conditions on other symbols are ignored"""
    for e, t in conds:
        ss = sx.syms(e)
        if not ss or not all(s[1] in env_by_name for s in ss):
            continue
        try:
            if bool(sx.evaluate(e, {s: env_by_name[s[1]] for s in ss})) != t:
                return False
        except sx.Unevaluable:
            return False
    return True


# ------------------------------------------------------------------------------------------------ GetData / Operand models
def getdata_model(P, dd):
    """One iteration of <Vec<Operand> as GetData>::get_X with Operand::get_X inlined and Expr::get_X opaque.
    -> dict(ok, per_variant: {E: bytes per element expr | 'Err', S: ...}, order facts)"""
    fn = GETDATA[dd]
    M = absint.Machine(P, max_depth=5, opaque={EXPR_GET[dd], "expr::Expr::run"})
    paths = M.explore(fn, M.arg_unknowns(fn))
    body = P.body[fn]
    out_l = None
    for i, l in enumerate(body["locals"]):
        if l["name"] == "bytes":
            out_l = i
    opv = variant_names(P, "directive::Operand")
    res = {"paths": len(paths), "variants": {}, "adapters": set(), "problems": [], "empty_ok": False}
    for p in paths:
        st = p.state
        for ev in p.events:
            if ev[0] == 'iter-next':
                res["adapters"] |= {a[0] for a in ev[2]}
        v = dom1(st, "self*[i]#d")
        more = dom1(st, "more(self*)")
        if p.exit == "Ok" and more == 0:
            ret = p.ret[3][0] if p.ret[0] == 'agg' and p.ret[3] else None
            res["empty_ok"] = ret is not None and ret[0] == 'vec' and not ret[2]
            continue
        if v is None:
            if p.exit not in ("Ok",):
                res["problems"].append("path with unknown operand variant exits %s" % p.exit)
            continue
        name = opv[v]
        ent = res["variants"].setdefault(name, [])
        if p.exit == "loop":
            ov = st.cells.get(('L', 'f0', out_l))
            ent.append(("append", ov, p))
        elif p.exit == "Err":
            ent.append(("Err", None, p))
        else:
            res["problems"].append("operand %s: exit %s" % (name, p.exit))
    return res


def expr_get_model(P, dd):
    """Expr::get_byte / get_words / ...: accepted value set and emitted bytes"""
    fn = EXPR_GET[dd]
    M = absint.Machine(P, max_depth=4, opaque={"expr::Expr::run"})
    paths = M.explore(fn, M.arg_unknowns(fn))
    oks = [p for p in paths if p.exit == "Ok"]
    vsym = None
    acc = None
    outs = []
    for p in oks:
        for s, d in p.state.doms.items():
            if isinstance(s, tuple) and s[0] == 's' and s[1].startswith("run(") and s[1].endswith(":Ok.0"):
                vsym = s
                acc = d if acc is None else sx.dom_union(acc, d)
        v = p.ret[3][0] if p.ret[0] == 'agg' and p.ret[3] else None
        outs.append((v, p))
    return {"paths": len(paths), "oks": oks, "vsym": vsym, "accepted": acc, "outs": outs, "M": M,
            "may_panic": sorted({e[1] for p in oks for e in p.events if e[0] == 'may-panic'})}
