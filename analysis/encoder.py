"""Shared E1 exploration of instruction::process and comparison of every Ok path with the ISA oracle.

Used by C01 (exact encoding, nothing legal rejected), C02.a (length agreement), C03 (relative displacement),
C04 (nothing illegal accepted, operand kind/count), C13 (device independence of the encoder), C16 (index sites)."""
import itertools
import json
import os
import re

import absint
import facts as F
import graph as G
import sx
from sx import C, S

SPEC = os.path.join(F.VERIF, "spec", "avr_isa.json")
ENUM_LIMIT = 70000
PRODUCT_LIMIT = 300000

_cache = {}


def isa():
    with open(SPEC) as fh:
        return json.load(fh)


class OperandView:
    """what a path did with op_args[i]"""

    def __init__(self, i):
        self.i = i
        self.kind = None        # 'reg' | 'alias' | 'expr' | 'index'
        self.sym = None         # register-number symbol / expression-value symbol
        self.mode = None        # IndexOps variant name
        self.r16 = None         # (symbol, domain) of the Reg16
        self.qsym = None

    def __repr__(self):
        return "%s%s" % (self.kind, ("(%s)" % self.mode) if self.mode else "")


class EncPath:
    def __init__(self, M, P, path):
        self.M = M
        self.path = path
        st = path.state
        self.doms = st.doms
        self.exit = path.exit
        lib = P.lib
        opad = lib.adts["instruction::operation::Operation"]
        d = st.doms.get(S("op*#d", 64, True))
        self.op = None
        if d is not None and sx.dom_size(d) == 1:
            dv = sx.dom_min(d)
            for v in opad["variants"]:
                if int(v["discr"]) == dv:
                    self.op = v["name"]
        self.subsym = None
        self.subvals = [None]
        self.subenum = None
        for nm, adt in (("Br", "instruction::operation::BranchT"), ("Se", "instruction::operation::SFlags"), ("Cl", "instruction::operation::SFlags")):
            if self.op == nm:
                s = S("op*:%s.0#d" % nm, 64, True)
                self.subsym = s
                self.subenum = {int(v["discr"]): v["name"] for v in lib.adts[adt]["variants"]}
                dd = st.doms.get(s)
                if dd is None:
                    dd = sx.dom_set(self.subenum.keys())
                self.subvals = sorted(sx.dom_iter(sx.dom_norm(dd)))
        # device dependence
        self.core = "any"
        self.device_syms = [s for s in st.doms if isinstance(s, tuple) and s[0] == 's' and "get_device" in s[1]]
        for s in self.device_syms:
            if s[1].startswith("contains(get_device(") and s[1].endswith("DisabledOptions::Avr8l)"):
                dd = st.doms[s]
                if sx.dom_size(dd) == 1:
                    self.core = "avr8l" if sx.dom_min(dd) == 1 else "std"
        self.flag_facts = {}
        for s in self.device_syms:
            if s[1].startswith("contains(get_device(") and "DisabledOptions::" in s[1]:
                dd = st.doms[s]
                if sx.dom_size(dd) == 1:
                    self.flag_facts[s[1].rsplit("DisabledOptions::", 1)[-1].rstrip(")")] = sx.dom_min(dd)
        # operands
        self.ops = {}
        rx = re.compile(r"^op_args\*\[(\d+)\]")
        names = {}
        for s in st.doms:
            if isinstance(s, tuple) and s[0] == 's':
                names[s[1]] = s
        idx = set()
        for n in names:
            m = rx.match(n)
            if m:
                idx.add(int(m.group(1)))
            for m in re.finditer(r"op_args\*\[(\d+)\]", n):
                idx.add(int(m.group(1)))
        iop = lib.adts["instruction::InstructionOps"]
        ivar = {int(v["discr"]): v["name"] for v in iop["variants"]}
        xop = {int(v["discr"]): v["name"] for v in lib.adts["instruction::IndexOps"]["variants"]}
        for i in sorted(idx):
            ov = OperandView(i)
            base = "op_args*[%d]" % i
            dd = st.doms.get(names.get(base + "#d"))
            if dd is None or sx.dom_size(dd) != 1:
                ov.kind = "unknown"
                self.ops[i] = ov
                continue
            var = ivar[sx.dom_min(dd)]
            if var == "R8":
                ov.kind = "reg"
                ov.sym = names.get(base + ":R8.0#d")
                if ov.sym is None:
                    ov.sym = S(base + ":R8.0#d", 64, True)
            elif var == "E":
                alias = "get_def(constants*, %s:E.0:Ident.0)" % base
                ad = st.doms.get(names.get(alias + "#d"))
                if ad is not None and sx.dom_size(ad) == 1 and sx.dom_min(ad) == 1:
                    ov.kind = "alias"
                    ov.sym = names.get(alias + ":Some.0#d") or S(alias + ":Some.0#d", 64, True)
                else:
                    ov.kind = "expr"
                    ov.sym = names.get("run(%s:E.0, constants*):Ok.0" % base)
            elif var == "Index":
                ov.kind = "index"
                md = st.doms.get(names.get(base + ":Index.0#d"))
                if md is not None and sx.dom_size(md) == 1:
                    ov.mode = xop[sx.dom_min(md)]
                    rs = names.get("%s:Index.0:%s.0#d" % (base, ov.mode))
                    ov.r16 = rs
                    ov.qsym = names.get("run(%s:Index.0:%s.1, constants*):Ok.0" % (base, ov.mode))
            self.ops[i] = ov
        self.len_sym = names.get("op_args*#len")
        self.len_dom = st.doms.get(self.len_sym) if self.len_sym else None
        # relative displacement atoms (derived value sets on non-symbol expressions)
        self.atoms = [(e, d) for e, d in st.doms.items() if isinstance(e, tuple) and e[0] not in ('s',)]
        # emitted bytes
        self.bytes = None
        ret = path.ret
        if path.exit == "Ok" and ret[0] == 'agg' and ret[3] and ret[3][0][0] == 'vec':
            items = []
            ok = True
            for seg in ret[3][0][2]:
                if seg[0] == 'items':
                    for it in seg[1]:
                        if it[0] == 'int':
                            items.append(it[1])
                        else:
                            ok = False
                else:
                    ok = False
            self.bytes = items if ok else None
        self.events = path.events

    def arity(self):
        return (max(self.ops) + 1) if self.ops else 0

    def shape(self):
        return tuple(repr(self.ops.get(i)) for i in range(self.arity()))


def explore(P):
    key = P.facts.dir
    if key in _cache:
        return _cache[key]
    M = absint.Machine(P, opaque={"expr::Expr::run"}, max_depth=8)
    fn = "instruction::process"
    paths = M.explore(fn, M.arg_unknowns(fn))
    eps = [EncPath(M, P, p) for p in paths]
    res = {"M": M, "paths": eps, "capped": M.capped, "unsupported": M.unsupported}
    _cache[key] = res
    return res


R16 = {"X": 0, "Y": 1, "Z": 2}


# ------------------------------------------------------------------------------------------------ oracle side
def field_fn(expr):
    code = compile(expr, "<isa>", "eval")
    return lambda v: eval(code, {"__builtins__": {}}, {"v": v})


def legal_values(op):
    if op["kind"] == "reg":
        return sx.dom_set(op["legal"])
    if op["kind"] in ("imm", "rel"):
        return sx.dom_range(op["lo"], op["hi"])
    return None


def row_matches_shape(row, ep):
    """operand kinds of the path agree with the row's operand list (same count, same kinds, same index form)"""
    ops = row["operands"]
    if ep.arity() != len(ops):
        return False
    for i, ro in enumerate(ops):
        ov = ep.ops.get(i)
        if ov is None:
            return False
        if ro["kind"] == "reg":
            if ov.kind not in ("reg", "alias"):
                return False
        elif ro["kind"] in ("imm", "rel"):
            if ov.kind != "expr":
                return False
        elif ro["kind"] == "index":
            if ov.kind != "index" or ov.mode != ro["mode"]:
                return False
            if ov.r16 is not None:
                d = ep.doms.get(ov.r16)
                if d is not None and not sx.dom_contains(d, R16[ro["reg"]]):
                    return False
    return True


def bindings(row, ep, subval):
    """-> (env_fixed, symbols) : constants to substitute (sub-variant, Reg16) and letter -> (symbol, operand spec, accepted domain)"""
    fixed = {}
    if ep.subsym is not None and subval is not None:
        fixed[ep.subsym] = subval
    letters = {}
    for i, ro in enumerate(row["operands"]):
        ov = ep.ops[i]
        if ro["kind"] == "index":
            if ov.r16 is not None:
                fixed[ov.r16] = R16[ro["reg"]]
            if "q" in ro:
                letters[ro["q"]["letter"]] = (ov.qsym, ro["q"], i)
        elif ro["kind"] == "rel":
            letters[ro["letter"]] = ("rel", ro, i)
        else:
            letters[ro["letter"]] = (ov.sym, ro, i)
            if ro.get("also"):
                letters[ro["also"]] = (ov.sym, ro, i)
    return fixed, letters


def reference_word_bits(row):
    """list over bit positions (LSB first over the whole 16/32-bit encoding, first word = low 16 positions... no:
    position p = 16*w + b for word w, bit b) of  '0' | '1' | (letter, field bit index)"""
    pat = row["pattern"]
    out = {}
    for w in range(row["words"]):
        chunk = pat[16 * w:16 * (w + 1)]
        for j, ch in enumerate(chunk):
            b = 15 - j
            out[(w, b)] = ch
    # field bit index: count of the same letter to the right (less significant), across words (second word is less significant)
    order = []   # positions MSB-first in field order: first word first
    for w in range(row["words"]):
        for b in range(15, -1, -1):
            order.append((w, b))
    res = {}
    for pos in order:
        ch = out[pos]
        if ch in "01":
            res[pos] = int(ch)
    letters = sorted({ch for ch in pat if ch not in "01"})
    for L in letters:
        poss = [pos for pos in order if out[pos] == L]
        n = len(poss)
        for k, pos in enumerate(poss):
            res[pos] = (L, n - 1 - k)
    return res


def _bit_of(v, i):
    return (v >> i) & 1


class Comparison:
    def __init__(self):
        self.findings = []     # (clause, ok, text, witness)
        self.accepted = {}     # letter -> domain accepted on this path
        self.legal = {}
        self.nbits = 0
        self.method = {}

    def add(self, clause, ok, text, witness=None):
        self.findings.append((clause, ok, text, witness))


def compare(ep, row, subval):
    """Compare the bytes emitted on one Ok path with one ISA row (for one sub-variant value)."""
    cmpres = Comparison()
    if ep.bytes is None:
        cmpres.add("bytes", False, "the returned byte vector could not be read off the path (abstract value left the domain)")
        return cmpres
    fixed, letters = bindings(row, ep, subval)
    m = {s: C(v, s[2], s[3]) for s, v in fixed.items()}
    by = [sx.subst(b, m) for b in ep.bytes]
    # relative displacement: the derived atom becomes a proxy symbol
    relsym = None
    for L, (sym, ro, i) in list(letters.items()):
        if sym == "rel":
            atoms = [(e, d) for e, d in ep.atoms if any(_contains(b, e) for b in by)]
            if len(atoms) != 1:
                cmpres.add("rel", False, "no single displacement term with a checked range feeds the %s field (%d candidates)" % (L, len(atoms)))
                return cmpres
            e, d = atoms[0]
            relsym = S("rel", *sx.ty_of(e))
            by = [sx.subst(b, {e: relsym}) for b in by]
            letters[L] = (relsym, ro, i)
            cmpres.accepted[L] = d
            cmpres.method["rel_expr"] = e
    # lengths
    want = 2 * row["words"]
    cmpres.add("length", len(by) == want, "emits %d bytes, the ISA form has %d word(s)" % (len(by), row["words"]),
               {"emitted_bytes": len(by)})
    if len(by) != want:
        return cmpres
    doms_eval = {}
    for L, (sym, ro, i) in letters.items():
        if sym is None:
            cmpres.add("operand", False, "operand %d (%s) is not read by the encoder on this path" % (i, L))
            return cmpres
        acc = cmpres.accepted.get(L)
        if acc is None:
            acc = ep.doms.get(sym, sx.dom_full(*sx.ty_of(sym)))
            cmpres.accepted[L] = acc
        leg = legal_values(ro)
        cmpres.legal[L] = leg
        inter = _dom_intersect(acc, leg)
        doms_eval[sym] = inter
    # derived bits
    derived = {}
    for k, b in enumerate(by):
        bl = sx.bits_of(b, doms_eval)
        for j in range(8):
            derived[(k // 2, (k % 2) * 8 + j)] = bl[j]
    ref = reference_word_bits(row)
    sym_of = {L: letters[L][0] for L in letters}
    ffn = {L: field_fn(letters[L][1]["field"]) for L in letters}
    need_brute = False
    bad = []
    for pos in sorted(ref):
        exp = ref[pos]
        dd = derived[pos]
        cmpres.nbits += 1
        r = _cmp_bit(dd, exp, sym_of, ffn, doms_eval, letters)
        if r == "brute":
            need_brute = True
        elif r is not True:
            bad.append((pos, r))
    if need_brute:
        br = _brute(by, row, letters, doms_eval, ffn)
        if br == "too-large":
            cmpres.add("encoding", False, "bit provenance is not exact and the operand space is too large to enumerate", {"kind": "unprovable"})
        elif br is not None:
            cmpres.add("encoding", False, br[0], br[1])
        else:
            cmpres.add("encoding", True, "all %d bits agree (enumerated over the legal operand tuples)" % cmpres.nbits)
        cmpres.method["enc"] = "enumeration"
    elif bad:
        (w, b), why = bad[0]
        cmpres.add("encoding", False, "word %d bit %d: %s" % (w, b, why[0]), why[1])
        for (w, b), why in bad[1:4]:
            cmpres.add("encoding+", False, "word %d bit %d: %s" % (w, b, why[0]), why[1])
    else:
        cmpres.add("encoding", True, "all %d bits agree with %s" % (cmpres.nbits, row["pattern"]))
        cmpres.method["enc"] = "bit provenance"
    return cmpres


def _contains(e, sub):
    if e == sub:
        return True
    k = e[0]
    if k in ('bin', 'ovf'):
        return _contains(e[2], sub) or _contains(e[3], sub)
    if k == 'un':
        return _contains(e[2], sub)
    if k == 'cast':
        return _contains(e[1], sub)
    if k == 'cmp':
        return _contains(e[2], sub) or _contains(e[3], sub)
    if k == 'fn':
        return any(_contains(a, sub) for a in e[2])
    return False


def _dom_intersect(a, b):
    if b is None:
        return a
    if a[0] == 'set':
        return ('set', frozenset(v for v in a[1] if sx.dom_contains(b, v)))
    if b[0] == 'set':
        return ('set', frozenset(v for v in b[1] if sx.dom_contains(a, v)))
    out = []
    for lo, hi in sx.dom_intervals(a):
        for l2, h2 in sx.dom_intervals(b):
            l, h = max(lo, l2), min(hi, h2)
            if l <= h:
                out.append((l, h))
    return ('iv', tuple(out))


def _cmp_bit(dd, exp, sym_of, ffn, doms_eval, letters):
    """True | 'brute' | (text, witness)"""
    if dd == 'T':
        return "brute"
    if isinstance(exp, int):
        if dd == exp:
            return True
        if isinstance(dd, int):
            return ("opcode bit is %d, the ISA pattern has %d" % (dd, exp), {"derived": dd, "expected": exp})
        # depends on an operand where the pattern has a constant
        s = dd[1] if dd[0] in ('b', 'nb') else list(sx.syms(dd[1]))[0]
        d = sx.dom_norm(doms_eval.get(s, sx.dom_full(*sx.ty_of(s))))
        if d[0] == 'set':
            for v in sorted(d[1]):
                if _eval_bit(dd, s, v) != exp:
                    return ("fixed opcode bit (%d) is overwritten by operand %s when it is %d" % (exp, s[1], v), {"operand_value": v})
            return True
        return "brute"
    L, m = exp
    want_sym = sym_of[L]
    f = ffn[L]
    if isinstance(dd, int):
        d = sx.dom_norm(doms_eval.get(want_sym))
        if d[0] == 'set':
            for v in sorted(d[1]):
                if _bit_of(f(v), m) != dd:
                    return ("field %s bit %d is constant %d but should follow the operand (e.g. operand = %d)" % (L, m, dd, v), {"operand_value": v})
            return True
        return ("field %s bit %d is constant %d" % (L, m, dd), None)
    s = dd[1] if dd[0] in ('b', 'nb') else list(sx.syms(dd[1]))[0]
    if s != want_sym:
        return ("field %s bit %d is taken from %s instead of operand %s" % (L, m, s[1], want_sym[1]), {"derived_from": s[1]})
    d = sx.dom_norm(doms_eval.get(s))
    if d[0] == 'set':
        for v in sorted(d[1]):
            if _eval_bit(dd, s, v) != _bit_of(f(v), m):
                return ("field %s bit %d is wrong for operand value %d (emitted %d, ISA %d)" % (L, m, v, _eval_bit(dd, s, v), _bit_of(f(v), m)),
                        {"operand_value": v})
        return True
    # large domain: structural comparison, valid for identity fields
    if letters[L][1]["field"] == "v" and dd[0] == 'b':
        if dd[2] == m:
            return True
        return ("field %s bit %d carries operand bit %d" % (L, m, dd[2]), {"operand_value": 1 << max(m, dd[2])})
    return "brute"


def _eval_bit(dd, s, v):
    if dd[0] == 'b':
        return _bit_of(v, dd[2])
    if dd[0] == 'nb':
        return 1 - _bit_of(v, dd[2])
    if dd[0] == 'f':
        return _bit_of(sx.evaluate(dd[1], {s: v}), dd[2])
    raise ValueError(dd)


def reference_value(row, letters, ffn, env):
    """the 16/32-bit encoding the ISA defines for operand values env: {letter: v}; returns list of words"""
    ref = reference_word_bits(row)
    words = [0] * row["words"]
    for (w, b), exp in ref.items():
        if isinstance(exp, int):
            bit = exp
        else:
            L, m = exp
            bit = _bit_of(ffn[L](env[L]), m)
        words[w] |= bit << b
    return words


def _brute(by, row, letters, doms_eval, ffn):
    Ls = sorted(letters)
    syms_ = []
    doms = []
    total = 1
    seen = {}
    for L in Ls:
        s = letters[L][0]
        if s in seen:
            continue
        seen[s] = L
        d = sx.dom_norm(doms_eval[s])
        if d[0] != 'set':
            return "too-large"
        total *= max(1, len(d[1]))
        if total > PRODUCT_LIMIT:
            return "too-large"
        syms_.append(s)
        doms.append(sorted(d[1]))
    for combo in itertools.product(*doms):
        env = dict(zip(syms_, combo))
        lenv = {L: env[letters[L][0]] for L in Ls}
        emitted = []
        try:
            vals = [sx.evaluate(b, env) for b in by]
        except sx.Unevaluable:
            return ("emitted bytes cannot be evaluated for operands %s" % lenv, {"operands": lenv})
        for w in range(row["words"]):
            emitted.append(vals[2 * w] | (vals[2 * w + 1] << 8))
        refw = reference_value(row, letters, ffn, lenv)
        if emitted != refw:
            return ("operands %s assemble to %s, the ISA defines %s" % (
                lenv, " ".join("%04x" % x for x in emitted), " ".join("%04x" % x for x in refw)),
                {"operands": lenv, "emitted": ["%04x" % x for x in emitted], "expected": ["%04x" % x for x in refw]})
    return None


# ------------------------------------------------------------------------------------------------ whole analysis (cached on disk)
def form_name(row):
    parts = []
    for o in row["operands"]:
        if o["kind"] == "index":
            parts.append({"None": "%s", "PostIncrement": "%s+", "PreDecrement": "-%s", "PostIncrementE": "%s+q"}[o["mode"]] % o["reg"])
        else:
            parts.append(o["letter"])
    return "%s %s" % (row["mn"], ",".join(parts)) if parts else row["mn"]


def letters_of(row):
    """letter -> operand spec (the q of an index operand included)"""
    out = {}
    for o in row["operands"]:
        if o["kind"] == "index":
            if "q" in o:
                out[o["q"]["letter"]] = o["q"]
        else:
            out[o["letter"]] = o
            if o.get("also"):
                out[o["also"]] = o
    return out


def analyse(P):
    """-> dict (JSON-able) with one record per (row, operand-kind shape) and per unmatched Ok path."""
    import pickle
    cache = os.path.join(P.facts.dir, "encoder-analysis.pickle")
    if os.path.exists(cache) and os.path.getmtime(cache) >= max(os.path.getmtime(__file__), os.path.getmtime(SPEC),
                                                                 os.path.getmtime(absint.__file__), os.path.getmtime(sx.__file__),
                                                                 os.path.getmtime(os.path.join(os.path.dirname(__file__), "summaries.py"))):
        try:
            with open(cache, "rb") as fh:
                return pickle.load(fh)
        except Exception:
            pass            # a cache file that cannot be read is recomputed
    res = explore(P)
    spec = isa()
    out = {"n_paths": len(res["paths"]), "capped": res["capped"], "unsupported": [u[0] for u in res["unsupported"]],
           "exits": {}, "groups": {}, "norow": [], "index_events": [], "rows": len(spec["rows"]), "may_panic": [], "device_reads": []}
    for ep in res["paths"]:
        out["exits"][ep.exit] = out["exits"].get(ep.exit, 0) + 1
    seen_idx = set()
    seen_panic = set()
    for ep in res["paths"]:
        for ev in ep.events:
            if ev[0] == 'index':
                k = (ep.op, ev[1], ev[2], ev[3][1], ev[4])
                if k not in seen_idx:
                    seen_idx.add(k)
                    out["index_events"].append({"op": ep.op, "vec": ev[1], "index": ev[2], "bb": ev[3][1], "fn": ev[3][0], "in_bounds": ev[4]})
            if ev[0] == 'may-panic':
                k = (ep.op, ev[1], ev[2], ev[3])
                if k not in seen_panic:
                    seen_panic.add(k)
                    out["may_panic"].append({"op": ep.op, "kind": ev[1], "fn": ev[2], "bb": ev[3], "span": ev[4], "cond": ev[5]})
        if ep.exit == "Ok" and ep.bytes is not None:
            dep = set()
            for b in ep.bytes:
                dep |= {s[1] for s in sx.syms(b) if "get_device" in s[1]}
            if dep:
                out["device_reads"].append({"op": ep.op, "syms": sorted(dep)})
    rc_regs = spec["reduced_core"]["registers"]
    out["rc_absent_ops"] = spec["reduced_core"]["absent_ops"]
    for ep in res["paths"]:
        if ep.exit != "Ok":
            continue
        rows = [r for r in spec["rows"] if r["op"] == ep.op]
        for sv in ep.subvals:
            sub = ep.subenum[sv] if sv is not None else None
            cand = [r for r in rows if r["sub"] == sub and r["core"] in ("any", ep.core) and row_matches_shape(r, ep)]
            if not cand:
                out["norow"].append({"op": ep.op, "sub": sub, "core": ep.core, "shape": list(ep.shape()),
                                     "len": sx.dom_show(ep.len_dom) if ep.len_dom else None,
                                     "bytes": [sx.show(b) for b in (ep.bytes or [])][:4]})
                continue
            for r in cand:
                c = compare(ep, r, sv)
                kinds = tuple(ep.ops[i].kind for i in range(ep.arity()))
                gk = (form_name(r), r["core"], kinds)
                g = out["groups"].setdefault(gk, {"row": r, "kinds": kinds, "paths": 0, "findings": [], "accepted": {}, "legal": {},
                                                  "len_dom": None, "method": set(), "rel_linear": [], "nbits": 0})
                g["paths"] += 1
                g["nbits"] = max(g["nbits"], c.nbits)
                ff = set(ep.flag_facts.items())
                g["flag_all"] = ff if "flag_all" not in g else (g["flag_all"] & ff)
                g["flag_any"] = g.get("flag_any", set()) | ff
                for f in c.findings:
                    if f not in g["findings"]:
                        g["findings"].append(f)
                # a path that has not asked which core it runs on speaks for both cores
                views = []
                if r["core"] != "any" or ep.core in ("any", "std"):
                    views.append("accepted")
                if r["core"] == "any" and ep.core in ("any", "avr8l"):
                    views.append("accepted_rc")
                for view in views:
                    acc = g.setdefault(view, {})
                    for L, d in c.accepted.items():
                        acc[L] = sx.dom_union(acc[L], d) if L in acc else d
                for L, d in c.legal.items():
                    g["legal"][L] = d
                    if r["core"] == "any":
                        ro = letters_of(r).get(L)
                        g.setdefault("legal_rc", {})[L] = _dom_intersect(d, sx.dom_set(rc_regs)) if ro and ro["kind"] == "reg" else d
                if ep.len_dom is not None:
                    g["len_dom"] = sx.dom_union(g["len_dom"], ep.len_dom) if g["len_dom"] is not None else ep.len_dom
                if "enc" in c.method:
                    g["method"].add(c.method["enc"])
                if "rel_expr" in c.method:
                    e = c.method["rel_expr"]
                    lin = sx.linear(e, ep.doms)
                    g["rel_linear"].append({"expr": sx.show(e), "linear": None if lin is None else {("const" if k is None else k[1]): v for k, v in lin.items()}})
    # several checks of one tree may run side by side: the cache appears whole or not at all
    tmp = "%s.%d.tmp" % (cache, os.getpid())
    with open(tmp, "wb") as fh:
        pickle.dump(out, fh)
    os.replace(tmp, cache)
    return out
