"""C04 — operands the ISA cannot encode are rejected, never mis-encoded.

Same E1 exploration as C01, opposite inclusion: on every Ok path of the encoder the accepted value set of each operand must
be contained in the legal set of the matching ISA row; an Ok path whose operand kinds match no ISA row, or which tolerates a
different number of operands than the row has, is a violation."""
import encoder as E
import facts as F
import graph as G
import sx
from common import Reporter


def run(tier):
    rep = Reporter("C04", tier, "proof", "value-set dataflow over all acyclic paths of the encoder: accepted domain ⊆ legal domain per ISA row")
    rep.explanation = ("For every (ISA row, operand kind) group the union of the value sets that reach an Ok return is computed from the "
                       "guards on the path (comparisons, casts, range checks inlined from get_byte/get_bit_index) and must be a subset of "
                       "the legal set; operand kind and operand count are path facts as well. Symbols range over all of i64, so "
                       "negative and huge operands are covered.")
    rep.trusted = ["rustc nightly MIR of /repo", "spec/avr_isa.json", "E1 value-set refinement (comparisons against constants, enumeration of small sets)"]
    rep.assumptions = ["Expr::run is opaque: an operand expression may evaluate to any i64"]
    P = G.Program(F.load("dev"))
    A = E.analyse(P)
    rep.count("paths of process explored", A["n_paths"])
    rep.count("Ok paths", A["exits"].get("Ok", 0))
    rep.count("Err paths", A["exits"].get("Err", 0))
    if A["capped"] or A["unsupported"]:
        rep.unprovable("C04.explore", "exploration of process incomplete (capped=%s, unsupported=%s)" % (A["capped"], A["unsupported"][:3]))
    count_bad = {}
    for (form, core, kinds), g in sorted(A["groups"].items()):
        r = g["row"]
        tag = "%s|%s|%s" % (form, core, "+".join(kinds) or "-")
        for L, leg in sorted(g["legal"].items()):
            acc = g["accepted"].get(L)
            ok = acc is not None and sx.dom_subset(acc, leg)
            wit = None
            if not ok and acc is not None:
                extra = []
                for lo, hi in sx.dom_intervals(acc):
                    for v in (lo, hi, lo + 1, hi - 1):
                        if lo <= v <= hi and not sx.dom_contains(leg, v) and v not in extra:
                            extra.append(v)
                an = sx.dom_norm(acc)
                if an[0] == 'set':
                    extra = sorted(v for v in an[1] if not sx.dom_contains(leg, v))
                wit = extra[:10]
            rep.ob("C04.domain|%s|%s" % (tag, L), ok,
                   "%s: accepted %s ⊆ legal %s for operand %s" % (form, sx.dom_show(acc) if acc else "-", sx.dom_show(leg), L) if ok else
                   "%s: operand %s accepts values the ISA cannot encode: accepted %s, legal %s, e.g. %s" % (
                       form, L, sx.dom_show(acc) if acc else "-", sx.dom_show(leg), wit),
                   detail={"accepted": sx.dom_show(acc) if acc else None, "legal": sx.dom_show(leg), "illegal_accepted": wit},
                   sample={"row": form, "operand": L, "accepted": sx.dom_show(acc) if acc else None, "legal": sx.dom_show(leg)} if ok else None)
        # the reduced cores have r16..r31 only: what a path that may run for such a core accepts must lie in that half
        for L, leg in sorted(g.get("legal_rc", {}).items()):
            acc = g.get("accepted_rc", {}).get(L)
            if acc is None:
                continue         # no successful path for a reduced core: nothing is accepted
            ok = sx.dom_subset(acc, leg)
            wit = None
            an = sx.dom_norm(acc)
            if not ok and an[0] == 'set':
                wit = sorted(v for v in an[1] if not sx.dom_contains(leg, v))[:10]
            rep.ob("C04.domain-rc|%s|%s" % (tag, L), ok,
                   "%s: on a reduced core accepted %s ⊆ legal %s for operand %s" % (form, sx.dom_show(acc), sx.dom_show(leg), L) if ok else
                   "%s: on a reduced core (r16..r31 only) operand %s accepts what the core cannot address: accepted %s, legal %s, e.g. %s" % (
                       form, L, sx.dom_show(acc), sx.dom_show(leg), wit),
                   detail={"accepted": sx.dom_show(acc), "legal": sx.dom_show(leg), "illegal_accepted": wit})
        # operand count: an Ok path must know len(op_args) == arity of the row
        ar = len(r["operands"])
        ld = g["len_dom"]
        if ar == 0 and ld is None:
            okc = False       # the operand vector is never looked at
            shown = "not inspected"
        else:
            okc = ld is not None and sx.dom_min(ld) == ar and sx.dom_max(ld) == ar
            shown = sx.dom_show(ld) if ld is not None else "not inspected"
        if not okc:
            count_bad.setdefault(r["op"], []).append((form, shown))
        else:
            rep.ob("C04.count|%s" % tag, True, "%s: assembles only with exactly %d operand(s)" % (form, ar))
    for op, lst in sorted(count_bad.items()):
        form, shown = lst[0]
        rep.ob("C04.count|%s" % op, False,
               "%s: the number of operands is not checked (operand-vector length on success paths: %s; the form has %d) — surplus operands are "
               "silently ignored / missing ones are indexed" % (form, shown, len([g for g in A["groups"].values() if g["row"]["op"] == op][0]["row"]["operands"])),
               detail={"forms": lst})
    # operand kinds no ISA form has
    seen = set()
    for nr in A["norow"]:
        if nr["op"] == "Custom":
            continue     # macro call placeholder: resolved (or rejected) in pass 0, never a machine instruction
        k = (nr["op"], nr["sub"], tuple(nr["shape"]))
        if k in seen:
            continue
        seen.add(k)
        rep.ob("C04.kind|%s|%s|%s" % (nr["op"], nr["sub"], "+".join(nr["shape"]) or "-"), False,
               "%s%s assembles with operand kinds (%s) for which the ISA defines no form" % (
                   nr["op"], ("(%s)" % nr["sub"]) if nr["sub"] else "", ", ".join(nr["shape"]) or "none"), detail=nr)
    rep.ob("C04.kind|all", not seen, "every successful path of the encoder corresponds to an ISA form (operand kinds)" if not seen else
           "%d operand-kind combinations without an ISA form" % len(seen), nontrivial=False)
    rep.floor("row x operand-kind groups compared", len(A["groups"]), 250)
    rep.floor("reduced-core domain obligations", sum(1 for o in rep.obligations if o[0].startswith("C04.domain-rc|")), 330)
    spellings(P, rep)
    return rep


def spellings(P, rep):
    """What may be written for a register is exactly r0..r31 (X, Y, Z for a pointer), in either letter case: the finite language of the
    grammar's register rules, filtered by their `{? }` conditions, must be that set — a spelling beyond it (a pair notation, a suffix)
    would be turned into *some* register and assembled, although the ISA has no encoding for what was written."""
    import grammar
    import peg
    import rules_C01_extra as X
    g, problems = grammar.load_checked(P)
    for pr in problems:
        rep.unprovable("C04.spelling|grammar-cross-check", pr)
    pairs = {"Reg8": X.from_str_pairs(P, "instruction::register::Reg8"), "Reg16": X.from_str_pairs(P, "instruction::register::Reg16")}

    def cond(rule, action, caps):
        import re
        m = re.search(r"(\w+)::from_str\(\s*(\w+)", action["text"])
        if m and m.group(1) in pairs and pairs[m.group(1)] and m.group(2) in caps:
            txt = caps[m.group(2)]
            if "to_lowercase" in action["text"]:
                txt = txt.lower()
            return txt in pairs[m.group(1)]
        return None

    want = {"reg8": {"%s%d" % (c, i) for c in "rR" for i in range(32)}, "reg16": set("xyzXYZ")}
    for rule, canon in want.items():
        r = g.rules.get(rule)
        if r is None:
            rep.unprovable("C04.spelling|%s" % rule, "grammar rule %s not found" % rule)
            continue
        lang = g.lang(r["expr"], limit=200000)
        if lang is None:
            rep.ob("C04.spelling|%s" % rule, False, "the spellings %s() accepts are not a finite set that can be listed: more than a register name can be written in a register position" % rule)
            continue
        acc = set()
        unknown = False
        for s_ in lang:
            tr = peg.full_match(g, rule, s_, cond)
            if tr is not None:
                if tr.unknown_conditions:
                    unknown = True
                acc.add(s_)
        extra = sorted(acc - canon)
        missing = sorted(canon - acc)
        ok = not extra and not missing and not unknown
        rep.ob("C04.spelling|%s" % rule, ok,
               "%s() accepts exactly %d spellings (%s)" % (rule, len(canon), "r0..r31 in both cases" if rule == "reg8" else "x, y, z in both cases") if ok else
               ("%s() also accepts %s … (%d spellings beyond the register names): they are assembled as some register although nothing in the ISA encodes what was written" % (rule, extra[:4], len(extra)) if extra else
                "%s() does not accept %s" % (rule, missing[:4]) if missing else "a condition in %s() could not be evaluated" % rule),
               detail={"extra": extra[:20], "missing": missing[:20]})
