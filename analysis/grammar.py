"""Loads the PEG grammar of src/document.rs (E2) and cross-checks the reader against the compiled program:
rule names must equal the generated __parse_<rule> functions and, per rule, the multiset of string literals must equal the
multiset of &str constants passed to ParseLiteral::parse_string_literal in that function's MIR."""
import os
from collections import Counter

import mirutil as MU
import peg

PREFIX = "document::document::__parse_"


def mir_literals(P):
    per_rule = {}
    for k, b in P.lib.bodies.items():
        if not k.startswith(PREFIX) or "#promoted" in k:
            continue
        rule = k[len(PREFIX):].split("::")[0]
        c = per_rule.setdefault(rule, Counter())
        for bl in b["blocks"]:
            t = bl["term"]
            if t["k"] == "call" and "parse_string_literal" in (t["callee"].get("path") or ""):
                locs, consts, calls, places = MU.backward_slice(b, t["args"][2:3])
                lits = [x["str"] for x in consts if "str" in x]
                if len(lits) == 1:
                    c[lits[0]] += 1
                else:
                    c["<unreadable literal in %s>" % k] += 1
    return per_rule


def load_checked(P):
    path = os.path.join(P.facts.repo, "src", "document.rs")
    g = peg.load(path)
    problems = []
    mir = mir_literals(P)
    if set(g.rules) != set(mir):
        problems.append("rule names differ: reader-only %s, compiled-only %s" % (sorted(set(g.rules) - set(mir)), sorted(set(mir) - set(g.rules))))
    for r in g.rules:
        mine = Counter(g.literals(g.rules[r]["expr"]))
        theirs = mir.get(r, Counter())
        if mine != theirs:
            problems.append("rule %s: literals read %s, compiled %s" % (r, sorted((mine - theirs).elements()), sorted((theirs - mine).elements())))
    return g, problems
