"""E3 — whole-program graphs over the resolved MIR: call graph, CFG, dominators, reachability."""
import sys
from collections import defaultdict

sys.setrecursionlimit(100000)

LIB_PREFIX = "avra_lib::"


class Program:
    def __init__(self, facts):
        self.facts = facts
        self.lib = facts.lib
        self.bin = facts.bin
        self.body = {}        # key -> body json
        self.crate_of = {}    # key -> Crate
        for k, b in self.lib.bodies.items():
            self.body[k] = b
            self.crate_of[k] = self.lib
        for k, b in self.bin.bodies.items():
            kk = "bin::" + k
            self.body[kk] = b
            self.crate_of[kk] = self.bin
        # trait method -> impl method bodies (for virtual calls)
        self.trait_impls = defaultdict(list)   # "context::Context::get_def" -> ["<context::CommonContext as context::Context>::get_def"]
        for cr, pre in ((self.lib, ""), (self.bin, "bin::")):
            for imp in cr.impls:
                for name, path in imp["methods"]:
                    self.trait_impls["%s::%s" % (imp["trait"], name)].append(pre + path)
        self._cg = None

    # ---- naming ------------------------------------------------------------------------------
    def norm_path(self, owner_key, path):
        """Map a callee def-path as printed inside crate `owner` to a body key, or None if foreign."""
        if path is None:
            return None
        if owner_key.startswith("bin::"):
            if path.startswith(LIB_PREFIX):
                p = path[len(LIB_PREFIX):]
                return p if p in self.body else None
            if path.startswith("<") and LIB_PREFIX in path:
                p = path.replace(LIB_PREFIX, "")
                if p in self.body:
                    return p
            p = "bin::" + path
            return p if p in self.body else None
        return path if path in self.body else None

    def ty(self, key, ix):
        return self.crate_of[key].types[ix]

    def tys(self, key, ix):
        return self.crate_of[key].types[ix]["s"]

    # ---- call sites --------------------------------------------------------------------------
    def call_sites(self, key):
        """Yield (bb, term, callee-name, [target body keys])  for every Call terminator of a body."""
        b = self.body[key]
        for i, bl in enumerate(b["blocks"]):
            t = bl["term"]
            if t["k"] != "call":
                continue
            c = t["callee"]
            targets = []
            name = c.get("rfull") or c.get("full") or "<indirect>"
            rk = c.get("rkind")
            if rk == "virtual":
                # expand to every impl of the trait method
                tm = c.get("rpath") or c.get("path")
                for cand in self.trait_impls.get(tm, []):
                    if cand in self.body:
                        targets.append(cand)
                # provided (default) method of the trait, used by impls that do not override it
                k2 = self.norm_path(key, tm)
                if k2 and k2 not in targets:
                    targets.append(k2)
            elif rk in ("item", "closure_once_shim", "fnptr_shim", "reify_shim", "clone_shim", "vtable_shim", "other"):
                k2 = self.norm_path(key, c.get("rpath"))
                if k2:
                    targets.append(k2)
            elif rk == "unresolved":
                k2 = self.norm_path(key, c.get("path"))
                if k2:
                    targets.append(k2)
                else:
                    # trait method not resolved: all local impls
                    for cand in self.trait_impls.get(c.get("path"), []):
                        if cand in self.body:
                            targets.append(cand)
            targets.extend(self._fmt_targets(key, c))
            yield i, t, name, targets

    FMT_TRAITS = {"new_display": "std::fmt::Display", "new_debug": "std::fmt::Debug",
                  "new_lower_hex": "std::fmt::LowerHex", "new_upper_hex": "std::fmt::UpperHex"}

    def impl_method(self, key, trait, ty_ix, method):
        """Body key of <T as trait>::method for the (ref-stripped) type ty_ix as seen from body `key`, if local."""
        cr = self.crate_of[key]
        t = cr.types[ty_ix]
        while t["k"] == "ref" or (t["k"] == "adt" and t["path"] in ("std::boxed::Box", "std::rc::Rc") and t["args"]):
            t = cr.types[t["to"]] if t["k"] == "ref" else cr.types[t["args"][0]]
        want = t["s"].replace(LIB_PREFIX, "")
        for c2, pre in ((self.lib, ""), (self.bin, "bin::")):
            for imp in c2.impls:
                if imp["trait"] != trait:
                    continue
                if c2.types[imp["self"]]["s"].replace(LIB_PREFIX, "") != want:
                    continue
                for name, path in imp["methods"]:
                    if name == method and (pre + path) in self.body:
                        return pre + path
        return None

    def _fmt_targets(self, key, c):
        """Edges the compiler hides behind fn pointers: fmt::Argument::new_display::<T> -> <T as Display>::fmt, to_string."""
        out = []
        path = c.get("path") or ""
        gens = c.get("generics") or []
        last = path.rsplit("::", 1)[-1]
        if "fmt::rt::Argument" in path and last in self.FMT_TRAITS and gens:
            m = self.impl_method(key, self.FMT_TRAITS[last], gens[0], "fmt")
            if m:
                out.append(m)
        elif path == "std::string::ToString::to_string" and gens:
            m = self.impl_method(key, "std::fmt::Display", gens[0], "fmt")
            if m:
                out.append(m)
        elif last in ("from_residual", "from", "into") and gens:
            # a local error type boxed into failure::Error: its Display/Debug are reachable through the vtable
            cr = self.crate_of[key]
            seen = set()
            stack = list(gens)
            while stack:
                ix = stack.pop()
                if ix in seen:
                    continue
                seen.add(ix)
                t = cr.types[ix]
                if t["k"] == "adt":
                    stack.extend(t["args"])
                    if self.impl_method(key, "failure::Fail", ix, "cause") or self._has_impl("failure::Fail", t["s"]):
                        for tr in ("std::fmt::Display", "std::fmt::Debug"):
                            m = self.impl_method(key, tr, ix, "fmt")
                            if m:
                                out.append(m)
                elif t["k"] == "ref":
                    stack.append(t["to"])
        return out

    def _has_impl(self, trait, self_s):
        want = self_s.replace(LIB_PREFIX, "")
        for c2 in (self.lib, self.bin):
            for imp in c2.impls:
                if imp["trait"] == trait and c2.types[imp["self"]]["s"].replace(LIB_PREFIX, "") == want:
                    return True
        return False

    def fn_refs(self, key):
        """Function items / closures referenced as values (passed as arguments, stored)."""
        b = self.body[key]
        out = set()

        def op(o):
            c = o.get("const") if isinstance(o, dict) else None
            if c and "fn" in c:
                k2 = self.norm_path(key, c["fn"])
                if k2:
                    out.add(k2)
            if c and "promoted" in c:
                pk = c["promoted"]
                pk = ("bin::" + pk) if key.startswith("bin::") else pk
                if pk in self.body:
                    out.add(pk)

        for bl in b["blocks"]:
            for st in bl["stmts"]:
                if st["k"] != "assign":
                    continue
                rv = st["rv"]
                for f in ("op", "l", "r", "o"):
                    if f in rv and isinstance(rv[f], dict):
                        op(rv[f])
                if rv["k"] == "agg":
                    for o in rv["ops"]:
                        op(o)
                    if rv["kind"]["k"] == "closure":
                        k2 = self.norm_path(key, rv["kind"]["path"])
                        if k2:
                            out.add(k2)
            t = bl["term"]
            if t["k"] == "call":
                for a in t["args"]:
                    op(a)
            elif t["k"] == "switch":
                op(t["discr"])
        return out

    def callgraph(self):
        if self._cg is None:
            cg = {}
            for k in self.body:
                s = set()
                for _, _, _, targets in self.call_sites(k):
                    s.update(targets)
                s.update(self.fn_refs(k))
                cg[k] = s
            self._cg = cg
        return self._cg

    def reachable(self, roots):
        cg = self.callgraph()
        seen = set()
        stack = [r for r in roots if r in cg]
        while stack:
            k = stack.pop()
            if k in seen:
                continue
            seen.add(k)
            stack.extend(cg[k] - seen)
        return seen

    def sccs(self, nodes=None):
        cg = self.callgraph()
        nodes = set(nodes) if nodes is not None else set(cg)
        index = {}
        low = {}
        on = set()
        st = []
        out = []
        counter = [0]

        def strong(v):
            index[v] = low[v] = counter[0]
            counter[0] += 1
            st.append(v)
            on.add(v)
            for w in cg[v]:
                if w not in nodes:
                    continue
                if w not in index:
                    strong(w)
                    low[v] = min(low[v], low[w])
                elif w in on:
                    low[v] = min(low[v], index[w])
            if low[v] == index[v]:
                comp = []
                while True:
                    w = st.pop()
                    on.discard(w)
                    comp.append(w)
                    if w == v:
                        break
                out.append(comp)

        for v in sorted(nodes):
            if v not in index:
                strong(v)
        return out


# ---- CFG helpers -----------------------------------------------------------------------------
def succs(body, bb, unwind=False):
    t = body["blocks"][bb]["term"]
    k = t["k"]
    out = []
    if k == "goto":
        out = [t["target"]]
    elif k == "switch":
        out = [tb for _, tb in t["targets"]] + [t["otherwise"]]
    elif k in ("call", "drop", "assert"):
        if t.get("target") is not None:
            out = [t["target"]]
        if unwind and isinstance(t.get("unwind"), int):
            out.append(t["unwind"])
    seen = []
    for o in out:
        if o not in seen:
            seen.append(o)
    return seen


def preds(body, unwind=False):
    p = defaultdict(list)
    for i in range(len(body["blocks"])):
        for s in succs(body, i, unwind):
            p[s].append(i)
    return p


def reach_blocks(body, start, stop=lambda bb: False, unwind=False):
    """Blocks reachable from `start` without passing *through* a block for which stop(bb) holds
    (stop blocks themselves are included in the result, their successors are not followed)."""
    seen = set()
    stack = [start]
    while stack:
        b = stack.pop()
        if b in seen:
            continue
        seen.add(b)
        if stop(b):
            continue
        stack.extend(succs(body, b, unwind))
    return seen


def dominators(body, entry=0):
    n = len(body["blocks"])
    order = []
    seen = set()

    def dfs(b):
        stack = [(b, iter(succs(body, b)))]
        seen.add(b)
        while stack:
            node, it = stack[-1]
            adv = False
            for s in it:
                if s not in seen:
                    seen.add(s)
                    stack.append((s, iter(succs(body, s))))
                    adv = True
                    break
            if not adv:
                order.append(node)
                stack.pop()

    dfs(entry)
    rpo = list(reversed(order))
    idx = {b: i for i, b in enumerate(rpo)}
    pr = preds(body)
    idom = {entry: entry}
    changed = True

    def inter(a, b):
        while a != b:
            while idx[a] > idx[b]:
                a = idom[a]
            while idx[b] > idx[a]:
                b = idom[b]
        return a

    while changed:
        changed = False
        for b in rpo[1:]:
            ps = [p for p in pr[b] if p in idom]
            if not ps:
                continue
            new = ps[0]
            for p in ps[1:]:
                new = inter(p, new)
            if idom.get(b) != new:
                idom[b] = new
                changed = True
    return idom


def dominates(idom, a, b):
    """a dominates b ?"""
    if b not in idom:
        return False
    while True:
        if a == b:
            return True
        nb = idom[b]
        if nb == b:
            return False
        b = nb


def back_edges(body):
    idom = dominators(body)
    out = []
    for b in idom:
        for s in succs(body, b):
            if dominates(idom, s, b):
                out.append((b, s))
    return out
