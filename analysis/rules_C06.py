"""C06 — data directives emit exactly the bytes written, little-endian, exact width.

(P) Expr::get_byte/get_words/get_double_words/get_quad_words: accepted value set = the width's signed-or-unsigned range, emitted
    bytes = little-endian bytes of the value's low n bits (bit provenance through the resolved byteorder callee);
(P) Operand::get_* : an expression contributes exactly `width` bytes, a string contributes its bytes to .db and is an error in the
    word directives; GetData for Vec<Operand>: forward iteration, append in order, first error aborts, empty list -> empty;
(P) pass 1: .db/.dw/.dd/.dq in the data segment and .byte in the code segment are errors; an odd .db line in flash gets exactly
    one zero operand appended, in EEPROM nothing is padded; (P) pass 2: .byte n in EEPROM emits n zero bytes."""
import json
import os

import facts as F
import graph as G
import layout as L
import mirutil as MU
import re

import absint
import sx
from common import Reporter

RANGES = {"Db": (-128, 255), "Dw": (-32768, 65535), "Dd": (-(1 << 31), (1 << 32) - 1), "Dq": (-(1 << 63), (1 << 63) - 1)}
DIRECTIVE = {"Db": ".db", "Dw": ".dw", "Dd": ".dd", "Dq": ".dq"}


def run(tier):
    rep = Reporter("C06", tier, "proof", "value-set and bit-provenance dataflow on the data conversions; one-iteration loop summaries of the operand loops and of pass 1/2 item handling")
    rep.explanation = ("Each data conversion is explored with a symbolic value: the accepted set must be exactly the element width's range and "
                       "every emitted bit must be the right bit of the value in little-endian order; the operand loops are summarised over one "
                       "symbolic iteration (forward slice iterator, append, abort on first error), which with the loop shape gives 'operands in "
                       "source order'; segment rules and padding are per-item path facts of pass 1 / pass 2.")
    rep.trusted = ["rustc nightly MIR", "E1 and its summaries (byteorder write_uN, Vec extend/push/to_vec, slice iterators)"]
    rep.assumptions = ["a `for` loop over a slice iterator visits every element once, in order (loop shape checked: no adapter between iter() and next())",
                       "strings are emitted as the bytes of the Rust String (UTF-8); no other encoding step exists in the code"]
    P = G.Program(F.load("dev"))
    lib = P.lib
    # ---- 1. Expr::get_*
    for dd, (lo, hi) in RANGES.items():
        w = L.WIDTH[dd]
        fn = L.EXPR_GET[dd]
        if fn not in P.body:
            rep.unprovable("C06.conv|%s|anchor" % dd, "%s not found" % fn)
            continue
        m = L.expr_get_model(P, dd)
        acc = m["accepted"]
        if dd == "Dq" and acc is None and m["vsym"] is None:
            # no guard at all: the symbol never got a domain entry; full range
            acc = sx.dom_full(64, True)
        want = sx.dom_range(lo, hi)
        ok = acc is not None and sx.dom_eq(acc, want)
        rep.ob("C06.range|%s" % dd, ok,
               "%s accepts exactly %d..%d" % (DIRECTIVE[dd], lo, hi) if ok else
               "%s accepts %s, the element width allows %d..%d" % (DIRECTIVE[dd], sx.dom_show(acc) if acc else "?", lo, hi),
               detail={"accepted": sx.dom_show(acc) if acc else None},
               sample={"directive": DIRECTIVE[dd], "accepted": sx.dom_show(acc) if acc else None, "paths": m["paths"]})
        if len(m["oks"]) != 1:
            rep.unprovable("C06.bytes|%s" % dd, "%s has %d success paths" % (fn, len(m["oks"])))
            continue
        v, p = m["outs"][0]
        vs = m["vsym"]
        if vs is None:
            for s in p.state.doms:
                if isinstance(s, tuple) and s[0] == 's' and s[1].startswith("run(") and s[1].endswith(":Ok.0"):
                    vs = s
        items = None
        if v is not None and v[0] == 'int':
            items = [v[1]]
        elif v is not None and v[0] == 'arr':
            items = [it[1] if it[0] == 'int' else None for it in v[1]]
        if items is None or any(i is None for i in items) or vs is None:
            rep.unprovable("C06.bytes|%s" % dd, "bytes returned by %s could not be read off the path" % fn)
            continue
        okn = len(items) == w
        rep.ob("C06.width|%s" % dd, okn, "%s elements are %d byte(s)" % (DIRECTIVE[dd], w) if okn else "%s elements are emitted as %d byte(s), expected %d" % (DIRECTIVE[dd], len(items), w))
        bad = None
        for k, e in enumerate(items[:w]):
            bits = sx.bits_of(e)
            for j in range(8):
                want_b = ('b', vs, 8 * k + j)
                if bits[j] != want_b:
                    bad = (k, j, bits[j])
                    break
            if bad:
                break
        rep.ob("C06.bytes|%s" % dd, bad is None and okn,
               "%s emits the value's low %d bits little-endian (bit provenance, exact)" % (DIRECTIVE[dd], 8 * w) if bad is None and okn else
               "%s: byte %d bit %d of the output is %s, expected bit %d of the value (little-endian)" % (
                   DIRECTIVE[dd], bad[0], bad[1], _show_bit(bad[2]), 8 * bad[0] + bad[1]) if bad else "wrong width",
               detail={"byteorder events": [e for e in p.events if e[0] == 'byteorder']})
        rep.ob("C06.nopanic|%s" % dd, not m["may_panic"], "%s conversion has no unguarded arithmetic" % DIRECTIVE[dd] if not m["may_panic"] else
               "%s conversion can overflow: %s" % (DIRECTIVE[dd], m["may_panic"]), nontrivial=False)
    # ---- 2. operand loops
    for dd in RANGES:
        w = L.WIDTH[dd]
        fn = L.GETDATA[dd]
        if fn not in P.body:
            rep.unprovable("C06.loop|%s|anchor" % dd, "%s not found" % fn)
            continue
        m = L.getdata_model(P, dd)
        for pr in m["problems"]:
            rep.unprovable("C06.loop|%s|shape" % dd, pr)
        rep.ob("C06.order|%s" % dd, not m["adapters"], "%s operands are visited by a plain forward iterator and appended" % DIRECTIVE[dd] if not m["adapters"] else
               "%s operands are visited through %s: source order is not preserved" % (DIRECTIVE[dd], sorted(m["adapters"])))
        rep.ob("C06.empty|%s" % dd, m["empty_ok"], "an empty %s list emits nothing" % DIRECTIVE[dd] if m["empty_ok"] else "empty operand list does not yield an empty result")
        # expression operand
        ents = m["variants"].get("E", [])
        app = [e for e in ents if e[0] == "append"]
        errs = [e for e in ents if e[0] == "Err"]
        ok = len(app) == 1 and app[0][1] is not None and app[0][1][0] == 'vec'
        n = None
        src_ok = False
        if ok:
            le = L.vec_len_expr(app[0][1])
            n = sx.cval(le) if le is not None and sx.is_const(le) else None
            # the appended bytes come from the conversion of *this* element with the right width
            segs = app[0][1][2]
            desc = " ".join(str(s[1]) if s[0] == 'blob' else " ".join(app[0][2].state and _d(app[0][2], it) for it in s[1]) for s in segs)
            want_fn = L.EXPR_GET[dd].rsplit("::", 1)[-1]
            src_ok = ("%s(self*[i]:E.0" % want_fn) in desc
        rep.ob("C06.elem|%s|expr" % dd, ok and n == w and src_ok and len(errs) >= 1,
               "each expression operand of %s appends the %d byte(s) of its own %s conversion; a conversion error aborts" % (DIRECTIVE[dd], w, L.EXPR_GET[dd].rsplit("::", 1)[-1]) if ok and n == w and src_ok and errs else
               "expression operand of %s: appended %s byte(s) from %s, error paths %d" % (DIRECTIVE[dd], n, "own conversion" if src_ok else "another source", len(errs)))
        ents = m["variants"].get("S", [])
        app = [e for e in ents if e[0] == "append"]
        errs = [e for e in ents if e[0] == "Err"]
        if dd == "Db":
            ok = len(app) == 1 and not errs and app[0][1][0] == 'vec' and len(app[0][1][2]) == 1 and app[0][1][2][0][0] == 'blob' \
                and app[0][1][2][0][1] == "self*[i]:S.0"
            rep.ob("C06.elem|Db|string", ok, "a string operand of .db appends exactly the string's bytes" if ok else
                   "string operand of .db is not appended as its own bytes")
        else:
            ok = not app and len(errs) >= 1
            rep.ob("C06.elem|%s|string" % dd, ok, "a string in %s is an error" % DIRECTIVE[dd] if ok else "a string operand is accepted by %s" % DIRECTIVE[dd])
    # ---- 2a. a character constant written as an operand has its full code point as value (so that one beyond the element width fails)
    import grammar as _grammar
    import rules_C05
    g_, gp_ = _grammar.load_checked(P)
    for pr_ in gp_:
        rep.unprovable("C06.operand|grammar-cross-check", pr_)
    rules_C05.char_literal(P, g_, rep, "C06.operand|char-constant")
    # ... and a number written in the source is its exact value or a syntax error (never wrapped into the element's range)
    rules_C05.number_literal_types(P, 5, rep, "C06.operand|number-literal")
    # ---- 2b. the length the padding and the addresses are computed from is the number of bytes emitted
    fn = "directive::Operand::len"
    if fn in P.body:
        Ml = absint.Machine(P, max_depth=3)
        got = {}
        opv = L.variant_names(P, "directive::Operand")
        for p in Ml.explore(fn, Ml.arg_unknowns(fn)):
            v = L.dom1(p.state, "self*#d")
            if v is not None and p.ret[0] == 'int':
                got[opv[v]] = sx.show(p.ret[1])
        rep.ob("C06.len|expr", got.get("E") == "1", "an expression operand counts as one element" if got.get("E") == "1" else "Operand::len of an expression is %s" % got.get("E"))
        oks_ = got.get("S") == "self*:S.0#len"
        rep.ob("C06.len|string", oks_, "a string operand counts as its number of bytes, which is what .db emits for it (odd/even padding and the next address follow the bytes)" if oks_ else
               "Operand::len of a string is %s, not the number of bytes .db emits for it: padding and the following addresses disagree with the emitted bytes for strings where the two differ (non-ASCII text)" % got.get("S"))
    else:
        rep.unprovable("C06.len|anchor", "Operand::len not found")
    # ---- 3. pass 1 segment rules and padding
    rows1, paths1, M1 = L.pass1_rows(P)
    rep.count("pass-1 item paths", len(rows1))
    for dd in RANGES:
        rs = [r for r in rows1 if r.item == "Data" and r.dd == dd and r.seg == "Data"]
        ok = bool(rs) and all(r.exit == "Err" for r in rs)
        rep.ob("C06.segment|%s|dseg" % dd, ok, "%s in the data segment fails the build" % DIRECTIVE[dd] if ok else "%s in the data segment does not always fail (%s)" % (DIRECTIVE[dd], [r.exit for r in rs]))
    rs = [r for r in rows1 if r.item == "ReserveData" and r.seg == "Code"]
    ok = bool(rs) and all(r.exit == "Err" for r in rs)
    rep.ob("C06.segment|byte|cseg", ok, ".byte in the code segment fails the build" if ok else ".byte in the code segment does not always fail")
    # padding of .db
    for seg in ("Code", "Eeprom"):
        rs = [r for r in rows1 if r.item == "Data" and r.dd == "Db" and r.seg == seg and r.exit == "loop"]
        verdicts = []
        for r in rs:
            pad = _pad_items(r)
            parity = None
            for e, t in r.conds:
                if "sumlen(" in sx.show(e) and "% 2" in sx.show(e):
                    # ((L % 2) == 1) == t
                    parity = "odd" if t else "even"
            verdicts.append((parity, pad))
        if seg == "Code":
            ok = set(verdicts) == {("odd", 1), ("even", 0)}
            rep.ob("C06.pad|flash", ok, "a .db line in flash gets exactly one zero byte appended iff its length is odd" if ok else
                   "flash .db padding is not 'one zero iff odd': %s" % verdicts, detail={"paths": verdicts})
        else:
            ok = bool(verdicts) and all(pad == 0 for _, pad in verdicts)
            rep.ob("C06.pad|eeprom", ok, "a .db line in EEPROM is never padded" if ok else "EEPROM .db is padded: %s" % verdicts)
    # pushed item keeps the operand list (clone) and the directive kind
    for dd in ("Dw", "Dd", "Dq"):
        rs = [r for r in rows1 if r.item == "Data" and r.dd == dd and r.exit == "loop"]
        ok = bool(rs) and all(_pushed_is_same_item(r) for r in rs)
        rep.ob("C06.keep|%s" % dd, ok, "pass 1 hands the %s item to pass 2 unchanged" % DIRECTIVE[dd] if ok else "pass 1 alters or drops the %s item" % DIRECTIVE[dd])
    # ---- 4. pass 2: .byte n in EEPROM = n zero bytes ; data items append exactly the converted bytes with the matching conversion
    rows2, paths2, M2 = L.pass2_rows(P)
    rep.count("pass-2 item paths", len(rows2))
    rs = [r for r in rows2 if r.item == "ReserveData" and r.exit == "loop"]
    okz = bool(rs)
    for r in rs:
        if r.pushed is None or r.pushed[0] != 'vec':
            okz = False
            continue
        rng = [e for e in r.events if e[0] == 'range-next']
        loop_form = bool(rng) and rng[0][1] == '0' and "ReserveData.0" in rng[0][2]
        for s in r.pushed[2]:
            if s[0] == 'items':
                # one constant zero per step of the loop 0..n
                if any(not (it[0] == 'int' and sx.is_const(it[1]) and sx.cval(it[1]) == 0) for it in s[1]) or not loop_form:
                    okz = False
            elif s[0] == 'blob' and s[1] == 'fill(0)':
                # a zero fill whose length is the directive's operand (the fragment is only ever appended to: C06.fragment|append-only)
                if "ReserveData.0" not in sx.show(s[2]) or len(sx.syms(s[2])) != 1 or sx.show(s[2]).count("ReserveData.0") != 1 or any(op_ in sx.show(s[2]) for op_ in (" + ", " - ", " * ", " / ")):
                    okz = False
            else:
                okz = False
        if not r.pushed[2] and not loop_form and not any(e[0] == 'resize-no-grow' for e in r.events):
            okz = False
    rep.ob("C06.byte|zeros", okz, ".byte n emits n zero bytes" if okz else ".byte n does not emit exactly n zero bytes (neither a loop 0..n pushing 0 nor a zero fill of length n)")
    # what pass 2 has emitted into the fragment is never altered again: the fragment is only appended to
    k2 = "builder::pass2::pass_2_internal"
    b2 = P.body.get(k2)
    if b2 is not None:
        ch2 = MU.Chaser(b2)
        frag = [i for i, l in enumerate(b2["locals"]) if l["name"] == "code_fragment"]
        # the vector that is returned on success
        retv = set()
        for bl in b2["blocks"]:
            for st in bl["stmts"]:
                if st["k"] == "assign" and st["place"]["local"] == 0 and st["rv"]["k"] == "agg" and st["rv"]["kind"].get("vname") == "Ok" and st["rv"]["ops"]:
                    retv.add(ch2.root(st["rv"]["ops"][0], through_calls=False)[0])
        bad = []
        nmut = 0
        for bb, t, name, tg in P.call_sites(k2):
            full, rp = MU.callee_names(t)
            m = re.match(r"^std::vec::Vec::<T, A>::(\w+)$|^<std::vec::Vec<T, A> as std::iter::Extend<.*>>::(extend)$", rp)
            if not m or not t["args"]:
                continue
            if ch2.root(t["args"][0], through_calls=False)[0] not in retv:
                continue
            meth = m.group(1) or m.group(2)
            if meth in ("len", "is_empty", "capacity", "as_slice", "iter", "reserve", "first", "last"):
                continue
            nmut += 1
            if meth in ("push", "extend", "extend_from_slice", "append"):
                continue
            if meth == "resize" and len(t["args"]) > 1:
                locs, consts, calls, places = MU.backward_slice(b2, t["args"][1:2])
                if any(MU.callee_names(c)[1] == "std::vec::Vec::<T, A>::len" and ch2.root(c["args"][0], through_calls=False)[0] in retv for c in calls):
                    continue           # grows relative to the present length
            bad.append(meth)
        rep.ob("C06.fragment|append-only", not bad and nmut >= 3,
               "pass 2 only ever appends to the fragment it returns (%d appending calls): bytes emitted for earlier items are never altered" % nmut if not bad and nmut >= 3 else
               "pass 2 applies %s to the fragment it returns: bytes already emitted for earlier items of the segment can be cut off or overwritten" % sorted(set(bad)) if bad else
               "only %d appending calls on the fragment found" % nmut)
    else:
        rep.unprovable("C06.fragment|append-only", "pass_2_internal not found")
    for dd in RANGES:
        rs = [r for r in rows2 if r.item == "Data" and r.dd == dd and r.exit == "loop"]
        want = L.GETDATA[dd].rsplit("::", 1)[-1]
        ok = bool(rs)
        for r in rs:
            segs = r.pushed[2] if r.pushed is not None and r.pushed[0] == 'vec' else None
            if not segs or len(segs) != 1 or segs[0][0] != 'blob' or ("::%s(segment*.items[i].1:Data.1," % want) not in str(segs[0][1]):
                ok = False
        rep.ob("C06.emit|%s" % dd, ok, "pass 2 appends exactly the result of %s for a %s item" % (want, DIRECTIVE[dd]) if ok else
               "pass 2 does not append the plain result of %s for %s items" % (want, DIRECTIVE[dd]))
    rep.floor("pass-1 item paths", len(rows1), 40)
    import rules_C02
    rules_C02.byte_operand_dropped(P, rep, "C06.byte|operand", "`.eseg / .byte COUNT` with a constant contributes no bytes at all to the EEPROM image and does not move what follows")
    # ---- quoted texts reach the operand as written also through a macro body (rule shared with C09: the macro pipeline copies body lines whole)
    if "builder::pass0::macro_expand" in P.body:
        import rules_C09
        rules_C09.body_text_verbatim(P, rep, prefix="C06.string|macro-body-verbatim")
    return rep


def _d(p, it):
    return str(it[2]) if it[0] in ('unk', 'unkvar') else (sx.show(it[1]) if it[0] == 'int' else it[0])


def _show_bit(b):
    if isinstance(b, tuple):
        return "%s of %s bit %s" % (b[0], b[1][1] if isinstance(b[1], tuple) and b[1][0] == 's' else "expr", b[2])
    return str(b)


def _pad_items(r):
    """number of constant-zero operands pass 1 appended to the operand list it pushes (None if not readable)"""
    ov = r.pushed
    if ov is None or ov[0] != 'vec' or not ov[2]:
        return None
    last = None
    for s in ov[2]:
        if s[0] == 'items' and s[1]:
            last = s[1][-1]
    if last is None or last[0] != 'agg' or len(last[3]) < 2:
        return None
    item = last[3][1]
    if item[0] == 'agg' and len(item) > 6 and item[6] == "Data":
        vec = item[3][1]
        if vec[0] in ('unk', 'unkvar'):
            return 0
        if vec[0] == 'vec':
            n = 0
            for s in vec[2]:
                if s[0] == 'items':
                    for it in s[1]:
                        if it[0] == 'agg' and len(it) > 6 and it[6] == "E" and it[3] and it[3][0][0] == 'agg' and it[3][0][6] == "Const" \
                                and it[3][0][3][0][0] == 'int' and sx.is_const(it[3][0][3][0][1]) and sx.cval(it[3][0][3][0][1]) == 0:
                            n += 1
                        else:
                            return None
            return n
    if item[0] in ('unk', 'unkvar'):
        return 0
    return None


def _pushed_is_same_item(r):
    ov = r.pushed
    if ov is None or ov[0] != 'vec':
        return False
    for s in ov[2]:
        if s[0] == 'items' and s[1]:
            last = s[1][-1]
            if last[0] == 'agg' and len(last[3]) == 2:
                it = last[3][1]
                return it[0] in ('unk', 'unkvar') and it[2] == "segment*.items[i].1"
    return False
