"""C10 — symbols resolve by the documented binding rules or the build fails  (clauses).

(N) case-insensitive tables (E4 typestate): for each of the maps equs, labels, defs, sets, special every key reaching
    HashMap::{insert,get,remove,contains_key,..} is provably lower-cased;
(P) unbound name -> Err: in Expr::run the None result of the lookup returns Err; in get_r8 a missing .def returns Err;
(N) duplicate label is rejected: the Option returned by set_label is inspected and its Some path returns Err;
(P) alias == register: get_r8 returns the stored Reg8 unchanged; .undef removes the key;
(N) sequencing: .set/.def/.undef are applied inside pass 2's single forward item loop; labels are bound in pass 1, before pass 2; .equ at parse time."""
import json
import os
import re

import absint
import facts as F
import graph as G
import layout as L
import mirutil as MU
import norm
import sx
from common import Reporter, loc_of

MAPS = ("equs", "labels", "defs", "sets", "special")
MAP_METHODS = re.compile(r"^std::collections::HashMap::<K, V, S, A>::(get|get_mut|insert|remove|contains_key|entry|get_key_value|remove_entry)$")
ROOTS = ["builder::build_str", "builder::build_file", "parser::parse_str", "parser::parse_file", "instruction::process"]


def map_sites(P, adt_path, fields):
    """HashMap accesses whose receiver is field f of the given context struct: [(body key, bb, term, field name, method)].  A helper that is
    handed the map (`lookup(&self.equs, name)`) holds the access for every field its callers hand it."""
    out = []
    names = [f["name"] for f in P.lib.adts[adt_path]["variants"][0]["fields"]]
    WRAP = ("std::rc::Rc", "std::boxed::Box", "std::cell::RefCell", "std::cell::Ref", "std::cell::RefMut", "std::sync::Arc")
    chasers = {}

    def chaser(k):
        if k not in chasers:
            chasers[k] = MU.Chaser(P.body[k])
        return chasers[k]

    def fields_of(k, op, depth=0):
        """the context fields the operand can be (a view of)"""
        b = P.body[k]
        root, proj, trail = chaser(k).root(op)
        if root is None:
            return set()
        cr = P.crate_of[k]
        cur = cr.types[b["locals"][root]["ty"]]
        for e in proj:
            # references and smart-pointer wrappers are transparent for "which field of which struct"
            while cur["k"] in ("ref", "ptr") or (cur["k"] == "adt" and cur["path"] in WRAP and cur["args"]):
                cur = cr.types[cur["to"]] if cur["k"] in ("ref", "ptr") else cr.types[cur["args"][0]]
            if e["k"] == "field":
                if cur["k"] == "adt" and cur["path"].replace("avra_lib::", "") == adt_path and e["i"] < len(names):
                    return {names[e["i"]]}
                cur = cr.types[e["ty"]]
            elif e["k"] in ("via", "addrof", "deref", "downcast"):
                continue
            else:
                break
        got = set()
        if 1 <= root <= b["arg_count"] and depth < 2 and "{closure" not in k:
            for k2 in P.body:
                for _, t2, _, tg2 in P.call_sites(k2):
                    if k in tg2 and len(t2["args"]) >= root:
                        got |= fields_of(k2, t2["args"][root - 1], depth + 1)
        return got

    for k in sorted(P.reachable(ROOTS)):
        for bb, t, name, targets in P.call_sites(k):
            full, rp = MU.callee_names(t)
            if not MAP_METHODS.match(rp):
                continue
            for fname in sorted(fields_of(k, t["args"][0]) & set(fields)):
                out.append((k, bb, t, fname, rp.rsplit("::", 1)[-1]))
    return out


def every_segment(P, rep, key):
    # the item loop of pass 2 runs for every segment, whatever its type (.set/.def/.undef written in a data segment count too)
    kb = "builder::pass2::build_pass_2"
    if kb in P.body:
        import rules_C16
        bb_ = P.body[kb]
        idom = G.dominators(bb_)
        calls2 = [x for x, t, n, tg in P.call_sites(kb) if "builder::pass2::pass_2_internal" in tg]
        okseg = False
        for head, nodes in rules_C16.natural_loops(bb_).items():
            inl = [x for x in calls2 if x in nodes]
            if not inl:
                continue
            srcs = [s_ for s_, h_ in G.back_edges(bb_) if h_ == head]
            okseg = len(calls2) == 1 and all(G.dominates(idom, inl[0], s_) or _round_of_empty_segment(P, kb, bb_, idom, s_) for s_ in srcs)
        rep.ob(key, okseg, "pass 2 walks the items of every segment, of whatever type, in order (one call per round of the segment loop)" if okseg else
               "pass 2's item loop is not run for every segment (the call of pass_2_internal does not lie on every round of the segment loop): .set/.def/.undef written in a skipped segment type are never applied")
    else:
        rep.unprovable(key, "build_pass_2 not found")


def _round_of_empty_segment(P, key, b, idom, src):
    """a round of the segment loop that ends early is fine when it is the round of a segment without items: there is nothing to walk.
    True iff `src` lies behind the taken side of a branch on Vec::is_empty(<segment>.items)."""
    fields = [f["name"] for f in P.lib.adts["parser::Segment"]["variants"][0]["fields"]]
    fi = fields.index("items")
    ch = MU.Chaser(b)
    for bi, bl in enumerate(b["blocks"]):
        t = bl["term"]
        if t["k"] != "switch" and t["k"] != "switchInt":
            continue
        disc = t.get("discr") or t.get("op")
        r = ch.root(disc, through_calls=False) if disc else (None, [], [])
        d = ch.single_def(r[0]) if r[0] is not None else None
        if not (d and d[0] == "call" and MU.callee_names(d[2])[1].endswith("Vec::<T, A>::is_empty")):
            continue
        recv = ch.root(d[2]["args"][0], through_calls=False)
        if MU.proj_fields(recv[1])[-1:] != [fi]:
            continue
        # the side taken when is_empty is true: every target but the one for value 0
        targets = t.get("targets") or []
        zero = [tg for v, tg in targets if str(v) == "0"]
        taken = [tg for v, tg in targets if str(v) != "0"] + ([t["otherwise"]] if t.get("otherwise") is not None else [])
        taken = [x for x in taken if x not in zero]
        if any(G.dominates(idom, x, src) for x in taken):
            return True
    return False


def one_meaning(P, rep, rows1):
    """A name stands for one thing.  (labels) a label is bound only when no constant, variable or alias has the name; (.def) every .def line
    that does not fail stores its alias, and only when the name is free; (.equ) a definition is stored only when the name is free or
    already stands for the very same expression."""
    def lookup_none(r, what):
        for e, t in r.conds:
            m = re.match(r"^\(%s\(common_context\*, .*\)#d == ([01])\)$" % what, sx.show(e))
            if m and ((m.group(1) == "1") != t):
                return True
        return False

    def name_free(r):
        """no constant, flag, variable, special name or label (asked through get_expr or through the five getters it consists of), and
        no alias (get_def, or the defs table itself)"""
        expr_free = lookup_none(r, "get_expr") or all(lookup_none(r, g_) for g_ in ("get_define", "get_equ", "get_set", "get_special", "get_label"))
        def_free = lookup_none(r, "get_def")
        for e, t in r.conds:
            m = re.match(r"^\([\w:<>, ]*::get\(common_context\*\.defs\b.*\)#d == ([01])\)$", sx.show(e))
            if m and ((m.group(1) == "1") != t):
                def_free = True
        return expr_free and def_free

    cont = [r for r in rows1 if r.item == "Label" and r.exit == "loop"]
    ok = bool(cont) and all(name_free(r) for r in cont)
    rep.ob("C10.unique|label", ok, "a label is bound only when nothing else has its name (no constant, variable, flag or alias)" if ok else
           "a label is bound without asking whether a constant, variable or alias of that name exists: `.equ foo = 5` next to `foo:` is accepted and every reference silently takes one of the two")
    rows2, _, _ = L.pass2_rows(P)
    dcont = [r for r in rows2 if r.item == "Def" and r.exit == "loop"]
    stores = lambda r: any(e[0] == 'call' and e[1].endswith("::insert") and "defs" in str(e[2][0]) for e in r.events)
    def eq_facts(r):
        """(infeasible, same): the path takes None == Some(..) for true / knows that the alias already stands for the very register"""
        infeasible = same = False
        for e, t in r.conds:
            sh = sx.show(e)
            m = re.match(r"^\((?:[\w:<> ]*::)?(eq|ne)\((.*)\)(@\d+)? == 0\)$", sh)
            if not m:
                continue
            equal = (not t) if m.group(1) == "eq" else t
            a = m.group(2)
            if re.match(r"^Option::None, Option::Some\(", a) or re.match(r"^Option::Some\(.*\), Option::None$", a):
                infeasible = infeasible or equal
            elif "defs" in a and "Reg8::" in a and equal:
                same = True
        return infeasible, same

    dcont = [r for r in dcont if not eq_facts(r)[0]]
    # a .def that goes on has stored its alias, the name being free - or the alias already stands for that very register (the same
    # line read again) and the name means nothing else
    fine = lambda r: (stores(r) and name_free(r)) or (not stores(r) and eq_facts(r)[1] and
                                                      (lookup_none(r, "get_expr") or all(lookup_none(r, g_) for g_ in ("get_define", "get_equ", "get_set", "get_special", "get_label"))))
    ok = bool(dcont) and any(stores(r) for r in dcont) and all(fine(r) for r in dcont)
    bad = [r for r in dcont if not stores(r) and not fine(r)]
    rep.ob("C10.unique|def", ok, "every .def line either stores its alias - the name being free - or fails the build" if ok else
           ("a .def line can pass without storing its alias and without an error (%d such paths): the line is ignored, a later use takes the earlier meaning" % len(bad) if bad else
            "a .def is stored without asking whether the name is in use"))
    import rules_C08
    fn = "directive::Directive::parse"
    dv = rules_C08.dvariants(P)
    inv = {n: d for d, n in dv.items()}
    M = absint.Machine(P, max_depth=4, opaque={"expr::Expr::run", "parser::parse_file_internal", "context::Context::exist"})
    paths = M.explore(fn, M.arg_unknowns(fn), doms={sx.S("self*#d", 64, True): sx.dom_set([inv["Equ"]])})
    stored = [p for p in paths if p.exit == "Ok" and any(e[0] == 'call' and e[1].endswith("::insert") and "equs" in str(e[2][0]) for e in p.events)]
    why = []
    for p in stored:
        free = same = infeasible = False
        for e, t in p.conds:
            sh = sx.show(e)
            if re.match(r"^\(exist\(.*\)(@\d+)? == 0\)$", sh) and t:
                free = True
            # None compared with Some(..): never equal, whatever the (opaque) comparison is taken to answer
            m = re.match(r"^\((?:[\w:<> ]*::)?(ne|eq)\(Option::None, Option::Some\(.*\)\)(@\d+)? == 0\)$", sh)
            if m and ((m.group(1) == "ne") == t):
                infeasible = True
            m = re.match(r"^\((?:[\w:<> ]*::)?(ne|eq)\((.*)\)(@\d+)? == 0\)$", sh)
            if m and "equs" in m.group(2) and "opts*:Assign.1" in m.group(2):
                same = t if m.group(1) == "ne" else (not t)
        if not (free or same or infeasible):
            why.append("a .equ is stored although the name may stand for something else already")
    if not stored:
        why.append("no path stores a .equ")
    rep.ob("C10.unique|equ", not why, "a .equ is stored only when its name is free or already stands for the same expression" if not why else
           "%s: `.equ K = 1` ... `.equ K = 2` gives every reference, also those in front of the second line, the value 2" % why[0])


def equ_is_lazy(P, rep, key, consequence):
    """A `.equ` is a constant: the reference stands in its line.  The implementation stores the expression as written and evaluates it at
    every use, with the `pc` and the `.set` values of the using line."""
    import rules_C08
    fn = "directive::Directive::parse"
    dv = rules_C08.dvariants(P)
    inv = {n: d for d, n in dv.items()}
    M = absint.Machine(P, max_depth=4, opaque={"expr::Expr::run", "parser::parse_file_internal", "context::Context::exist"})
    paths = M.explore(fn, M.arg_unknowns(fn), doms={sx.S("self*#d", 64, True): sx.dom_set([inv["Equ"]])})
    stored = []
    for p in paths:
        for e in p.events:
            if e[0] == 'call' and e[1].endswith("::insert") and "equs" in str(e[2][0]):
                stored.append(str(e[2][2]))
    lazy = [v for v in stored if "opts*:Assign.1" in v and "run(" not in v]
    # position-dependent names exist: `pc` is rewritten for every item, .set values change along the file
    moving = any(k.endswith("set_special") for k in P.reachable(["builder::pass2::pass_2_internal"]))
    rep.ob(key, not (lazy and moving), "a .equ is stored as a value" if not lazy else
           "a .equ stores its expression as written and every use evaluates it anew, with the `pc` and `.set` values of the using line: %s" % consequence)


def more_one_meaning(P, rep):
    """(#define) a name that stands for something else may not become a flag: a definition is stored only when the name is free or is a
    flag already; (pc) the location counter's name is in use from the start for every check that asks `exist`; (.undef) a line that
    succeeds has exactly one operand."""
    import rules_C08
    fn = "directive::Directive::parse"
    dv = rules_C08.dvariants(P)
    inv = {n: d for d, n in dv.items()}
    M = absint.Machine(P, max_depth=4, opaque={"expr::Expr::run", "parser::parse_file_internal", "context::Context::exist"})
    paths = M.explore(fn, M.arg_unknowns(fn), doms={sx.S("self*#d", 64, True): sx.dom_set([inv["Define"]])})
    stored = [p for p in paths if p.exit == "Ok" and any(e[0] == 'call' and e[1].endswith("::insert") and "defines" in str(e[2][0]) for e in p.events)]
    why = []
    for p in stored:
        free = flag = False
        for e, t in p.conds:
            sh = sx.show(e)
            if re.match(r"^\(exist\(.*\)(@\d+)? == 0\)$", sh) and t:
                free = True
            m = re.match(r"^\([\w:<>, ]*::get\(.*\.defines\b.*\)#d == ([01])\)$", sh)
            if m and ((m.group(1) == "1") == t):
                flag = True
            m = re.match(r"^\(get_define\(.*\)#d == ([01])\)$", sh)
            if m and ((m.group(1) == "1") == t):
                flag = True
        if not (free or flag):
            why.append("a flag is stored although the name may stand for something else")
    if not stored:
        why.append("no path stores a flag")
    rep.ob("C10.unique|define", not why, "a #define is stored only when its name is free or is a flag already" if not why else
           "%s: `.equ foo = 2 / #define foo 1` gives every reference to the constant, also those in front of the #define, the value 1" % why[0])
    # .undef
    paths = M.explore(fn, M.arg_unknowns(fn), doms={sx.S("self*#d", 64, True): sx.dom_set([inv["Undef"]])})
    oks = [p for p in paths if p.exit == "Ok"]
    lens = []
    for p in oks:
        ds = [d for s_, d in p.state.doms.items() if isinstance(s_, tuple) and s_[0] == 's' and s_[1].startswith("opts*") and s_[1].endswith("#len")]
        lens.append(ds[0] if len(ds) == 1 else None)
    ok1 = bool(oks) and all(d is not None and sx.dom_min(d) == 1 and sx.dom_max(d) == 1 for d in lens)
    rep.ob("C10.undef|one-name", ok1, "a successful .undef has exactly one operand" if ok1 else
           "`.undef a, b` succeeds, removes a and leaves b defined without a word")
    # pc: the name check `exist` answers yes for the names the assembler itself gives a meaning, before any table is asked
    fn = "context::Context::exist"
    if fn in P.body:
        import mirutil as MU_
        b = P.body[fn]
        names = set()
        for bb, t, nm, tg in P.call_sites(fn):
            if re.search(r"::contains$", MU_.callee_names(t)[1]):
                locs, cs, calls, places = MU_.backward_slice(b, t["args"][:1])
                names |= {c.get("str") for c in cs if "str" in c}
                # a named constant (its value is not in the MIR of the using function): read its literal from the source it is
                # declared in
                for kp in [k2 for k2 in P.body if k2.startswith(fn + "#promoted")] + [fn]:
                    for bl in P.body[kp]["blocks"]:
                        for st in bl["stmts"]:
                            o = st.get("rv", {}).get("op", {}) if st["k"] == "assign" else {}
                            cn = o.get("const", {}).get("opaque") if isinstance(o, dict) and "const" in o else None
                            if cn and re.match(r"^[\w:]+$", cn):
                                src = os.path.join(F.REPO, st["span"]["f"])
                                try:
                                    text = open(src).read()
                                except OSError:
                                    continue
                                m = re.search(r"const\s+%s\s*:[^=]*=\s*\[([^\]]*)\]" % re.escape(cn.split("::")[-1]), text)
                                if m:
                                    names |= set(re.findall(r'"([^"]*)"', m.group(1)))
        special_names = set()
        for k2 in P.reachable(["builder::pass2::pass_2_internal"]):
            pass
        b2 = P.body.get("builder::pass2::pass_2_internal")
        if b2 is not None:
            for bb, t, nm, tg in P.call_sites("builder::pass2::pass_2_internal"):
                if any(x.endswith("::set_special") for x in tg):
                    locs, cs, calls, places = MU_.backward_slice(b2, [t["args"][1]])
                    special_names |= {c.get("str") for c in cs if "str" in c}
        ok = bool(special_names) and special_names <= names
        rep.ob("C10.unique|pc", ok, "the names the assembler itself gives a value (%s) count as in use for every name check, from the start" % sorted(special_names) if ok else
               "the name checks cannot see %s before pass 2 gives it a value (reserved in exist(): %s): a label `pc:` or `.equ pc = 5` is accepted and every reference then silently takes the location counter" % (sorted(special_names), sorted(n for n in names if n)))
    else:
        rep.unprovable("C10.unique|pc", "Context::exist not found")


def ident_paths(P):
    fn = "expr::Expr::run"
    M = absint.Machine(P, max_depth=4, opaque={"context::Context::get_expr"})
    M.inline_loopy_from_root = True
    paths = M.explore(fn, M.arg_unknowns(fn))
    return [p for p in paths if L.dom1(p.state, "self*#d") == 0]


def bound_identifier_errors(P, rep, key, idp=None):
    """an identifier that is bound evaluates to what its definition evaluates to: the only ways it can fail are that the definition's
    own evaluation fails or that the nesting limit is reached — nothing else (no bookkeeping of its own) may turn it into an error"""
    idp = idp if idp is not None else ident_paths(P)
    bad = []
    n = 0
    for p in idp:
        if p.exit != "Err":
            continue
        found_none = nested_err = depth_guard = False
        other = []
        for e, t in p.conds:
            sh = sx.show(e)
            if re.match(r"^\(get_expr\(.*\)(@\d+)?#d == 0\)$", sh) and t or re.match(r"^\(get_expr\(.*\)(@\d+)?#d == 1\)$", sh) and not t:
                found_none = True
            elif re.match(r"^\(run\w*\(.*\)(@\d+)?#d == 1\)$", sh) and t or re.match(r"^\(run\w*\(.*\)(@\d+)?#d == 0\)$", sh) and not t:
                nested_err = True
            elif re.match(r"^\(\(?depth", sh) or re.match(r"^\(0 > ", sh):
                depth_guard = depth_guard or True
            elif "self*#d" in sh or "get_expr(" in sh and "#d" in sh:
                pass
            else:
                other.append(sh[:90] + ("" if t else " is false"))
        n += 1
        if not (found_none or nested_err) and other:
            bad.append(other[-1])
        elif not (found_none or nested_err or depth_guard) and not other:
            bad.append("an unconditional error")
    rep.ob(key, not bad and n >= 1,
           "a bound identifier fails only if its definition's evaluation fails or the nesting limit is reached (%d error paths)" % n if not bad and n >= 1 else
           ("a bound identifier can fail although its definition evaluates: the error depends on %s" % bad[0] if bad else "no error path of identifier evaluation found"))


def run(tier):
    rep = Reporter("C10", tier, "other", "whole-program lower-case typestate on symbol-table keys (field-based flow analysis over resolved MIR) + path rules by abstract interpretation")
    rep.explanation = ("Case-insensitivity is decided as a typestate: every key that reaches one of the five symbol maps must be provably lower-cased, "
                       "following keys through Item/Document payloads (abstract fields: every construction site must be lower-cased) and "
                       "parameters (every call site). Unbound names, duplicate labels, alias identity and .undef are path facts of the "
                       "evaluator / encoder / passes. Not decided: cross-kind collisions, .equ redefinition, lookup-order precedence, cyclic .equ (C16).")
    rep.trusted = ["rustc nightly MIR and callee resolution", "E4 transfer rules (analysis/norm.py)"]
    P = G.Program(F.load("dev"))
    N = norm.Norm(P)
    sites = map_sites(P, "context::CommonContext", MAPS)
    rep.count("symbol-map access sites", len(sites))
    per_map = {}
    for k, bb, t, fname, meth in sites:
        per_map[fname] = per_map.get(fname, 0) + 1
        ok, why = N.operand(k, t["args"][1])
        fn_short = k.split("::")[-1]
        rep.ob("C10.case|%s|%s|%s" % (fname, k, meth), ok,
               "%s.%s in %s: key is lower-cased (%s)" % (fname, meth, fn_short, why) if ok else
               "%s.%s in %s: the key is not provably lower-cased — %s; names differing only in letter case are different symbols here" % (fname, meth, fn_short, why),
               loc=loc_of(P.body[k]["blocks"][bb]["tspan"]), detail={"reason": why},
               sample={"map": fname, "method": meth, "function": k, "key": why} if ok else None)
    # the floor guards against a rule that matches nothing: a read and a write of each of the five maps (13 today; how many call sites
    # there are beyond that is the code's business - the getters may be shared)
    rep.floor("symbol-map access sites", len(sites), 10)
    for mname in MAPS:
        rep.ob("C10.case|%s|accessed" % mname, per_map.get(mname, 0) >= 1, "map %s: %d access site(s) analysed" % (mname, per_map.get(mname, 0)),
               kind="unprovable", nontrivial=False)
    for m in MAPS:
        rep.ob("C10.case|%s|covered" % m, per_map.get(m, 0) >= 2, "map %s: %d access sites analysed" % (m, per_map.get(m, 0)), kind="unprovable", nontrivial=False)

    # ---- when a kind of symbol gets bound: which stage can write which table
    # labels in pass 1 (all before any operand is evaluated), .def/.undef and .set in pass 2's forward walk (so a use sees the latest
    # one before it and none after it), .equ while parsing (and while a macro body is re-parsed in pass 0), pc in pass 2
    STAGES = {"parsing": "directive::Directive::parse", "pass 0": "builder::pass0::build_pass_0", "pass 1": "builder::pass1::build_pass_1", "pass 2": "builder::pass2::build_pass_2"}
    reach_stage = {nm: P.reachable([root]) for nm, root in STAGES.items() if root in P.body}
    # pass 0 re-parses macro bodies: what parsing may do, pass 0 may do as well
    WRITERS = {"labels": {"pass 1"}, "defs": {"pass 2"}, "sets": {"pass 2"}, "equs": {"parsing", "pass 0"}, "special": {"pass 2"}}
    per_stage = {}
    for k, bb, t, fname, meth in sites:
        if meth not in ("insert", "remove", "clear", "entry", "extend", "retain", "drain"):
            continue
        for nm, rs in reach_stage.items():
            if k in rs:
                per_stage.setdefault(fname, set()).add(nm)
    for m_, allowed in WRITERS.items():
        got = per_stage.get(m_, set())
        extra = sorted(got - allowed - ({"pass 0"} if "parsing" in allowed else set()))
        okw = bool(got) and not extra
        rep.ob("C10.stage|%s" % m_, okw,
               "the %s table is written only in %s" % (m_, " / ".join(sorted(allowed))) if okw else
               ("the %s table can also be written in %s: a name is then bound before (or after) the point the binding rules give it — e.g. a .set variable read before its first assignment resolves instead of failing" % (m_, " and ".join(extra)) if extra else
                "no writer of the %s table found" % m_))
    # ---- unbound name -> Err
    fn = "expr::Expr::run"
    M = absint.Machine(P, max_depth=4, opaque={"context::Context::get_expr"})
    M.inline_loopy_from_root = True
    paths = M.explore(fn, M.arg_unknowns(fn))
    idp = [p for p in paths if L.dom1(p.state, "self*#d") == 0]
    none_paths = [p for p in idp if any(isinstance(s, tuple) and s[0] == 's' and s[1].startswith("get_expr(") and s[1].endswith("#d") and sx.dom_size(d) == 1 and sx.dom_min(d) == 0 for s, d in p.state.doms.items())]
    ok = bool(none_paths) and all(p.exit == "Err" for p in none_paths)
    rep.ob("C10.unbound|expr", ok, "an identifier with no binding evaluates to Err(MissingIdentifier), never to a value" if ok else
           "an unbound identifier can evaluate successfully (%s)" % [p.exit for p in none_paths])
    some_const = [p for p in idp if p.exit == "Ok"]
    okv = bool(some_const) and all("get_expr(constants*, self*:Ident.0):Some.0" in M.describe(p.state, p.ret[3][0]) for p in some_const)
    rep.ob("C10.bound|value", okv, "a bound identifier evaluates to the looked-up value itself" if okv else "a bound identifier does not evaluate to its looked-up value")
    bound_identifier_errors(P, rep, "C10.bound|no-other-error", idp)
    # the conversion of an operand into a register, by role: the method of the operand type that asks the alias table
    fn = "instruction::InstructionOps::get_r8"
    if fn not in P.body:
        cands = [k for k in sorted(P.body) if re.match(r"^instruction::InstructionOps::[^:{]+$", k) and
                 any(n_.endswith("Context::get_def") or n_.endswith("::get_def") for _, t_, n_, _ in P.call_sites(k))]
        if len(cands) == 1:
            fn = cands[0]
    if fn not in P.body:
        rep.unprovable("C10.alias|anchor", "the method that turns an operand into a register (it asks the .def table) was not found")
        return
    M = absint.Machine(P, max_depth=4)
    paths = M.explore(fn, M.arg_unknowns(fn))
    # the discriminant of the Option that get_def returned (not the register inside a Some, whose number may be 0 as well)
    def looked_up(p):
        return [d for s, d in p.state.doms.items() if isinstance(s, tuple) and s[0] == 's' and s[1].startswith("get_def(") and s[1].endswith(")#d") and sx.dom_size(d) == 1]
    alias = [p for p in paths if looked_up(p)]
    miss = [p for p in alias if any(sx.dom_min(d) == 0 for d in looked_up(p))]
    hit = [p for p in alias if p not in miss]
    ok = bool(miss) and all(p.exit == "Err" for p in miss)
    rep.ob("C10.unbound|alias", ok, "a register alias with no .def is an error" if ok else "an undefined register alias does not fail")
    # a bound alias yields the stored register itself; it may be refused only because the selected device lacks that register (a device
    # flag is set on the path), and without such a flag every register 0..31 goes through
    def flags_set(p):
        return [s[1] for s, d in p.state.doms.items() if isinstance(s, tuple) and s[0] == 's' and s[1].startswith("contains(get_device(") and sx.dom_size(d) == 1 and sx.dom_min(d) == 1]
    okh = [p for p in hit if p.exit == "Ok"]
    same = all(M.describe(p.state, p.ret[3][0]).endswith(":Some.0") and "get_def(" in M.describe(p.state, p.ret[3][0]) for p in okh)
    refused = [p for p in hit if p.exit != "Ok"]
    by_device = all(flags_set(p) for p in refused)
    through = None
    for p in okh:
        if flags_set(p):
            continue
        for s, d in p.state.doms.items():
            if isinstance(s, tuple) and s[0] == 's' and s[1].startswith("get_def(") and s[1].endswith(":Some.0#d"):
                through = d if through is None else sx.dom_union(through, d)
        if not any(isinstance(s, tuple) and s[0] == 's' and s[1].startswith("get_def(") and s[1].endswith(":Some.0#d") for s in p.state.doms):
            through = sx.dom_range(0, 31)
    every = through is not None and sx.dom_subset(sx.dom_range(0, 31), through)
    ok = bool(okh) and same and by_device and every
    rep.ob("C10.alias|identity", ok, "an alias resolves to exactly the register stored by .def (the encoder then sees the same register value, C01)" if ok else
           ("get_r8 does not return the stored register unchanged for an alias" if not same or not okh else
            "a bound alias is refused although no device flag says the register is missing" if not by_device else
            "a bound alias does not resolve for every register (resolves for %s)" % (sx.dom_show(through) if through is not None else "none")))
    # ---- duplicate labels, undef, sequencing from the pass tables
    rows1, _, _ = L.pass1_rows(P)
    labs = [r for r in rows1 if r.item == "Label"]
    dup_err = [r for r in labs if r.exit == "Err"]
    dup_ok = [r for r in labs if r.exit == "loop"]

    def ins_d(r):
        for s, d in r.state.doms.items():
            # the value the pass branches on must be the insert's own result, not something computed from it
            if isinstance(s, tuple) and s[0] == 's' and re.match(r"^(std::)?collections::HashMap::<K, V, S, A>::insert\(", s[1]) and s[1].endswith("#d") and sx.dom_size(d) == 1:
                return sx.dom_min(d)
        return None

    def found_in_labels(r):
        """a lookup in the labels table (a check in front of the insert) that found the name"""
        for s, d in r.state.doms.items():
            if isinstance(s, tuple) and s[0] == 's' and re.match(r"^(std::)?collections::HashMap::<K, V, S, A>::get\([^()]*\.labels\b", s[1]) and s[1].endswith(")#d") and sx.dom_size(d) == 1:
                if sx.dom_min(d) == 1:
                    return True
        return False

    # a path that goes on has bound a name that was new (the insert's own result is None); some failing path is the one for a name that is
    # a label already (the insert returned Some, or a lookup in the labels table in front of it found the name)
    ok = bool(dup_ok) and all(ins_d(r) == 0 and not found_in_labels(r) for r in dup_ok) and \
        any(ins_d(r) == 1 or found_in_labels(r) for r in dup_err)
    rep.ob("C10.duplicate-label", ok, "binding a label that already exists fails the build; a new one continues" if ok else
           "the result of the label insert is not checked: duplicate labels are accepted (Err paths %d, continue paths %d)" % (len(dup_err), len(dup_ok)))
    one_meaning(P, rep, rows1)
    more_one_meaning(P, rep)
    equ_is_lazy(P, rep, "C10.equ|evaluated-at-use", "`.set s = 1 / .equ e = s / .set s = 2 / ldi r16, e` loads 2; `.equ e = s` before the first `.set s` builds")
    # every kind of line that can carry a label yields its Label item, before anything else of the line
    import lineitems
    lineitems.check(P, rep, "C10.label|line", want_labels=True, want_instruction=False)
    # label insert really targets the labels map
    okl = all(any(e[0] == 'call' and e[1].endswith("::insert") and "labels" in e[2][0] for e in r.events) for r in dup_ok) and bool(dup_ok)
    rep.ob("C10.label|map", okl, "labels are bound in the labels table" if okl else "label binding does not go to the labels table")
    rows2, _, _ = L.pass2_rows(P)
    und = [r for r in rows2 if r.item == "Undef"]

    def rm_d(r):
        for s, d in r.state.doms.items():
            if isinstance(s, tuple) and s[0] == 's' and "::remove(" in s[1] and s[1].endswith("#d") and sx.dom_size(d) == 1:
                return sx.dom_min(d)
        return None

    ok = bool(und) and all((r.exit == "Err") == (rm_d(r) == 0) for r in und) and any(r.exit == "loop" for r in und)
    rep.ob("C10.undef", ok, ".undef removes the alias from the defs table; removing an alias that is not defined fails" if ok else ".undef does not remove / does not report a missing alias")
    for kind, what in (("Set", "sets"), ("Def", "defs")):
        rs = [r for r in rows2 if r.item == kind and r.exit == "loop"]
        ok = bool(rs)
        rep.ob("C10.sequence|%s" % kind.lower(), ok, ".%s is applied inside pass 2's forward item loop, between the instructions around it" % kind.lower() if ok else
               ".%s items are not handled in pass 2's item loop" % kind.lower())
    every_segment(P, rep, "C10.sequence|every-segment")
    # .set stores the evaluated value (latest assignment wins: plain insert)
    sets = [r for r in rows2 if r.item == "Set" and r.exit == "loop"]
    okset = bool(sets) and all(any(e[0] == 'call' and e[1].endswith("::insert") and "sets" in e[2][0] and "Expr::Const(run(" in e[2][2] for e in r.events) for r in sets)
    rep.ob("C10.set|value", okset, ".set stores the value of its expression evaluated at that point (later reads see the latest assignment)" if okset else
           ".set does not store Expr::Const(value of its expression)")
    # pass order and .equ at parse time
    fn = "builder::build_from_parsed"
    order = [MU.callee_names(t)[1] for _, t, _, tg in P.call_sites(fn) if any(x.startswith("builder::pass") for x in tg)]
    ok = order == ["builder::pass0::build_pass_0", "builder::pass1::build_pass_1", "builder::pass2::build_pass_2"]
    rep.ob("C10.sequence|passes", ok, "labels are all bound (pass 1) before any operand is evaluated (pass 2)" if ok else "pass order is %s" % order)
    # (in Directive::parse or a private part of the directive module it calls: still while the text is parsed)
    equ = any(MU.callee_names(t)[1].endswith("::set_equ") for k_ in P.reachable(["directive::Directive::parse"])
              if k_.startswith("directive::") for _, t, _, _ in P.call_sites(k_))
    rep.ob("C10.sequence|equ", equ, ".equ is bound while parsing, so it can be referenced before its definition line is reached by the passes" if equ else ".equ is not bound in Directive::parse")
    import rules_C02
    rules_C02.byte_operand_dropped(P, rep, "C10.unbound|byte-operand", "a name in the operand is never looked up: `.byte N` with an undefined N, or with N = 4, both count as nothing - the symbol silently stands for zero")
    return rep
