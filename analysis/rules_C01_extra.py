def recognition(P, rep):
    pass


def glue(P, rep):
    pass
