"""C01 part 1 (recognition: the grammar maps every ISA mnemonic and operand spelling to the enum value the encoder rows are keyed on)
and part 3 (glue: the bytes returned by the encoder are the bytes that reach BuildResult.code)."""
import re

import facts as F
import encoder as E
import grammar
import graph as G
import mirutil as MU
import peg
from common import loc_of


def from_str_pairs(P, ty):
    """{accepted string: variant name} read from the MIR of the strum-generated <ty as FromStr>::from_str"""
    key = "<%s as std::str::FromStr>::from_str" % ty
    b = P.body.get(key)
    if b is None:
        return None
    out = {}
    for bl in b["blocks"]:
        t = bl["term"]
        if t["k"] != "call" or not MU.callee_names(t)[1].endswith("PartialEq for str>::eq"):
            continue
        lits = [a["const"]["str"] for a in t["args"] if "const" in a and "str" in a["const"]]
        if len(lits) != 1 or t.get("target") is None:
            return None
        sw = b["blocks"][t["target"]]["term"]
        if sw["k"] != "switch":
            return None
        tg = {int(v): x for v, x in sw["targets"]}
        true_bb = sw["otherwise"] if 0 in tg else tg.get(1)
        # the variant built on the true edge
        vname = None
        cur = true_bb
        for _ in range(3):
            for st in b["blocks"][cur]["stmts"]:
                if st["k"] == "assign" and st["rv"]["k"] == "agg" and st["rv"]["kind"].get("path") == ty:
                    vname = st["rv"]["kind"].get("vname")
            if vname or b["blocks"][cur]["term"]["k"] != "goto":
                break
            cur = b["blocks"][cur]["term"]["target"]
        if vname is None:
            return None
        if lits[0] in out and out[lits[0]] != vname:
            return None
        out[lits[0]] = vname
    return out


OPN = "instruction::operation::"


def recognition(P, rep):
    g, problems = grammar.load_checked(P)
    for pr in problems:
        rep.unprovable("C01.recog|grammar-cross-check", pr)
    pairs = {n: from_str_pairs(P, ty) for n, ty in (("Operation", OPN + "Operation"), ("BranchT", OPN + "BranchT"), ("SFlags", OPN + "SFlags"),
                                                    ("Reg8", "instruction::register::Reg8"), ("Reg16", "instruction::register::Reg16"))}
    for n, pr in pairs.items():
        if not pr:
            rep.unprovable("C01.recog|from_str|%s" % n, "the (string -> variant) table of %s::from_str could not be read from its MIR" % n)
            return

    def cond(rule, action, caps):
        m = re.search(r"(\w+)::from_str\(\s*(\w+)", action["text"])
        if m and m.group(1) in pairs and m.group(2) in caps:
            txt = caps[m.group(2)]
            if "to_lowercase" in action["text"]:
                txt = txt.lower()
            return txt in pairs[m.group(1)]
        return None

    spec = E.isa()
    seen = set()
    n = 0
    for r in spec["rows"]:
        mn = r["mn"]
        if mn in seen:
            continue
        seen.add(mn)
        n += 1
        tr = peg.full_match(g, "standard_operation", mn, cond)
        key = "C01.recog|mnemonic|%s" % mn
        if tr is None:
            rep.ob(key, False, "the mnemonic `%s` is not recognised by standard_operation (an earlier alternative or literal shadows it, or it is missing): it would be taken for a macro call" % mn)
            continue
        acts = [a for a in tr.actions if a[0] == "standard_operation"]
        if len(acts) != 1:
            rep.unprovable(key, "could not identify the alternative of standard_operation that recognises `%s`" % mn)
            continue
        text, caps = acts[0][1], acts[0][2]
        m2 = re.search(r"Operation::(\w+)\(\s*(\w+)::from_str\(\s*(\w+)\s*\)", text)
        m1 = re.search(r"Operation::from_str\(\s*(\w+)\s*\)", text)
        got = None
        if m2 and m2.group(3) in caps:
            got = (m2.group(1), pairs.get(m2.group(2), {}).get(caps[m2.group(3)]))
        elif m1 and m1.group(1) in caps:
            got = (pairs["Operation"].get(caps[m1.group(1)]), None)
        want = (r["op"], r["sub"])
        rep.ob(key, got == want, "`%s` is recognised as Operation::%s%s" % (mn, want[0], "(%s)" % want[1] if want[1] else "") if got == want else
               "`%s` is recognised as %s, the encoder row for it is keyed on %s" % (mn, got, want), detail={"action": text[:120], "captures": caps})
        # the line-level rule lower-cases an identifier and hands it to standard_operation: both letter cases must reach it whole
        for sp in (mn, mn.upper()):
            tr2 = peg.full_match(g, "ident", sp)
            rep.ob("C01.recog|ident|%s" % sp, tr2 is not None, "`%s` is one identifier for the line parser" % sp if tr2 else
                   "`%s` is not matched as one identifier, so operation() never sees the whole mnemonic" % sp, nontrivial=False)
    rep.floor("mnemonics checked for recognition", n, 110)
    op_rule = g.rules.get("operation")
    acts = g.find(op_rule["expr"], lambda x: x[0] == "seq" and x[2] is not None) if op_rule else []
    txt = " ".join(a[2]["text"] for a in acts)
    okop = "standard_operation(" in txt and "to_lowercase()" in txt and "Operation::Custom" in txt
    rep.ob("C01.recog|operation-dispatch", okop, "operation() lower-cases the identifier, tries standard_operation and only then falls back to a macro call" if okop else
           "operation() no longer lower-cases the identifier and tries standard_operation before falling back to a macro call")

    # registers
    r8 = P.lib.adts["instruction::register::Reg8"]
    discr = {v["name"]: int(v["discr"]) for v in r8["variants"]}
    nreg = 0
    for i in range(32):
        for sp in ("r%d" % i, "R%d" % i):
            nreg += 1
            tr = peg.full_match(g, "reg8", sp, cond)
            v = pairs["Reg8"].get(sp.lower())
            ok = tr is not None and not tr.unknown_conditions and v is not None and discr.get(v) == i
            rep.ob("C01.recog|reg8|%s" % sp, ok, "`%s` is register %d" % (sp, i) if ok else
                   "`%s` is not recognised as register %d (matched: %s, from_str gives %s with number %s)" % (sp, i, tr is not None, v, discr.get(v)))
        tr = peg_full_ops(g, "r%d" % i, cond)
        first = tr.actions[-1][1] if tr and tr.actions else ""
        rep.ob("C01.recog|operand-order|r%d" % i, "InstructionOps::R8" in first, "`r%d` as an operand is a register, not an expression identifier" % i if "InstructionOps::R8" in first else
               "`r%d` as an operand is not parsed as a register (instruction_ops tries another alternative first): %s" % (i, first[:60]), nontrivial=False)
    for sp in "xyzXYZ":
        tr = peg.full_match(g, "reg16", sp, cond)
        v = pairs["Reg16"].get(sp.lower())
        ok = tr is not None and v == sp.upper()
        rep.ob("C01.recog|reg16|%s" % sp, ok, "`%s` is pointer register %s" % (sp, sp.upper()) if ok else "`%s` is not recognised as pointer register %s (from_str gives %s)" % (sp, sp.upper(), v))
    # addressing forms
    forms = [("-x", "PreDecrement"), ("x+", "PostIncrement("), ("y+5", "PostIncrementE"), ("z", "IndexOps::None"), ("Z+", "PostIncrement("), ("-Y", "PreDecrement")]
    for sp, ctor in forms:
        tr = peg_index(g, sp, cond)
        got = tr.actions[-1][1] if tr and tr.actions else None
        ok = got is not None and ctor in got and (ctor != "PostIncrement(" or "PostIncrementE" not in got)
        rep.ob("C01.recog|index|%s" % sp, ok, "`%s` is the addressing form %s" % (sp, ctor.rstrip("(")) if ok else
               "`%s` is not parsed as %s (an earlier alternative of index_ops shadows it): %s" % (sp, ctor.rstrip("("), (got or "no match")[:60]))
        tr = peg_full_ops(g, sp, cond)
        got = [a for a in tr.actions if a[0] == "instruction_ops"][-1][1] if tr and [a for a in tr.actions if a[0] == "instruction_ops"] else None
        rep.ob("C01.recog|operand-order|%s" % sp, got is not None and "InstructionOps::Index" in got, "`%s` as an operand is an addressing form" % sp if got and "InstructionOps::Index" in got else
               "`%s` as an operand is not parsed as an addressing form: %s" % (sp, (got or "no match")[:60]), nontrivial=False)
    rep.count("register spellings checked", nreg)


def peg_index(g, s, cond):
    """index_ops contains expr() (a precedence climber the matcher does not model): `y+5` is matched with the expression replaced by a
    number token, which is all the addressing-form decision depends on"""
    g2 = _with_simple_expr(g)
    return peg.full_match(g2, "index_ops", s, cond)


def peg_full_ops(g, s, cond):
    return peg.full_match(_with_simple_expr(g), "instruction_ops", s, cond)


def _with_simple_expr(g):
    if getattr(g, "_simple", None) is None:
        rules = dict(g.rules)
        rules["expr"] = {"expr": ("rep", ("class", (("0", "9"), ("a", "z"), ("A", "Z"), ("_", "_")), False, False), 1, None, None), "ret": None}
        g._simple = peg.Grammar(rules, g.order, g.src, g.path)
    return g._simple


# ------------------------------------------------------------------------------------------------ glue
def _through_wrapper(P, k, b, call_bb):
    """the Result of the call at call_bb is handed whole to a helper of the repository whose value is `result.map_err(..)` of that very
    parameter (the Ok payload passes through untouched): -> block of the helper's call, or None"""
    dest = b["blocks"][call_bb]["term"]["dest"]["local"]
    ch = MU.Chaser(b)
    for bb2, t2, _, tg2 in P.call_sites(k):
        for ai, a in enumerate(t2["args"]):
            r = ch.root(a, through_calls=False)
            if r[0] != dest or r[1]:
                continue
            for g_ in tg2:
                gb = P.body.get(g_)
                if gb is None or "{closure" in g_:
                    continue
                chg = MU.Chaser(gb)
                if any(bl["term"]["k"] == "call" and MU.callee_names(bl["term"])[1] == "std::result::Result::<T, E>::map_err" and
                       bl["term"]["dest"]["local"] == 0 and not bl["term"]["dest"]["proj"] and
                       chg.root(bl["term"]["args"][0], through_calls=False)[0] == ai + 1 for bl in gb["blocks"]):
                    return bb2
    return None


def _ok_payload_locals(b, call_bb):
    """locals that hold the Ok payload of the Result returned by the call at call_bb (match arm binding / `?` value)"""
    r = MU.result_edges(b, call_bb)
    if not r or r.get("ok") is None:
        return None, None
    t = b["blocks"][call_bb]["term"]
    holders = {t["dest"]["local"]}
    out = set()
    changed = True
    while changed:
        changed = False
        for bl in b["blocks"]:
            for st in bl["stmts"]:
                if st["k"] != "assign" or st["rv"]["k"] != "use" or st["place"]["proj"]:
                    continue
                pl = MU.op_place(st["rv"]["op"])
                if pl is None:
                    continue
                l = st["place"]["local"]
                if pl["local"] in holders and not pl["proj"] and l not in holders:
                    holders.add(l)
                    changed = True
                elif pl["local"] in holders and [e["k"] for e in pl["proj"]] == ["downcast", "field"] and pl["proj"][0]["v"] == 0 and l not in out:
                    out.add(l)
                    changed = True
                elif pl["local"] in out and not pl["proj"] and l not in out:
                    out.add(l)
                    changed = True
            tt = bl["term"]
            if tt["k"] == "call" and MU.callee_names(tt)[1].endswith("as std::ops::Try>::branch") and tt["args"]:
                pl = MU.op_place(tt["args"][0])
                if pl and pl["local"] in holders and tt["dest"]["local"] not in holders:
                    holders.add(tt["dest"]["local"])
                    changed = True
    _ok_payload_locals.holders = holders
    return out, r


def _is_payload(ch, a, payload, holders):
    r = ch.root(a, through_calls=False)
    if r[0] in payload:
        return True
    if r[0] in holders:
        dc = [e for e in r[1] if e["k"] == "downcast"]
        return bool(dc) and all(e["v"] == 0 for e in dc)
    return False


def _appended_to(P, k, b, payload):
    """(receiver root local, other uses) for the payload: the Vec::extend call that takes it by value, and every other call that takes it"""
    ch = MU.Chaser(b)
    recv = None
    others = []
    for bb, t, name, tg in P.call_sites(k):
        for i, a in enumerate(t["args"]):
            pl = MU.op_place(a)
            if pl is None:
                continue
            if pl["local"] in payload or _is_payload(ch, a, payload, _ok_payload_locals.holders):
                rp = MU.callee_names(t)[1]
                if re.search(r"Vec<T, A> as std::iter::Extend<.*>>::extend$|Vec::<T, A>::append$|Vec::<T, A>::extend_from_slice$", rp) and i == 1:
                    recv = ch.root(t["args"][0], through_calls=False)[0]
                elif re.search(r"::len$|::is_empty$|as std::ops::Deref>::deref$|as std::ops::Drop>::drop$|::drop_in_place", rp):
                    pass
                else:
                    others.append(rp)
    return recv, others


def glue(P, rep):
    # link 0: the parsed mnemonic and operands reach the item list unchanged
    import lineitems
    lineitems.check(P, rep, "C01.glue|line", want_labels=False, want_instruction=True)
    k2 = "builder::pass2::pass_2_internal"
    kb = "builder::pass2::build_pass_2"
    kf = "builder::build_from_parsed"
    for k in (k2, kb, kf):
        if k not in P.body:
            rep.unprovable("C01.glue|anchor|%s" % k, "%s not found" % k)
            return
    # link 1: process(..) -> Ok payload -> fragment.extend(payload); fragment is what pass_2_internal returns
    b = P.body[k2]
    sites = [bb for bb, t, n, tg in P.call_sites(k2) if "instruction::process" in tg]
    ok1 = bool(sites)
    why = []
    frag = None
    for bb in sites:
        payload, r = _ok_payload_locals(b, bb)
        if not payload:
            bbw = _through_wrapper(P, k2, b, bb)
            if bbw is not None:
                payload, r = _ok_payload_locals(b, bbw)
        if not payload:
            ok1 = False
            why.append("the Ok value of process() is not bound")
            continue
        recv, others = _appended_to(P, k2, b, payload)
        if recv is None:
            ok1 = False
            why.append("the bytes returned by process() are not appended to the fragment")
        if others:
            ok1 = False
            why.append("the bytes returned by process() also go through %s before they are appended" % sorted(set(others))[:2])
        frag = recv
    rep.ob("C01.glue|process->fragment", ok1, "the byte vector returned by process() is appended unchanged (Vec::extend) to the fragment" if ok1 else "; ".join(why) or "no call of process() in pass 2",
           loc=loc_of(b["span"]))
    # link 2: the fragment is the returned value
    ret_ok = False
    ch = MU.Chaser(b)
    for bl in b["blocks"]:
        for st in bl["stmts"]:
            if st["k"] == "assign" and st["place"]["local"] == 0 and st["rv"]["k"] == "agg" and st["rv"]["kind"].get("vname") == "Ok":
                root = ch.root(st["rv"]["ops"][0], through_calls=False)[0]
                if root == frag and frag is not None:
                    ret_ok = True
                elif st["rv"]["ops"] and MU.op_place(st["rv"]["ops"][0]):
                    ret_ok = ret_ok and False
    rep.ob("C01.glue|fragment->return", ret_ok, "pass_2_internal returns that fragment" if ret_ok else "the value pass_2_internal returns on success is not the fragment the encoder's bytes were appended to")
    # link 3: build_pass_2: fragment -> code.extend(fragment) -> BuildResultPass2.code
    b = P.body[kb]
    sites = [bb for bb, t, n, tg in P.call_sites(kb) if k2 in tg]
    ok3 = bool(sites)
    why = []
    code_local = None
    ch = MU.Chaser(b)
    for bb in sites:
        payload, r = _ok_payload_locals(b, bb)
        if not payload:
            ok3 = False
            why.append("the Ok value of pass_2_internal is not bound")
            continue
        recvs = set()
        others = []
        holders3 = set(_ok_payload_locals.holders)
        for bbx, t, name, tg in P.call_sites(kb):
            for i, a in enumerate(t["args"]):
                pl = MU.op_place(a)
                if pl is None:
                    continue
                if pl["local"] in payload or _is_payload(ch, a, payload, holders3):
                    rp = MU.callee_names(t)[1]
                    if re.search(r"Vec<T, A> as std::iter::Extend<.*>>::extend$", rp) and i == 1:
                        recvs.add(ch.root(t["args"][0], through_calls=False)[0])
                    elif not re.search(r"::len$|::is_empty$|Deref>::deref$|Drop>::drop$|::drop_in_place", rp):
                        others.append(rp)
        if others:
            ok3 = False
            why.append("the fragment goes through %s" % sorted(set(others))[:2])
        code_local = recvs
    fields = [f["name"] for f in P.lib.adts["builder::pass2::BuildResultPass2"]["variants"][0]["fields"]]
    agg_ok = False
    for bl in b["blocks"]:
        for st in bl["stmts"]:
            if st["k"] == "assign" and st["rv"]["k"] == "agg" and st["rv"]["kind"].get("path") == "builder::pass2::BuildResultPass2":
                root = ch.root(st["rv"]["ops"][fields.index("code")], through_calls=False)[0]
                agg_ok = code_local is not None and root in code_local
    rep.ob("C01.glue|fragment->code", ok3 and agg_ok, "build_pass_2 appends every code fragment unchanged to the vector that becomes BuildResultPass2.code" if ok3 and agg_ok else
           "; ".join(why) or "BuildResultPass2.code is not the vector the code fragments were appended to")
    # link 4: build_from_parsed: BuildResult.code = passed_2.code
    b = P.body[kf]
    ch = MU.Chaser(b)
    fields = [f["name"] for f in P.lib.adts["builder::BuildResult"]["variants"][0]["fields"]]
    f2 = [f["name"] for f in P.lib.adts["builder::pass2::BuildResultPass2"]["variants"][0]["fields"]]
    sites = [bb for bb, t, n, tg in P.call_sites(kf) if kb in tg]
    payload = set()
    for bb in sites:
        pl, r = _ok_payload_locals(b, bb)
        payload |= pl or set()
        payload |= _ok_payload_locals.holders if pl else set()
    ok4 = False
    for bl in b["blocks"]:
        for st in bl["stmts"]:
            if st["k"] == "assign" and st["rv"]["k"] == "agg" and st["rv"]["kind"].get("path") == "builder::BuildResult":
                r = ch.root(st["rv"]["ops"][fields.index("code")], through_calls=False)
                pf = [e for e in r[1] if e["k"] in ("field", "downcast")]
                # pass 2's Ok value (possibly still inside the Result / ControlFlow it came in: variant 0, field 0), then its field `code`
                inner = [(e["k"], e.get("v", e.get("i"))) for e in pf]
                ok4 = r[0] in payload and inner[-1:] == [("field", f2.index("code"))] and all(x in (("downcast", 0), ("field", 0)) for x in inner[:-1])
    rep.ob("C01.glue|code->BuildResult", ok4, "BuildResult.code is moved out of pass 2's result unchanged" if ok4 else
           "BuildResult.code is not the code vector pass 2 returned")



def reduced_core_devices(P, rep):
    """Which devices get the reduced-core encodings (one-word lds/sts, r16..r31): exactly those whose shipped part-definition file
    declares the reduced core (`#pragma AVRPART CORE CORE_VERSION AVR8L_*`) must carry the Avr8l flag in the device table."""
    import glob
    import os
    import re
    import devices
    rows, problems = devices.table(P)
    if rows is None:
        rep.unprovable("C01.core|table", problems)
        return
    for pr in problems:
        rep.unprovable("C01.core|table", pr)
    n = nrc = 0
    for f in sorted(glob.glob(os.path.join(F.REPO, "includes", "*def.inc"))):
        text = open(f, encoding="latin-1").read()
        m = re.search(r"(?im)^\s*\.device\s+(\S+)", text)
        c = re.search(r"(?im)^\s*#pragma\s+AVRPART\s+CORE\s+CORE_VERSION\s+(\S+)", text)
        if not m or not c or m.group(1) not in rows:
            continue
        dev, core = m.group(1), c.group(1)
        n += 1
        reduced = core.upper().startswith("AVR8L")
        nrc += reduced
        has = "Avr8l" in rows[dev]["disable_opts"]
        rep.ob("C01.core|%s" % dev, has == reduced,
               "%s: core %s in %s, table row %s the reduced core" % (dev, core, os.path.basename(f), "selects" if has else "does not select") if has == reduced else
               "%s is a %s core according to %s, but its table row %s the reduced-core encodings (one-word lds/sts, r16..r31 only)" % (
                   dev, core, os.path.basename(f), "selects" if has else "does not select"),
               detail={"file": os.path.basename(f), "core": core, "flags": rows[dev]["disable_opts"]})
    rep.floor("devices with a shipped part-definition file naming their core", n, 44)
    rep.floor("of them reduced cores", nrc, 2)
