"""E2 — reader for the rust-peg (0.8) grammar inside the `peg::parser!{}` block of src/document.rs.

Tokenises with Rust lexical rules, parses with a re-implementation of rust-peg's meta-grammar (the constructs listed in
DESIGN.md appendix E; anything else is rejected loudly), and derives: literal sets, nullability, finite languages of `$()`
captures, ordered-choice prefix conflicts and the precedence table (level, fixity, associativity per rust-peg's translation:
`x:(@) op y:@` is left-associative; a prefix row `op v:@` at level p parses its operand at level p+1... see prec_table())."""
import itertools
import os
import re


class PegError(Exception):
    pass


# ------------------------------------------------------------------------------------------------ tokenizer
PUNCT = ["..=", "...", "<<=", ">>=", "->", "=>", "::", "==", "!=", "<=", ">=", "&&", "||", "**", "++", "--", "..", "<<", ">>",
         "+=", "-=", "*=", "/=", "%=", "^=", "&=", "|="]


def tokenize(src, start=0, end=None):
    """-> list of (kind, text, pos) ; kinds: id, str, chr, num, life, p (punctuation)"""
    toks = []
    i = start
    n = len(src) if end is None else end
    while i < n:
        c = src[i]
        if c in " \t\r\n":
            i += 1
            continue
        if src.startswith("//", i):
            j = src.find("\n", i)
            i = n if j < 0 else j
            continue
        if src.startswith("/*", i):
            depth = 1
            j = i + 2
            while j < n and depth:
                if src.startswith("/*", j):
                    depth += 1
                    j += 2
                elif src.startswith("*/", j):
                    depth -= 1
                    j += 2
                else:
                    j += 1
            i = j
            continue
        if c == '"':
            j = i + 1
            out = []
            while j < n and src[j] != '"':
                if src[j] == "\\":
                    out.append(unescape(src, j))
                    j += esc_len(src, j)
                else:
                    out.append(src[j])
                    j += 1
            toks.append(("str", "".join(out), i))
            i = j + 1
            continue
        if c == "'":
            # char literal or lifetime
            if i + 2 < n and src[i + 1] == "\\":
                ln = esc_len(src, i + 1)
                if src[i + 1 + ln] == "'":
                    toks.append(("chr", unescape(src, i + 1), i))
                    i = i + 2 + ln
                    continue
            if i + 2 < n and src[i + 2] == "'":
                toks.append(("chr", src[i + 1], i))
                i += 3
                continue
            m = re.compile(r"'[A-Za-z_][A-Za-z0-9_]*").match(src, i)
            if m:
                toks.append(("life", m.group(0), i))
                i = m.end()
                continue
            raise PegError("bad quote at %d" % i)
        m = re.compile(r"[A-Za-z_][A-Za-z0-9_]*").match(src, i)
        if m:
            toks.append(("id", m.group(0), i))
            i = m.end()
            continue
        m = re.compile(r"[0-9][0-9A-Za-z_]*").match(src, i)
        if m:
            toks.append(("num", m.group(0), i))
            i = m.end()
            continue
        for p in PUNCT:
            if src.startswith(p, i):
                toks.append(("p", p, i))
                i += len(p)
                break
        else:
            toks.append(("p", c, i))
            i += 1
    return toks


def esc_len(src, j):
    c = src[j + 1]
    if c == "x":
        return 4
    if c == "u":
        return src.index("}", j) - j + 1
    return 2


def unescape(src, j):
    c = src[j + 1]
    if c == "n":
        return "\n"
    if c == "r":
        return "\r"
    if c == "t":
        return "\t"
    if c == "0":
        return "\0"
    if c == "x":
        return chr(int(src[j + 2:j + 4], 16))
    if c == "u":
        return chr(int(src[j + 3:src.index("}", j)], 16))
    return c


# ------------------------------------------------------------------------------------------------ parser
class Parser:
    def __init__(self, toks, src):
        self.t = toks
        self.i = 0
        self.src = src

    def peek(self, k=0):
        return self.t[self.i + k] if self.i + k < len(self.t) else ("eof", "", -1)

    def at(self, text, k=0):
        tk = self.peek(k)
        return tk[0] in ("p", "id") and tk[1] == text

    def eat(self, text):
        if not self.at(text):
            raise PegError("expected %r at token %s (line %d)" % (text, self.peek(), self.line()))
        self.i += 1

    def line(self):
        pos = self.peek()[2]
        return self.src.count("\n", 0, pos) + 1 if pos >= 0 else -1

    def grammar(self):
        rules = {}
        order = []
        while self.peek()[0] != "eof":
            if self.at("#"):
                # attribute: #[...]
                self.eat("#")
                self.skip_group("[", "]")
                continue
            if self.at("use"):
                while not self.at(";"):
                    self.i += 1
                self.eat(";")
                continue
            pub = False
            if self.at("pub"):
                pub = True
                self.i += 1
            self.eat("rule")
            name = self.peek()[1]
            self.i += 1
            if self.at("("):
                self.i += 1
                if not self.at(")"):
                    raise PegError("rule arguments are not supported by this reader (rule %s)" % name)
                self.i += 1
            if self.at("<"):
                raise PegError("generic rules are not supported (rule %s)" % name)
            ret = None
            if self.at("->"):
                self.i += 1
                st = self.i
                while not self.at("="):
                    self.i += 1
                ret = " ".join(x[1] for x in self.t[st:self.i])
            self.eat("=")
            line = self.line()
            expr = self.choice()
            rules[name] = {"pub": pub, "ret": ret, "expr": expr, "line": line}
            order.append(name)
        return rules, order

    def skip_group(self, o, c):
        self.eat(o)
        depth = 1
        while depth:
            if self.at(o):
                depth += 1
            elif self.at(c):
                depth -= 1
            self.i += 1

    def starts_item(self):
        return self.at("rule") or (self.at("pub") and self.at("rule", 1)) or self.at("#") or self.at("use")

    def choice(self):
        alts = [self.sequence()]
        while self.at("/"):
            self.i += 1
            alts.append(self.sequence())
        if len(alts) == 1:
            return alts[0]
        return ("choice", alts)

    def sequence(self):
        elems = []
        action = None
        while True:
            tk = self.peek()
            if tk[0] == "eof" or self.at("/") or self.at(")") or self.at("}") or self.starts_item() or self.at("--"):
                break
            if self.at("{"):
                action = self.action()
                break
            label = None
            if tk[0] == "id" and self.at(":", 1) and not self.at("::", 1):
                label = tk[1]
                self.i += 2
            elems.append((label, self.suffixed()))
        return ("seq", elems, action)

    def action(self):
        cond = False
        st_tok = self.i
        self.eat("{")
        if self.at("?"):
            cond = True
            self.i += 1
        depth = 1
        body_start = self.i
        while depth:
            if self.at("{"):
                depth += 1
            elif self.at("}"):
                depth -= 1
            self.i += 1
        toks = self.t[body_start:self.i - 1]
        return {"cond": cond, "toks": toks, "text": self.src[self.t[st_tok][2]:self.t[self.i - 1][2] + 1]}

    def suffixed(self):
        node = self.prefixed()
        while True:
            if self.at("?"):
                self.i += 1
                node = ("opt", node)
            elif self.at("**") or self.at("++"):
                plus = self.at("++")
                self.i += 1
                lo, hi = self.bounds()
                sep = self.primary()
                node = ("rep", node, (1 if plus else 0) if lo is None else lo, hi, sep)
            elif self.at("*") or self.at("+"):
                plus = self.at("+")
                self.i += 1
                lo, hi = self.bounds()
                node = ("rep", node, (1 if plus else 0) if lo is None else lo, hi, None)
            else:
                break
        return node

    def bounds(self):
        if not self.at("<"):
            return None, None
        self.i += 1
        lo = hi = None
        if self.peek()[0] == "num":
            lo = int(self.peek()[1])
            self.i += 1
            hi = lo
        if self.at(","):
            self.i += 1
            hi = None
            if self.peek()[0] == "num":
                hi = int(self.peek()[1])
                self.i += 1
            if lo is None:
                lo = 0
        self.eat(">")
        return lo, hi

    def prefixed(self):
        if self.at("$"):
            self.i += 1
            return ("slice", self.primary())
        if self.at("!"):
            self.i += 1
            return ("not", self.suffixed_noloop())
        if self.at("&"):
            self.i += 1
            return ("and", self.suffixed_noloop())
        return self.primary()

    def suffixed_noloop(self):
        return self.prefixed()

    def primary(self):
        tk = self.peek()
        if tk[0] == "str":
            self.i += 1
            return ("lit", tk[1])
        if self.at("["):
            return self.char_class()
        if self.at("("):
            self.i += 1
            e = self.choice()
            self.eat(")")
            return ("group", e)
        if self.at("@"):
            self.i += 1
            return ("@",)
        if tk[0] == "id" and tk[1] == "precedence" and self.at("!", 1):
            self.i += 2
            return self.precedence()
        if tk[0] == "id" and self.at("!", 1):
            raise PegError("unsupported peg macro %s!() at line %d" % (tk[1], self.line()))
        if tk[0] == "id" and self.at("(", 1):
            self.i += 2
            if not self.at(")"):
                raise PegError("rule call with arguments (%s) is not supported" % tk[1])
            self.eat(")")
            return ("call", tk[1])
        if self.at("#"):
            raise PegError("##method calls are not supported")
        raise PegError("unexpected token %s at line %d" % (tk, self.line()))

    def char_class(self):
        self.eat("[")
        neg = False
        if self.at("^"):
            neg = True
            self.i += 1
        ranges = []
        anyc = False
        while not self.at("]"):
            tk = self.peek()
            if tk[0] == "id" and tk[1] == "_":
                anyc = True
                self.i += 1
            elif tk[0] == "chr":
                lo = tk[1]
                self.i += 1
                hi = lo
                if self.at("..="):
                    self.i += 1
                    hi = self.peek()[1]
                    self.i += 1
                ranges.append((lo, hi))
            else:
                raise PegError("unsupported pattern element %s in [...] at line %d" % (tk, self.line()))
            if self.at("|"):
                self.i += 1
        self.eat("]")
        return ("class", tuple(ranges), neg, anyc)

    def precedence(self):
        self.eat("{")
        levels = [[]]
        while not self.at("}"):
            if self.at("--"):
                self.i += 1
                levels.append([])
                continue
            elems = []
            while not self.at("{"):
                label = None
                tk = self.peek()
                if tk[0] == "id" and self.at(":", 1) and not self.at("::", 1):
                    label = tk[1]
                    self.i += 2
                if self.at("(") and self.at("@", 1) and self.at(")", 2):
                    self.i += 3
                    elems.append((label, ("(@)",)))
                    continue
                elems.append((label, self.suffixed()))
            act = self.action()
            levels[-1].append({"elems": elems, "action": act, "line": self.line()})
        self.eat("}")
        return ("prec", levels)


# ------------------------------------------------------------------------------------------------ locate + load
def load(path):
    src = open(path).read()
    toks = tokenize(src)
    # find  parser ! { ... grammar NAME ( ) for TYPE { RULES } }
    gi = None
    for i, tk in enumerate(toks):
        if tk[0] == "id" and tk[1] == "grammar" and i >= 1:
            gi = i
            break
    if gi is None:
        raise PegError("no `grammar` item found in %s" % path)
    j = gi
    while not (toks[j][0] == "p" and toks[j][1] == "{"):
        j += 1
    depth = 0
    k = j
    while True:
        if toks[k][0] == "p" and toks[k][1] == "{":
            depth += 1
        elif toks[k][0] == "p" and toks[k][1] == "}":
            depth -= 1
            if depth == 0:
                break
        k += 1
    body = toks[j + 1:k]
    p = Parser(body, src)
    rules, order = p.grammar()
    return Grammar(rules, order, src, path)


class Grammar:
    def __init__(self, rules, order, src, path):
        self.rules = rules
        self.order = order
        self.src = src
        self.path = path
        self._null = {}
        self._lang = {}

    # ---- literals
    def literals(self, node, acc=None):
        if acc is None:
            acc = []
        k = node[0]
        if k == "lit":
            acc.append(node[1])
        elif k == "choice":
            for a in node[1]:
                self.literals(a, acc)
        elif k == "seq":
            for _, e in node[1]:
                self.literals(e, acc)
        elif k in ("opt", "slice", "not", "and", "group"):
            self.literals(node[1], acc)
        elif k == "rep":
            self.literals(node[1], acc)
            if node[4] is not None:
                self.literals(node[4], acc)
        elif k == "prec":
            for lv in node[1]:
                for row in lv:
                    for _, e in row["elems"]:
                        self.literals(e, acc)
        return acc

    def calls(self, node, acc=None):
        if acc is None:
            acc = []
        k = node[0]
        if k == "call":
            acc.append(node[1])
        elif k == "choice":
            for a in node[1]:
                self.calls(a, acc)
        elif k == "seq":
            for _, e in node[1]:
                self.calls(e, acc)
        elif k in ("opt", "slice", "not", "and", "group"):
            self.calls(node[1], acc)
        elif k == "rep":
            self.calls(node[1], acc)
            if node[4] is not None:
                self.calls(node[4], acc)
        elif k == "prec":
            for lv in node[1]:
                for row in lv:
                    for _, e in row["elems"]:
                        self.calls(e, acc)
        return acc

    # ---- nullable
    def nullable(self, node, stack=()):
        k = node[0]
        if k == "lit":
            return node[1] == ""
        if k == "class":
            return False
        if k == "call":
            if node[1] in stack:
                return False
            if node[1] not in self._null:
                r = self.rules.get(node[1])
                self._null[node[1]] = self.nullable(r["expr"], stack + (node[1],)) if r else False
            return self._null[node[1]]
        if k == "choice":
            return any(self.nullable(a, stack) for a in node[1])
        if k == "seq":
            return all(self.nullable(e, stack) for _, e in node[1])
        if k in ("opt", "not", "and"):
            return True
        if k in ("slice", "group"):
            return self.nullable(node[1], stack)
        if k == "rep":
            return node[2] == 0 or self.nullable(node[1], stack)
        if k == "prec":
            return False
        if k in ("@", "(@)"):
            return False
        return False

    # ---- finite language (set of strings) or None
    def lang(self, node, limit=5000, stack=()):
        k = node[0]
        if k == "lit":
            return {node[1]}
        if k == "class":
            if node[2] or node[3]:
                return None
            out = set()
            for lo, hi in node[1]:
                for c in range(ord(lo), ord(hi) + 1):
                    out.add(chr(c))
            return out
        if k == "call":
            if node[1] in stack:
                return None
            r = self.rules.get(node[1])
            return self.lang(r["expr"], limit, stack + (node[1],)) if r else None
        if k == "choice":
            out = set()
            for a in node[1]:
                l = self.lang(a, limit, stack)
                if l is None:
                    return None
                out |= l
            return out
        if k == "seq":
            cur = {""}
            for _, e in node[1]:
                if e[0] in ("not", "and"):
                    continue
                l = self.lang(e, limit, stack)
                if l is None:
                    return None
                cur = {a + b for a in cur for b in l}
                if len(cur) > limit:
                    return None
            return cur
        if k in ("slice", "group"):
            return self.lang(node[1], limit, stack)
        if k == "opt":
            l = self.lang(node[1], limit, stack)
            return None if l is None else l | {""}
        if k == "rep":
            if node[3] is None or node[4] is not None:
                return None
            l = self.lang(node[1], limit, stack)
            if l is None:
                return None
            out = set()
            for n in range(node[2], node[3] + 1):
                cur = {""}
                for _ in range(n):
                    cur = {a + b for a in cur for b in l}
                    if len(cur) > limit:
                        return None
                out |= cur
            return out
        return None

    def find(self, node, pred, acc=None):
        if acc is None:
            acc = []
        if pred(node):
            acc.append(node)
        k = node[0]
        if k == "choice":
            for a in node[1]:
                self.find(a, pred, acc)
        elif k == "seq":
            for _, e in node[1]:
                self.find(e, pred, acc)
        elif k in ("opt", "slice", "not", "and", "group"):
            self.find(node[1], pred, acc)
        elif k == "rep":
            self.find(node[1], pred, acc)
            if node[4] is not None:
                self.find(node[4], pred, acc)
        elif k == "prec":
            for lv in node[1]:
                for row in lv:
                    for _, e in row["elems"]:
                        self.find(e, pred, acc)
        return acc

    # ---- ordered choice: an earlier literal that is a proper prefix of a later one shadows it when the rule is anchored
    def prefix_conflicts(self, node):
        out = []
        for ch in self.find(node, lambda n: n[0] == "choice"):
            lits = []
            for a in ch[1]:
                if a[0] == "seq" and len(a[1]) == 1 and a[1][0][1][0] == "lit" and a[2] is None:
                    lits.append(a[1][0][1][1])
                elif a[0] == "lit":
                    lits.append(a[1])
                else:
                    lits.append(None)
            for i, x in enumerate(lits):
                if x is None:
                    continue
                for y in lits[i + 1:]:
                    if y is not None and y != x and y.startswith(x):
                        out.append((x, y))
        return out

    # ---- precedence table
    def prec_table(self, rule):
        """-> list of rows {level, kind: infix|prefix|postfix|atom, token(s), assoc, action tokens, elems}
        rust-peg translation: level index grows with binding strength; an infix row `l:(@) .. r:@` parses the left operand at the
        same level (left-assoc) and the right one at level+1; `l:@ .. r:(@)` is right-assoc; a prefix row `op v:@` recurses at
        level+1?  No: in rust-peg a prefix operator row at level p parses `@` at the *same* minimum level p when written `@`...
        The generated code (peg-macros translate.rs) uses:  (@) -> same level, @ -> next level, for infix/prefix alike, except that
        for a *prefix* row the operand marked `@` is parsed at the row's own level (so `-x` nests) — what matters for binding
        strength is only the row's level relative to the infix levels, which this table reports."""
        node = self.rules[rule]["expr"]
        precs = self.find(node, lambda n: n[0] == "prec")
        if len(precs) != 1:
            raise PegError("rule %s has %d precedence! blocks" % (rule, len(precs)))
        rows = []
        for li, lv in enumerate(precs[0][1]):
            for row in lv:
                elems = row["elems"]
                kinds = [e[1][0] for e in elems]
                first, last = kinds[0], kinds[-1]
                lits = [e[1][1] for e in elems if e[1][0] == "lit"]
                if first in ("@", "(@)") and last in ("@", "(@)") and len(elems) >= 3:
                    kind = "infix"
                    assoc = "left" if first == "(@)" and last == "@" else ("right" if first == "@" and last == "(@)" else "none/ambiguous")
                elif last in ("@", "(@)") and first not in ("@", "(@)"):
                    kind = "prefix"
                    assoc = None
                elif first in ("@", "(@)") and last not in ("@", "(@)"):
                    kind = "postfix"
                    assoc = None
                else:
                    kind = "atom"
                    assoc = None
                rows.append({"level": li, "kind": kind, "assoc": assoc, "tokens": lits, "elems": elems, "action": row["action"], "line": row["line"]})
        return rows


def action_paths(action):
    """`A::B::C` path expressions and literals occurring in an action block"""
    toks = action["toks"]
    paths = []
    i = 0
    while i < len(toks):
        if toks[i][0] == "id":
            parts = [toks[i][1]]
            j = i + 1
            while j + 1 < len(toks) and toks[j][0] == "p" and toks[j][1] == "::" and toks[j + 1][0] == "id":
                parts.append(toks[j + 1][1])
                j += 2
            paths.append("::".join(parts))
            i = j
        else:
            i += 1
    nums = [t[1] for t in toks if t[0] == "num"]
    strs = [t[1] for t in toks if t[0] == "str"]
    return paths, nums, strs


if __name__ == "__main__":
    import sys
    g = load(sys.argv[1] if len(sys.argv) > 1 else "/repo/src/document.rs")
    print(len(g.rules), "rules:", g.order)
    for r in g.prec_table("expr"):
        print(r["level"], r["kind"], r["assoc"], r["tokens"], action_paths(r["action"])[0][:6])
    print(sorted(g.lang(g.rules["reg8"]["expr"]))[:12], len(g.lang(g.rules["reg8"]["expr"])))
    print(g.prefix_conflicts(g.rules["op"]["expr"]))


# ------------------------------------------------------------------------------------------------ matcher (PEG semantics on the AST)
class Caps(dict):
    """label -> matched text; `slices` names the labels that capture text itself (`x:$(..)`) rather than the value of a rule call"""
    def __init__(self):
        dict.__init__(self)
        self.slices = set()


class MatchTrace:
    """what a successful match went through: (rule, action text, {label: captured text}) for every sequence with an action"""
    def __init__(self):
        self.actions = []
        self.unknown_conditions = []


def peg_match(g, node, s, pos, tr, cond=None, rule=None, depth=0):
    """PEG match of `node` on s at pos: end position or None.  Ordered choice, greedy repetition, no backtracking into a
    finished choice - the semantics rust-peg implements.  `cond(rule, action, caps)` decides `{? }` actions (None = unknown)."""
    if depth > 200:
        return None
    k = node[0]
    if k == "lit":
        return pos + len(node[1]) if s.startswith(node[1], pos) else None
    if k == "class":
        if pos >= len(s):
            return None
        c = s[pos]
        hit = node[3] or any(lo <= c <= hi for lo, hi in node[1])
        if node[2]:
            hit = not hit
        return pos + 1 if hit else None
    if k == "call":
        r = g.rules.get(node[1])
        if r is None:
            return None
        return peg_match(g, r["expr"], s, pos, tr, cond, node[1], depth + 1)
    if k == "choice":
        for a in node[1]:
            mark = len(tr.actions)
            e = peg_match(g, a, s, pos, tr, cond, rule, depth + 1)
            if e is not None:
                return e
            del tr.actions[mark:]
        return None
    if k == "seq":
        cur = pos
        caps = Caps()
        mark = len(tr.actions)
        for lab, e in node[1]:
            end = peg_match(g, e, s, cur, tr, cond, rule, depth + 1)
            if end is None:
                del tr.actions[mark:]
                return None
            if lab:
                caps[lab] = s[cur:end]
                if e[0] == "slice":
                    caps.slices.add(lab)
            cur = end
        if node[2] is not None:
            if node[2]["cond"]:
                v = cond(rule, node[2], caps) if cond else None
                if v is None:
                    tr.unknown_conditions.append((rule, node[2]["text"]))
                elif not v:
                    del tr.actions[mark:]
                    return None
            tr.actions.append((rule, node[2]["text"], caps))
        return cur
    if k in ("slice", "group"):
        return peg_match(g, node[1], s, pos, tr, cond, rule, depth + 1)
    if k == "opt":
        e = peg_match(g, node[1], s, pos, tr, cond, rule, depth + 1)
        return pos if e is None else e
    if k == "not":
        mark = len(tr.actions)
        e = peg_match(g, node[1], s, pos, tr, cond, rule, depth + 1)
        del tr.actions[mark:]
        return pos if e is None else None
    if k == "and":
        mark = len(tr.actions)
        e = peg_match(g, node[1], s, pos, tr, cond, rule, depth + 1)
        del tr.actions[mark:]
        return pos if e is not None else None
    if k == "rep":
        cur = pos
        n = 0
        while node[3] is None or n < node[3]:
            start = cur
            if n > 0 and node[4] is not None:
                e = peg_match(g, node[4], s, cur, tr, cond, rule, depth + 1)
                if e is None:
                    break
                cur2 = e
            else:
                cur2 = cur
            e = peg_match(g, node[1], s, cur2, tr, cond, rule, depth + 1)
            if e is None:
                cur = start
                break
            if e == start:
                break
            cur = e
            n += 1
        return cur if n >= node[2] else None
    if k == "prec":
        return _prec_match(g, node, s, pos, 0, tr, cond, rule, depth + 1)
    return None


def _prec_rows(node):
    """rust-peg's translation of precedence!{}: rows that start with an operand marker are tried after an operand has been parsed
    (infix / postfix, gated by their level), all others before it (prefix operators and atoms, in source order, not gated)."""
    pre, post = [], []
    for li, lv in enumerate(node[1]):
        for row in lv:
            el = row["elems"]
            first, last = el[0][1][0], el[-1][1][0]
            if first in ("@", "(@)") and last in ("@", "(@)") and len(el) >= 3:
                # left-assoc  x:(@) .. y:@  parses y one level up, right-assoc  x:@ .. y:(@)  at the same level
                post.append((li, "infix", li + 1 if (first, last) == ("(@)", "@") else li, row))
            elif first in ("@", "(@)") and len(el) >= 2:
                post.append((li, "postfix", None, row))
            elif last in ("@", "(@)") and len(el) >= 2:
                pre.append((li, "prefix", li if last == "(@)" else li + 1, row))
            else:
                pre.append((li, "atom", None, row))
    return pre, post


def _prec_elems(g, elems, s, pos, tr, cond, rule, depth, caps):
    cur = pos
    for lab, e in elems:
        end = peg_match(g, e, s, cur, tr, cond, rule, depth)
        if end is None:
            return None
        if lab:
            caps[lab] = s[cur:end]
            if e[0] == "slice":
                caps.slices.add(lab)
        cur = end
    return cur


def _prec_action(row, rule, caps, tr, cond, mark):
    act = row["action"]
    if act is not None:
        if act["cond"]:
            v = cond(rule, act, caps) if cond else None
            if v is None:
                tr.unknown_conditions.append((rule, act["text"]))
            elif not v:
                del tr.actions[mark:]
                return False
        tr.actions.append((rule, act["text"], caps))
    return True


def _prec_match(g, node, s, pos, min_prec, tr, cond, rule, depth):
    if depth > 200:
        return None
    pre, post = _prec_rows(node)
    cur = None
    start = pos
    for li, kind, nxt, row in pre:
        mark = len(tr.actions)
        caps = Caps()
        el = row["elems"]
        body = el[:-1] if kind == "prefix" else el
        e = _prec_elems(g, body, s, pos, tr, cond, rule, depth + 1, caps)
        if e is not None and kind == "prefix":
            e2 = _prec_match(g, node, s, e, nxt, tr, cond, rule, depth + 1)
            if e2 is not None and el[-1][0]:
                caps[el[-1][0]] = s[e:e2]
            e = e2
        if e is not None and _prec_action(row, rule, caps, tr, cond, mark):
            cur = e
            break
        del tr.actions[mark:]
    if cur is None:
        return None
    while True:
        advanced = False
        for li, kind, nxt, row in post:
            if li < min_prec:
                continue
            mark = len(tr.actions)
            el = row["elems"]
            caps = Caps()
            if el[0][0]:
                caps[el[0][0]] = s[start:cur]
            body = el[1:-1] if kind == "infix" else el[1:]
            e = _prec_elems(g, body, s, cur, tr, cond, rule, depth + 1, caps)
            if e is not None and kind == "infix":
                e2 = _prec_match(g, node, s, e, nxt, tr, cond, rule, depth + 1)
                if e2 is not None and el[-1][0]:
                    caps[el[-1][0]] = s[e:e2]
                e = e2
            if e is not None and _prec_action(row, rule, caps, tr, cond, mark):
                cur = e
                advanced = True
                break
            del tr.actions[mark:]
        if not advanced:
            return cur


def full_match(g, rule, s, cond=None):
    """match the whole of s with a (pub) rule: MatchTrace or None"""
    tr = MatchTrace()
    e = peg_match(g, ("call", rule), s, 0, tr, cond)
    return tr if e == len(s) else None
