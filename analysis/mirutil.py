"""Small def-use helpers over one MIR body (flow-insensitive, single-definition chasing)."""


def op_place(o):
    if not isinstance(o, dict):
        return None
    return o.get("move") or o.get("copy")


def defs_of(body):
    """local -> list of definitions: ('stmt', bb, rv, span) | ('call', bb, term, span) ; only whole-local assignments."""
    d = {}
    for bi, bl in enumerate(body["blocks"]):
        for st in bl["stmts"]:
            if st["k"] == "assign" and not st["place"]["proj"]:
                d.setdefault(st["place"]["local"], []).append(("stmt", bi, st["rv"], st["span"]))
        t = bl["term"]
        if t["k"] == "call" and not t["dest"]["proj"]:
            d.setdefault(t["dest"]["local"], []).append(("call", bi, t, bl["tspan"]))
    return d


def partial_defs(body):
    """local -> True if some statement assigns through a projection of it (field-wise init / deref write)."""
    d = set()
    for bl in body["blocks"]:
        for st in bl["stmts"]:
            if st["k"] == "assign" and st["place"]["proj"]:
                d.add(st["place"]["local"])
    return d


class Chaser:
    """Follows copies / reborrows / transparent calls back to a root place."""

    # calls that return (a reference to) their first argument's referent unchanged
    TRANSPARENT = (
        "<std::rc::Rc<T, A> as std::ops::Deref>::deref", "<std::cell::Ref<'_, T> as std::ops::Deref>::deref",
        "<std::cell::RefMut<'_, T> as std::ops::Deref>::deref", "<std::cell::RefMut<'_, T> as std::ops::DerefMut>::deref_mut",
        "<std::vec::Vec<T, A> as std::ops::Deref>::deref", "<std::string::String as std::ops::Deref>::deref",
        "<std::boxed::Box<T, A> as std::ops::Deref>::deref", "std::string::String::as_str", "<std::path::PathBuf as std::ops::Deref>::deref",
        "std::path::PathBuf::as_path", "<std::rc::Rc<T, A> as std::convert::AsRef<T>>::as_ref", "std::cell::RefCell::<T>::borrow",
        "std::cell::RefCell::<T>::borrow_mut", "<I as std::iter::IntoIterator>::into_iter", "std::convert::identity",
        "<std::sync::LazyLock<T, F> as std::ops::Deref>::deref", "std::option::Option::<T>::as_ref",
    )

    def __init__(self, body, transparent=None):
        self.body = body
        self.defs = defs_of(body)
        self.nargs = body["arg_count"]
        self.transparent = set(transparent if transparent is not None else self.TRANSPARENT)

    def single_def(self, local):
        ds = self.defs.get(local, [])
        if len(ds) == 1:
            return ds[0]
        return None

    def root(self, o, through_calls=True, depth=0):
        """Return (root_local, [projection...], [trail of callee names]) for an operand or place, chasing single definitions."""
        pl = o if "local" in o else op_place(o)
        if pl is None:
            return None, [], []
        local = pl["local"]
        proj = list(pl["proj"])
        trail = []
        for _ in range(64):
            if 1 <= local <= self.nargs:
                break
            d = self.single_def(local)
            if d is None:
                break
            kind, bi, x, sp = d
            if kind == "stmt":
                rv = x
                if rv["k"] == "use":
                    p2 = op_place(rv["op"])
                    if p2 is None:
                        break
                    local, proj = p2["local"], list(p2["proj"]) + proj
                elif rv["k"] in ("ref", "addr"):
                    p2 = rv["place"]
                    # &(*x).f  followed by a deref projection cancels out
                    np = list(p2["proj"])
                    if proj and proj[0]["k"] == "deref":
                        proj = proj[1:]
                    else:
                        np = np + [{"k": "addrof"}]
                    local, proj = p2["local"], np + proj
                elif rv["k"] == "cast":
                    p2 = op_place(rv["op"])
                    if p2 is None:
                        break
                    local, proj = p2["local"], list(p2["proj"]) + proj
                else:
                    break
            else:
                if not through_calls:
                    break
                c = x["callee"]
                name = c.get("rpath") or c.get("path") or ""
                if name in self.transparent and x["args"]:
                    p2 = op_place(x["args"][0])
                    if p2 is None:
                        break
                    trail.append(name)
                    local, proj = p2["local"], list(p2["proj"]) + [{"k": "via", "name": name}] + proj
                else:
                    break
        return local, proj, trail

    def def_call(self, o):
        """If the operand's (chased) root is the destination of a call, return that call terminator, else None."""
        local, proj, _ = self.root(o, through_calls=True)
        d = self.single_def(local)
        if d and d[0] == "call":
            return d[2]
        return None


def proj_fields(proj):
    """Field path of a projection list, ignoring deref/addrof/via/downcast markers: e.g. [2, 0]."""
    return [e["i"] for e in proj if e["k"] == "field"]


def callee_names(term):
    c = term["callee"]
    return (c.get("rfull") or c.get("full") or ""), (c.get("rpath") or c.get("path") or "")


def result_edges(body, call_bb):
    """For a Call terminator whose destination is a Result, find where its success and failure continue.

    Recognised idioms: `match r {Ok.. Err..}` / `if let` (switch on discriminant(dest)), `r?` (Try::branch + switch on the
    ControlFlow), `.unwrap()` / `.expect()` (failure = panic).  Returns dict(ok=bb|None, err=bb|None, how=str) or None."""
    t = body["blocks"][call_bb]["term"]
    dest = t["dest"]["local"]
    cur = t["target"]
    seen = set()
    holder = {dest}
    while cur is not None and cur not in seen:
        seen.add(cur)
        bl = body["blocks"][cur]
        dlocal = None
        for st in bl["stmts"]:
            if st["k"] != "assign":
                continue
            rv = st["rv"]
            if rv["k"] == "discr" and rv["place"]["local"] in holder and not rv["place"]["proj"]:
                dlocal = st["place"]["local"]
            elif rv["k"] == "use" and not st["place"]["proj"]:
                p = op_place(rv["op"])
                if p and p["local"] in holder and not p["proj"]:
                    holder.add(st["place"]["local"])
        tt = bl["term"]
        if tt["k"] == "switch" and dlocal is not None:
            p = op_place(tt["discr"])
            if p and p["local"] == dlocal:
                tg = dict((int(v), b) for v, b in tt["targets"])
                ok = tg.get(0)
                err = tg.get(1)
                if ok is None and err is not None:
                    ok = tt["otherwise"]
                if err is None and ok is not None:
                    err = tt["otherwise"]
                return {"ok": ok, "err": err, "how": "match", "switch_bb": cur}
        if tt["k"] == "call":
            full, rp = callee_names(tt)
            a0 = op_place(tt["args"][0]) if tt["args"] else None
            if a0 and a0["local"] in holder:
                if rp.endswith("as std::ops::Try>::branch"):
                    holder = {tt["dest"]["local"]}
                    cur = tt["target"]
                    # next block switches on the ControlFlow discriminant: 0 = Continue, 1 = Break
                    r = result_edges_from_holder(body, cur, holder)
                    if r:
                        r["how"] = "?"
                    return r
                if rp in ("std::result::Result::<T, E>::unwrap", "std::result::Result::<T, E>::expect"):
                    return {"ok": tt["target"], "err": None, "how": "unwrap (failure panics)", "switch_bb": cur}
            if tt.get("target") is None:
                return None
            cur = tt["target"]
            continue
        if tt["k"] in ("goto", "drop", "assert"):
            cur = tt["target"]
            continue
        return None
    return None


def result_edges_from_holder(body, cur, holder):
    seen = set()
    while cur is not None and cur not in seen:
        seen.add(cur)
        bl = body["blocks"][cur]
        dlocal = None
        for st in bl["stmts"]:
            if st["k"] == "assign" and st["rv"]["k"] == "discr" and st["rv"]["place"]["local"] in holder and not st["rv"]["place"]["proj"]:
                dlocal = st["place"]["local"]
        tt = bl["term"]
        if tt["k"] == "switch" and dlocal is not None:
            tg = dict((int(v), b) for v, b in tt["targets"])
            return {"ok": tg.get(0), "err": tg.get(1), "how": "switch", "switch_bb": cur}
        if tt["k"] in ("goto", "drop"):
            cur = tt["target"]
            continue
        return None
    return None


def backward_slice(body, start_ops):
    """Flow-insensitive backward slice over locals: returns (locals, consts, calls) that may influence the operands.
    Mutation through `&mut l` passed to a call pulls in that call's other arguments."""
    defs = {}
    muts = {}   # local -> [call terminators receiving &mut local]
    refs = {}   # ref local -> (referenced local, is_mut)
    for bl in body["blocks"]:
        for st in bl["stmts"]:
            if st["k"] != "assign":
                continue
            defs.setdefault(st["place"]["local"], []).append(("stmt", st["rv"]))
            if st["rv"]["k"] == "ref" and not st["place"]["proj"]:
                refs[st["place"]["local"]] = (st["rv"]["place"]["local"], st["rv"]["mut"])
        t = bl["term"]
        if t["k"] == "call":
            defs.setdefault(t["dest"]["local"], []).append(("call", t))
    # mutable views obtained through deref-like calls (Vec::deref_mut, RefCell::borrow_mut, ...) alias the same local
    VIEW = ("deref_mut", "as_mut", "as_mut_slice", "borrow_mut", "iter_mut", "as_mut_str", "get_mut")
    view_of = {}     # local holding a mutable view -> local holding the reference it was derived from
    for bl in body["blocks"]:
        t = bl["term"]
        if t["k"] == "call" and t["args"] and not t["dest"]["proj"]:
            nm = (t["callee"].get("rpath") or t["callee"].get("path") or "").rsplit("::", 1)[-1]
            p = op_place(t["args"][0])
            if nm in VIEW and p:
                view_of[t["dest"]["local"]] = p["local"]
        for st in bl["stmts"]:
            if st["k"] == "assign" and not st["place"]["proj"] and st["rv"]["k"] in ("use", "cast"):
                p = op_place(st["rv"]["op"])
                if p and not p["proj"]:
                    view_of.setdefault(st["place"]["local"], p["local"])

    def base_of(l, depth=0):
        """the local ultimately mutated through reference-local l (or None)"""
        if depth > 12:
            return None
        if l in refs:
            tgt, is_mut = refs[l]
            if not is_mut:
                return None
            # &mut (*view)  -> follow the view
            if tgt in view_of or tgt in refs:
                deeper = base_of(tgt, depth + 1) if tgt in refs else base_of(view_of[tgt], depth + 1)
                return deeper if deeper is not None else tgt
            return tgt
        if l in view_of:
            return base_of(view_of[l], depth + 1)
        return None

    for bl in body["blocks"]:
        t = bl["term"]
        if t["k"] == "call":
            for a in t["args"]:
                p = op_place(a)
                if p:
                    base = base_of(p["local"])
                    if base is not None:
                        muts.setdefault(base, []).append(t)
    locs = set()
    consts = []
    calls = []
    places = []
    work = []

    def push_op(o):
        if "const" in o:
            consts.append(o["const"])
        else:
            p = op_place(o)
            if p:
                places.append(p)
                work.append(p["local"])
                for e in p["proj"]:
                    if e["k"] == "index":
                        work.append(e["local"])

    for o in start_ops:
        push_op(o)
    seen_calls = set()
    while work:
        l = work.pop()
        if l in locs:
            continue
        locs.add(l)
        for kind, d in defs.get(l, []):
            if kind == "stmt":
                rv = d
                for f in ("op", "l", "r", "o"):
                    if f in rv and isinstance(rv[f], dict):
                        push_op(rv[f])
                if rv["k"] == "agg":
                    for o in rv["ops"]:
                        push_op(o)
                if rv["k"] in ("ref", "addr", "discr"):
                    places.append(rv["place"])
                    work.append(rv["place"]["local"])
            else:
                if id(d) not in seen_calls:
                    seen_calls.add(id(d))
                    calls.append(d)
                for a in d["args"]:
                    push_op(a)
        for d in muts.get(l, []):
            if id(d) not in seen_calls:
                seen_calls.add(id(d))
                calls.append(d)
            for a in d["args"]:
                push_op(a)
    return locs, consts, calls, places


def chase_fields(ch, o, limit=12):
    """like Chaser.root, but when the root is a tuple/struct aggregate and the remaining projection selects a field, continue with
    that field's operand (format_args! passes its arguments through a tuple of references)"""
    cur = o
    for _ in range(limit):
        root, proj, trail = ch.root(cur, through_calls=False)
        d = ch.single_def(root)
        fs = [e for e in proj if e["k"] == "field"]
        if d and d[0] == "stmt" and d[2]["k"] == "agg" and fs and fs[0]["i"] < len(d[2]["ops"]):
            nxt = d[2]["ops"][fs[0]["i"]]
            if "const" in nxt:
                return None, [], nxt
            cur = nxt
            continue
        return root, proj, None
    return None, [], None


def root_through_tuples(ch, op, through_calls=True):
    """Chaser.root that also steps through  t = (a, b, ..); t.i  (format_args! packs its arguments in a tuple, `let (a, b) = (x, y)`)"""
    r = ch.root(op, through_calls=through_calls)
    for _ in range(6):
        if r[0] is None or not r[1] or r[1][0]["k"] != "field":
            break
        d = ch.single_def(r[0])
        if not (d and d[0] == "stmt" and d[2]["k"] == "agg" and d[2]["kind"].get("k") == "tuple" and r[1][0]["i"] < len(d[2]["ops"])):
            break
        rest = r[1][1:]
        r2 = ch.root(d[2]["ops"][r[1][0]["i"]], through_calls=through_calls)
        r = (r2[0], list(r2[1]) + rest, r2[2])
    return r
