"""C18 — the command-line tool writes what the library built, or fails visibly.

Control-flow clauses on the MIR of the binary's `main` and of the two writers (DESIGN.md §4 C18):
  exit     every failure edge (build_file Err, write_*_hex Err) reaches no normal return of main without passing
           process::exit(non-zero) / a panic (main returns (), i.e. status 0, on a normal return);
  report   each failure edge prints the error value before leaving;
  nowrite  nothing that can create a file is reachable before the build succeeded; inside each writer File::create
           is dominated by successful generation;
  paths    -o / -e are honoured and the defaults are <parent>/<stem>.hex and <parent>/<stem>.eep.hex;
  content  both writers receive the BuildResult of this run's build_file and each writes its own image field.
"""
import re

import facts as F
import graph as G
import mirutil as MU
from common import Reporter, loc_of

FILE_CREATORS = re.compile(r"^std::fs::(File::create|File::create_new|OpenOptions::open|write|remove_file|rename|copy|File::options)\b")


def terminates(P, key, t):
    """Is this call terminator a process-ending call with a non-zero status (or a panic)?"""
    if t["k"] != "call":
        return None
    full, rp = MU.callee_names(t)
    if rp == "std::process::exit":
        a = t["args"][0]
        if "const" in a and "int" in a["const"]:
            v = int(a["const"]["int"])
            return "exit(%d)" % v if v != 0 else None
        return None
    if rp in ("std::process::abort",) or "panicking::" in rp or rp.startswith("std::rt::begin_panic") or "panic_fmt" in rp \
            or rp.endswith("::unwrap_failed") or rp.endswith("::expect_failed"):
        return "panic"
    return None


def may_create_file(P, key, t, memo):
    """Does the callee (transitively, over resolved local callees) reach a std function that creates or alters a file?"""
    full, rp = MU.callee_names(t)
    if FILE_CREATORS.match(rp) or FILE_CREATORS.match(full):
        return rp
    for _, term, name, targets in [(0, t, "", None)]:
        pass
    tg = []
    for bb, term, name, targets in P.call_sites(key):
        if term is t:
            tg = targets
    for k2 in tg:
        if k2 in memo:
            if memo[k2]:
                return memo[k2]
            continue
        memo[k2] = None
        for k3 in P.reachable([k2]):
            for bb, term, name, targets in P.call_sites(k3):
                f2, r2 = MU.callee_names(term)
                if FILE_CREATORS.match(r2) or FILE_CREATORS.match(f2):
                    memo[k2] = "%s via %s" % (r2, k3)
        if memo[k2]:
            return memo[k2]
    return None


def run(tier):
    rep = Reporter("C18", tier, "other", "control-flow / dominance rules on the MIR of main and the hex writers")
    rep.explanation = ("Decides the exit-status, reporting, no-output-on-failure, default-path and content clauses of C18 as path and "
                       "dominance facts on the MIR of the binary's main() and of write_code_hex/write_eeprom_hex: every failure edge "
                       "must pass process::exit(non-zero) or a panic before any normal return, must print the error, nothing that can "
                       "create a file may be reachable unless dominated by the build's success edge, and the path/content flow of each "
                       "writer call is traced by a backward slice. Not decided: option parsing (structopt), real file-system outcomes, "
                       "whether an empty flash image should still produce a file.")
    rep.assumptions = ["a normal return from `fn main()` is exit status 0; process::exit(n) and panics end the process with a non-zero status",
                       "write_*_hex report every I/O failure as Err (checked for File::create/write_all via `?`)"]
    facts = F.load("dev")
    P = G.Program(facts)
    key = "bin::main"
    b = P.body.get(key)
    if b is None:
        rep.unprovable("C18.anchor|main", "the binary's main() was not found")
        return rep
    cr = P.crate_of[key]
    ret_ty = cr.types[b["locals"][0]["ty"]]["s"]
    rep.count("blocks in main", len(b["blocks"]))
    idom = G.dominators(b)

    fallible = {}   # name -> (bb, term)
    for bb, t, name, targets in P.call_sites(key):
        for want in ("builder::build_file", "builder::build_str", "writer::write_code_hex", "writer::write_eeprom_hex"):
            if want in targets:
                fallible.setdefault(want, []).append((bb, t))
    rep.count("fallible library calls in main", sum(len(v) for v in fallible.values()))
    build_calls = fallible.get("builder::build_file", []) + fallible.get("builder::build_str", [])
    rep.ob("C18.anchor|build", len(build_calls) == 1, "main calls the library build entry point exactly once (%d)" % len(build_calls),
           kind="unprovable")
    for w in ("writer::write_code_hex", "writer::write_eeprom_hex"):
        rep.ob("C18.anchor|%s" % w, len(fallible.get(w, [])) == 1, "main calls %s exactly once (%d)" % (w, len(fallible.get(w, []))),
               kind="unprovable")

    returns = [i for i, bl in enumerate(b["blocks"]) if bl["term"]["k"] == "return"]
    build_ok = None
    for name, sites in sorted(fallible.items()):
        for bb, t in sites:
            short = name.split("::")[-1]
            edges = MU.result_edges(b, bb)
            loc = loc_of(b["blocks"][bb]["tspan"])
            if edges is None:
                rep.unprovable("C18.exit|%s" % short, "how main inspects the result of %s was not recognised" % short, loc=loc)
                continue
            if name.startswith("builder::"):
                build_ok = edges["ok"]
            if edges["err"] is None:
                # unwrap/expect: failure panics -> non-zero status, message printed by the panic
                rep.ob("C18.exit|%s" % short, True, "failure of %s panics (non-zero status)" % short, loc=loc)
                rep.ob("C18.report|%s" % short, True, "failure of %s is reported by the panic message" % short, loc=loc)
                continue
            # region reachable from the failure edge, stopping at terminating calls
            stop_reason = {}

            def stop(x):
                r = terminates(P, key, b["blocks"][x]["term"])
                if r:
                    stop_reason[x] = r
                    return True
                return False

            region = G.reach_blocks(b, edges["err"], stop)
            bad_returns = [r for r in returns if r in region]
            if ret_ty == "()":
                ok = not bad_returns
                what = ("failure of %s always ends in %s before main can return" % (short, "/".join(sorted(set(stop_reason.values()))) or "a diverging call")
                        if ok else "after %s fails, main can return normally (exit status 0): no process::exit(non-zero)/panic on the path" % short)
                rep.ob("C18.exit|%s" % short, ok, what, loc=loc,
                       detail={"err_edge_bb": edges["err"], "reachable_return_bbs": bad_returns, "main_returns": ret_ty})
            else:
                # main returns a value: the failure region must produce it from an Err / FAILURE / from_residual
                produces_err = False
                for x in region:
                    bl = b["blocks"][x]
                    for st in bl["stmts"]:
                        if st["k"] == "assign" and st["place"]["local"] == 0 and st["rv"]["k"] == "agg" and st["rv"]["kind"].get("vname") == "Err":
                            produces_err = True
                    tt = bl["term"]
                    if tt["k"] == "call" and tt["dest"]["local"] == 0 and MU.callee_names(tt)[1].endswith("from_residual"):
                        produces_err = True
                if not bad_returns or produces_err:
                    rep.ob("C18.exit|%s" % short, True, "failure of %s leaves main through an Err return / exit" % short, loc=loc)
                else:
                    rep.unprovable("C18.exit|%s" % short, "main returns %s; could not show the failure path yields a failing status" % ret_ty, loc=loc)
            # reported: a print whose arguments include the error payload
            printed = False
            shows_err = False
            for x in region:
                tt = b["blocks"][x]["term"]
                if tt["k"] == "call":
                    full, rp = MU.callee_names(tt)
                    if rp in ("std::io::_print", "std::io::_eprint") or "panic" in rp:
                        printed = True
                    if "fmt::rt::Argument" in rp and any("rror" in cr.types[g]["s"] for g in tt["callee"].get("generics", [])):
                        shows_err = True
                    # the same report said once, in a helper of the tool's crate that is handed the error
                    gets_err = any("rror" in cr.types[b["locals"][(a.get("move") or a.get("copy"))["local"]]["ty"]]["s"]
                                   for a in tt["args"] if (a.get("move") or a.get("copy")) is not None and not (a.get("move") or a.get("copy"))["proj"])
                    for hk in (local_helpers(P, key, tt) if gets_err else ()):
                        hcr = P.crate_of[hk]
                        for _, ht, _, _ in P.call_sites(hk):
                            hrp = MU.callee_names(ht)[1]
                            if hrp in ("std::io::_print", "std::io::_eprint") or "panic" in hrp:
                                printed = True
                            if "fmt::rt::Argument" in hrp and any("rror" in hcr.types[g]["s"] or hcr.types[g]["k"] == "param"
                                                                  for g in ht["callee"].get("generics", [])):
                                shows_err = True
            rep.ob("C18.report|%s" % short, printed and shows_err,
                   "failure of %s is printed together with the error value" % short if printed and shows_err else
                   "failure of %s is not reported with its error (print=%s, error formatted=%s)" % (short, printed, shows_err), loc=loc)

    # ---- nowrite: every call in main that may create a file is dominated by the build's success edge
    memo = {}
    nsites = 0
    if build_ok is not None:
        for bb, t, name, targets in P.call_sites(key):
            if b["blocks"][bb]["cleanup"]:
                continue
            why = may_create_file(P, key, t, memo)
            if why:
                nsites += 1
                dom = G.dominates(idom, build_ok, bb)
                full, rp = MU.callee_names(t)
                rep.ob("C18.nowrite|main|%s" % rp, dom,
                       "%s (can create a file: %s) runs only after the build succeeded" % (rp, why) if dom else
                       "%s can create or alter a file (%s) on a path where the build has not succeeded" % (rp, why),
                       loc=loc_of(b["blocks"][bb]["tspan"]))
    rep.count("file-creating call sites in main", nsites)
    rep.ob("C18.nowrite|sites", nsites >= 2, "at least the two writer calls were recognised as file-creating (%d)" % nsites, kind="unprovable",
           nontrivial=False)
    # inside each writer (seen with the local helpers it uses, analysis/writers.py): the file is opened only after hex generation
    # succeeded, every I/O result propagates, buffered writers are flushed, and the right text is written
    import writers as W
    for w, field, fname in (("writer::write_code_hex", 0, "code"), ("writer::write_eeprom_hex", 1, "eeprom")):
        wb = P.body.get(w)
        if wb is None:
            rep.unprovable("C18.anchor|%s|body" % w, "%s not found" % w)
            continue
        fam = W.family(P, w)
        widom = G.dominators(wb)
        gen = [(bb, t) for bb, t, n, tg in P.call_sites(w) if any(x.startswith("writer::generate_hex") for x in tg)]
        creates = W.calls_in(P, fam, lambda rp, full: bool(FILE_CREATORS.match(rp)))
        if len(gen) != 1 or not creates:
            rep.unprovable("C18.nowrite|%s" % w, "generation call / file creation not recognised in %s (%d/%d)" % (w, len(gen), len(creates)))
            continue
        e = MU.result_edges(wb, gen[0][0])
        okb = e["ok"] if e else None
        for k_, cbb, ct, rp_ in creates:
            site = W.entry_site_of(P, fam, w, k_, cbb)
            dom = okb is not None and site is not None and G.dominates(widom, okb, site)
            rep.ob("C18.nowrite|%s|create-after-generate" % w, dom,
                   "%s creates the output file only after hex generation succeeded" % w if dom else
                   "%s can create the output file although hex generation failed or has not run" % w,
                   loc=loc_of(P.body[k_]["blocks"][cbb]["tspan"]))
        # every I/O step's failure is propagated (`?`, match, or returned to a caller that does so)
        ios = W.calls_in(P, fam, lambda rp, full: bool(FILE_CREATORS.match(rp)) or W.is_write(rp) or rp.endswith("Write>::flush") or rp == "std::io::Write::flush")
        for k_, bb_, t_, rp_ in ios:
            okp = W.propagated(P, fam, k_, bb_)
            rep.ob("C18.io-error|%s|%s" % (w, rp_), okp,
                   "result of %s (in %s) is inspected: a failure propagates" % (rp_, k_.split("::")[-1]) if okp else
                   "result of %s in %s is dropped: an I/O failure would go unreported" % (rp_, k_),
                   loc=loc_of(P.body[k_]["blocks"][bb_]["tspan"]))
        # a buffering writer reports write errors only when flushed: it needs an explicit, checked flush
        wr = W.calls_in(P, fam, lambda rp, full: W.is_write_all(rp))
        for k_, bb_, t_, rp_ in wr:
            g_ = t_["callee"].get("rgenerics") or t_["callee"].get("generics") or []
            recv_ty = P.tys(k_, g_[0]) if g_ else MU.callee_names(t_)[0]
            if re.search(r"BufWriter|LineWriter", recv_ty + MU.callee_names(t_)[0]):
                fl = [x for x in ios if x[3].endswith("flush") and W.propagated(P, fam, x[0], x[1])]
                rep.ob("C18.io-error|%s|flush" % w, bool(fl), "the buffered writer is flushed explicitly and the result is checked" if fl else
                       "%s writes through a buffering writer (%s) that is never flushed explicitly: the data is written when the writer is dropped and an I/O error at that point is discarded — the tool reports success although nothing could be written" % (w, recv_ty[:60]),
                       loc=loc_of(P.body[k_]["blocks"][bb_]["tspan"]))
        # content: the bytes written come from the right field of GenerateResult
        if wr:
            gr_fields = set()
            for k_, bb_, t_, rp_ in wr:
                consts, calls, places = W.slice_family(P, fam, k_, [t_["args"][1]])
                for fk, pl in places:
                    fs = MU.proj_fields(pl["proj"])
                    if fs and cr_is_generate_result(P, fk, P.body[fk], pl["local"]):
                        gr_fields.add(fs[-1])
            okc = gr_fields == {field}
            rep.ob("C18.content|%s|field" % w, okc,
                   "%s writes the %s text of the generated result" % (w, fname) if okc else
                   "%s writes field(s) %s of the generated result, expected only .%s" % (w, sorted(gr_fields), fname),
                   loc=loc_of(P.body[wr[0][0]]["blocks"][wr[0][1]]["tspan"]))
        else:
            rep.unprovable("C18.content|%s|field" % w, "no write_all call found in %s or the helpers it calls" % w)
    # generate_hex: code comes from br.code and eeprom from br.eeprom
    gk = "writer::generate_hex"
    gb = P.body.get(gk)
    if gb is None:
        rep.unprovable("C18.anchor|generate_hex", "writer::generate_hex not found")
    else:
        seg_calls = [(bb, t) for bb, t, n, tg in P.call_sites(gk) if "writer::generate_hex_from_segment" in tg]
        ch = MU.Chaser(gb)
        agg = None
        for bl in gb["blocks"]:
            for st in bl["stmts"]:
                if st["k"] == "assign" and st["rv"]["k"] == "agg" and st["rv"]["kind"].get("path") == "writer::GenerateResult":
                    agg = st["rv"]
        if agg is None or len(seg_calls) != 2:
            rep.unprovable("C18.content|generate_hex", "shape of generate_hex not recognised (%d segment calls)" % len(seg_calls))
        else:
            br_fields = [f["name"] for f in P.lib.adts["builder::BuildResult"]["variants"][0]["fields"]]
            gr_fields = [f["name"] for f in P.lib.adts["writer::GenerateResult"]["variants"][0]["fields"]]
            for fi, o in enumerate(agg["ops"]):
                locs, consts, calls, places = MU.backward_slice(gb, [o])
                src = set()
                for c in calls:
                    if "generate_hex_from_segment" in MU.callee_names(c)[1]:
                        root, proj, _ = ch.root(c["args"][0])
                        fs = MU.proj_fields(proj)
                        if root == 1 and fs:
                            src.add(br_fields[fs[0]])
                want = gr_fields[fi]
                rep.ob("C18.content|generate_hex|%s" % want, src == {want},
                       "GenerateResult.%s is generated from BuildResult.%s" % (want, want) if src == {want} else
                       "GenerateResult.%s is generated from BuildResult field(s) %s" % (want, sorted(src)))

    # ---- paths and content flow in main
    opt_fields = None
    for p, ad in P.bin.adts.items():
        if p.endswith("opt::Opt"):
            opt_fields = [f["name"] for f in ad["variants"][0]["fields"]]
    if opt_fields is None:
        rep.unprovable("C18.anchor|Opt", "the option struct was not found")
        opt_fields = []
    ch = MU.Chaser(b)
    build_dest = build_calls[0][1]["dest"]["local"] if build_calls else None
    for w, suffix, optname, other_suffix, other_opt, img in (
            ("writer::write_code_hex", ".hex", "output", ".eep.hex", "eeprom", 0),
            ("writer::write_eeprom_hex", ".eep.hex", "eeprom", None, "output", 1)):
        if len(fallible.get(w, [])) != 1:
            continue
        bb, t = fallible[w][0]
        loc = loc_of(b["blocks"][bb]["tspan"])
        locs, consts, calls, places = MU.backward_slice(b, [t["args"][0]])
        strs = {c["str"] for c in consts if "str" in c}
        callnames = {MU.callee_names(c)[1] for c in calls}
        optf = set()
        for p in places:
            root, proj, _ = ch.root(p)
            for l, pr in ((p["local"], p["proj"]), (root, proj)):
                fs = MU.proj_fields(pr)
                if fs and is_opt_local(P, key, b, l) and fs[0] < len(opt_fields):
                    optf.add(opt_fields[fs[0]])
        # a helper closure of main that builds the default path: its calls and the option fields it reads count as well; the suffix is
        # the constant handed to it at this use
        for c in calls:
            for cand in [MU.callee_names(c)[0], MU.callee_names(c)[1]]:
                ck = next((k2 for k2 in P.body if k2.startswith(key + "::{closure") and (cand == k2 or k2.endswith("::" + cand) or cand.endswith(k2))), None)
                if ck is None:
                    # the same helper written as a free function of the tool's crate (what it reads of the options arrives as arguments,
                    # which the slice in main already follows)
                    ck = next((k2 for k2 in P.body if k2.startswith("bin::") and k2 != key and "{closure" not in k2 and "<" not in k2 and
                               cand and (k2 == "bin::" + cand or k2.endswith("::" + cand))), None)
                if ck is None:
                    continue
                cn, cf = closure_facts(P, ck, opt_fields)
                callnames |= cn
                optf |= cf
        short = w.split("::")[-1]
        rep.ob("C18.paths|%s|explicit" % short, optname in optf and other_opt not in optf,
               "the path given with the %s option is the one passed to %s" % (optname, short) if optname in optf and other_opt not in optf else
               "%s's path depends on option field(s) %s; expected `%s` (and `source` for the default) only" % (short, sorted(optf), optname), loc=loc)
        # the path that was asked for is the path that is written: from the option to the writer nothing but clone / unwrap_or steps
        TR = {"<std::option::Option<T> as std::clone::Clone>::clone", "<std::path::PathBuf as std::clone::Clone>::clone",
              "std::option::Option::<T>::unwrap_or", "std::option::Option::<T>::unwrap_or_else", "std::option::Option::<T>::unwrap_or_default",
              "<std::option::Option<std::path::PathBuf> as std::clone::Clone>::clone"}
        cht = MU.Chaser(b, transparent=TR)
        r_, pr_, _ = cht.root(t["args"][0])
        fs_ = MU.proj_fields(pr_)
        as_given = r_ is not None and is_opt_local(P, key, b, r_) and fs_[:1] == [opt_fields.index(optname)] if optname in opt_fields else False
        rep.ob("C18.paths|%s|as-given" % short, bool(as_given),
               "the %s path goes to %s as it was given (clone / unwrap_or only)" % (optname, short) if as_given else
               "the path given with the %s option is worked on before it reaches %s (it is not the option's value itself that is passed): a relative -o/-e path may end up somewhere else than asked for" % (optname, short), loc=loc)
        okd = suffix in strs and (other_suffix is None or other_suffix not in strs) and "source" in optf \
            and "std::path::Path::file_stem" in callnames and "std::path::Path::parent" in callnames and \
            ("std::path::PathBuf::push" in callnames or "std::path::Path::join" in callnames)
        if suffix == ".eep.hex":
            okd = okd and ".hex" not in strs
        # the same path, said in one call: source.with_extension(<suffix without its dot>) replaces what file_stem() cuts off
        ext = suffix[1:]
        other_ext = other_suffix[1:] if other_suffix else None
        if not okd and "std::path::Path::with_extension" in callnames and "source" in optf and ext in strs and \
                (other_ext is None or other_ext not in strs) and not (ext == "eep.hex" and "hex" in strs):
            okd = True
        rep.ob("C18.paths|%s|default" % short, okd,
               "default path of %s is parent(source)/stem(source)+%r" % (short, suffix) if okd else
               "default path of %s is not parent(source)/stem(source)+%r: constants %s, calls %s" % (
                   short, suffix, sorted(s for s in strs if s.startswith(".")), sorted(c.split("::")[-1] for c in callnames)), loc=loc,
               detail={"string constants in slice": sorted(strs), "option fields": sorted(optf)})
        # content: second argument is this run's BuildResult
        root, proj, _ = ch.root(t["args"][1])
        src_ok = root == build_dest and any(e["k"] == "downcast" and e["name"] == "Ok" for e in proj)
        rep.ob("C18.content|%s|result" % short, src_ok,
               "%s receives the BuildResult returned by this run's build" % short if src_ok else
               "%s does not receive the Ok payload of this run's build call" % short, loc=loc)
        # guard: the writer call is dominated by `!built.<image>.is_empty()` false edge  (EEPROM: only when non-empty)
        if img == 1:
            guard = False
            for gbb, gt, n, tg in P.call_sites(key):
                if MU.callee_names(gt)[1] == "std::vec::Vec::<T, A>::is_empty":
                    r2, pr2, _ = ch.root(gt["args"][0])
                    fs = MU.proj_fields(pr2)
                    if r2 == build_dest and any(e["k"] == "downcast" and e["name"] == "Ok" for e in pr2) and fs == [0, img]:
                        sw = b["blocks"][gt["target"]]["term"]
                        if sw["k"] == "switch":
                            tg0 = dict((int(v), x) for v, x in sw["targets"]).get(0)
                            if tg0 is not None and G.dominates(idom, tg0, bb):
                                guard = True
            rep.ob("C18.guard|%s|non-empty" % short, guard,
                   "the EEPROM file is written only for a non-empty EEPROM image" if guard else
                   "the EEPROM writer is not guarded by `!eeprom.is_empty()` of this build's result", loc=loc)
        else:
            # the flash file is written for every build that succeeded, an empty image included (a file with the end-of-file record):
            # no test of the image's emptiness stands in front of the writer
            guards = []
            for gbb, gt, n, tg in P.call_sites(key):
                if MU.callee_names(gt)[1] == "std::vec::Vec::<T, A>::is_empty":
                    r2, pr2, _ = ch.root(gt["args"][0])
                    fs = MU.proj_fields(pr2)
                    if r2 == build_dest and fs == [0, img] and gt.get("target") is not None:
                        sw = b["blocks"][gt["target"]]["term"]
                        if sw["k"] == "switch" and any(G.dominates(idom, x, bb) for v, x in sw["targets"]) and not G.dominates(idom, bb, gbb):
                            guards.append(gbb)
            rep.ob("C18.guard|%s|always" % short, not guards,
                   "the flash file is written for every successful build, whatever the size of the image" if not guards else
                   "the flash writer runs only when the code image is not empty: a program without code writes no flash file at all, not even to the -o path", loc=loc)
        # nothing lossy on the way from the source name to the default path (a name that is not UTF-8 keeps its stem)
        lossy = sorted(c.split("::")[-1] for c in callnames if re.search(r"::(to_str|to_string_lossy|into_string|to_string)$", c))
        rep.ob("C18.paths|%s|lossless" % short, not lossy,
               "the default path of %s is built from the source name without a text conversion" % short if not lossy else
               "the default path of %s goes through %s: a source name that is not valid UTF-8 loses its stem (the image goes to `%s`)" % (short, lossy, suffix), loc=loc)
    # the two files are two files: the paths are compared before anything is written
    if len(fallible.get("writer::write_code_hex", [])) == 1 and len(fallible.get("writer::write_eeprom_hex", [])) == 1:
        (cbb, ct), (ebb, et) = fallible["writer::write_code_hex"][0], fallible["writer::write_eeprom_hex"][0]
        cp_, ep_ = ch.root(ct["args"][0], through_calls=False)[0], ch.root(et["args"][0], through_calls=False)[0]
        compared = False
        by_place = False
        for gbb, gt, n, tg in P.call_sites(key):
            full, rp = MU.callee_names(gt)
            if re.search(r"PartialEq(<.*>)?>?::(eq|ne)$", rp) or re.search(r"PartialEq(<.*>)?>::(eq|ne)$", full):
                # each side of the comparison is one of the two paths, as it is or worked on by a helper
                sides = []
                helpers = set()
                for a in gt["args"][:2]:
                    locs, consts, calls, places = MU.backward_slice(b, [a])
                    sides.append({cp_, ep_} & set(locs))
                    for c in calls:
                        helpers |= local_helpers(P, key, c)
                        if MU.callee_names(c)[1].endswith("Path::canonicalize") or MU.callee_names(c)[1].endswith("fs::canonicalize"):
                            by_place = True
                # the comparison stands in front of both writers (it may itself be skipped when there is no EEPROM image to write)
                after = G.reach_blocks(b, gbb)
                if sorted(map(sorted, sides)) == sorted([[cp_], [ep_]]) and cbb in after and ebb in after and gbb not in G.reach_blocks(b, cbb) and gbb not in G.reach_blocks(b, ebb):
                    compared = True
                    for h in helpers:
                        if any(MU.callee_names(t2)[1].endswith(("Path::canonicalize", "fs::canonicalize")) for _, t2, _, _ in P.call_sites(h)):
                            by_place = True
        rep.ob("C18.paths|distinct", compared,
               "the flash and the EEPROM path are compared before either file is written" if compared else
               "nothing compares the two output paths: `-o f -e f` writes the flash image to f and then replaces it by the EEPROM image, with exit status 0")
        if compared:
            rep.ob("C18.paths|distinct|by-place", by_place,
                   "the two paths are compared by the place they lead to (directory as the system names it), not by their spelling" if by_place else
                   "the two output paths are compared as they are written: `-o y.hex -e ./y.hex` names one file twice and passes - the flash image is written and then replaced by the EEPROM image, exit status 0")
    rep.floor("blocks in main", len(b["blocks"]), 100)
    return rep


def cr_is_generate_result(P, key, body, local):
    return P.tys(key, body["locals"][local]["ty"]).endswith("writer::GenerateResult")


def local_helpers(P, key, term):
    """bodies of the tool's own crate that a call in `key` runs: closures of `key`, or free functions beside it"""
    out = set()
    for cand in MU.callee_names(term):
        if not cand:
            continue
        out |= {k2 for k2 in P.body if k2.startswith(key + "::{closure") and (cand == k2 or k2.endswith("::" + cand) or cand.endswith(k2))}
        out |= {k2 for k2 in P.body if k2.startswith("bin::") and k2 != key and "{closure" not in k2 and "<" not in k2 and
                (k2 == "bin::" + cand or k2.endswith("::" + cand))}
    return out


def closure_facts(P, ck, opt_fields):
    """-> (resolved callee names in the closure body, option fields it reads through its captures)"""
    b = P.body[ck]
    names = {MU.callee_names(t)[1] for _, t, _, _ in P.call_sites(ck)}
    cr = P.crate_of[ck]
    fields = set()

    def walk_place(pl):
        cur = cr.types[b["locals"][pl["local"]]["ty"]]
        for e in pl["proj"]:
            while cur["k"] in ("ref", "ptr"):
                cur = cr.types[cur["to"]]
            if e["k"] == "field":
                if cur["k"] == "adt" and cur["path"].endswith("opt::Opt") and e["i"] < len(opt_fields):
                    fields.add(opt_fields[e["i"]])
                cur = cr.types[e["ty"]]
            elif e["k"] == "deref":
                continue
            else:
                break

    def walk(o):
        if isinstance(o, dict):
            if "local" in o and "proj" in o:
                walk_place(o)
            for v in o.values():
                walk(v)
        elif isinstance(o, list):
            for v in o:
                walk(v)
    walk(b["blocks"])
    return names, fields


def is_opt_local(P, key, body, local):
    s = P.tys(key, body["locals"][local]["ty"])
    return s.endswith("opt::Opt") or s.endswith("opt::Opt)")
