// E0 — fact extraction.  A rustc_private driver used as RUSTC_WORKSPACE_WRAPPER:
// it compiles the crate exactly as cargo asks and, after analysis, writes the
// type-checked, callee-resolved MIR of every body plus ADT / static / impl tables
// as one JSON file per crate into $AVRA_FACTS_DIR.
#![feature(rustc_private)]
#![allow(unused)]

extern crate rustc_abi;
extern crate rustc_data_structures;
extern crate rustc_driver;
extern crate rustc_hir;
extern crate rustc_interface;
extern crate rustc_middle;
extern crate rustc_span;

use rustc_hir::def::DefKind;
use rustc_hir::def_id::{DefId, LocalDefId, LOCAL_CRATE};
use rustc_middle::mir::{
    self, AggregateKind, AssertKind, BasicBlock, Body, Const as MirConst, ConstValue, Operand,
    Place, ProjectionElem, Rvalue, StatementKind, TerminatorKind,
};
use rustc_middle::ty::{self, GenericArgKind, Instance, InstanceKind, Ty, TyCtxt, TyKind, TypingEnv};
use rustc_span::Span;
use std::collections::HashMap;
use std::fmt::Write as _;

// ---------------------------------------------------------------- JSON helpers
fn esc(s: &str) -> String {
    let mut o = String::with_capacity(s.len() + 2);
    o.push('"');
    for c in s.chars() {
        match c {
            '"' => o.push_str("\\\""),
            '\\' => o.push_str("\\\\"),
            '\n' => o.push_str("\\n"),
            '\r' => o.push_str("\\r"),
            '\t' => o.push_str("\\t"),
            c if (c as u32) < 0x20 => {
                let _ = write!(o, "\\u{:04x}", c as u32);
            }
            c => o.push(c),
        }
    }
    o.push('"');
    o
}

fn obj(fields: Vec<(&str, String)>) -> String {
    let mut o = String::from("{");
    let mut first = true;
    for (k, v) in fields {
        if !first {
            o.push(',');
        }
        first = false;
        o.push_str(&esc(k));
        o.push(':');
        o.push_str(&v);
    }
    o.push('}');
    o
}

fn arr(items: Vec<String>) -> String {
    let mut o = String::from("[");
    o.push_str(&items.join(","));
    o.push(']');
    o
}

fn jbool(b: bool) -> String {
    if b { "true".into() } else { "false".into() }
}

fn jnull() -> String {
    "null".into()
}

// ---------------------------------------------------------------- dumper
struct Dumper<'tcx> {
    tcx: TyCtxt<'tcx>,
    types: Vec<String>,
    type_ix: HashMap<Ty<'tcx>, usize>,
    adts_seen: Vec<DefId>,
    adt_set: HashMap<DefId, ()>,
}

impl<'tcx> Dumper<'tcx> {
    fn path(&self, d: DefId) -> String {
        self.tcx.def_path_str(d)
    }

    fn span(&self, sp: Span) -> String {
        // user-visible location: outermost call site when the span comes from a macro
        let exp = sp.from_expansion();
        let cs = sp.source_callsite();
        let sm = self.tcx.sess.source_map();
        let lo = sm.lookup_char_pos(cs.lo());
        let file = format!("{}", lo.file.name.prefer_local_unconditionally());
        let mac = if exp {
            let mut name = String::new();
            for ed in sp.macro_backtrace() {
                name = format!("{}", ed.kind.descr());
            }
            name
        } else {
            String::new()
        };
        // the innermost (non-callsite) position too, useful inside proc-macro output
        let ilo = sm.lookup_char_pos(sp.lo());
        obj(vec![
            ("f", esc(&file)),
            ("l", format!("{}", lo.line)),
            ("c", format!("{}", lo.col.0 + 1)),
            ("exp", jbool(exp)),
            ("mac", esc(&mac)),
            ("il", format!("{}", ilo.line)),
            ("ic", format!("{}", ilo.col.0 + 1)),
        ])
    }

    fn ty(&mut self, t: Ty<'tcx>) -> usize {
        if let Some(&i) = self.type_ix.get(&t) {
            return i;
        }
        let ix = self.types.len();
        self.types.push(String::new());
        self.type_ix.insert(t, ix);
        let s = esc(&format!("{}", t));
        let j = match t.kind() {
            TyKind::Bool => obj(vec![("k", esc("bool")), ("s", s)]),
            TyKind::Char => obj(vec![("k", esc("char")), ("s", s)]),
            TyKind::Int(it) => {
                let bits = it.bit_width().unwrap_or(64);
                obj(vec![
                    ("k", esc("int")),
                    ("bits", format!("{}", bits)),
                    ("signed", jbool(true)),
                    ("ptr", jbool(it.bit_width().is_none())),
                    ("s", s),
                ])
            }
            TyKind::Uint(ut) => {
                let bits = ut.bit_width().unwrap_or(64);
                obj(vec![
                    ("k", esc("int")),
                    ("bits", format!("{}", bits)),
                    ("signed", jbool(false)),
                    ("ptr", jbool(ut.bit_width().is_none())),
                    ("s", s),
                ])
            }
            TyKind::Float(_) => obj(vec![("k", esc("float")), ("s", s)]),
            TyKind::Str => obj(vec![("k", esc("str")), ("s", s)]),
            TyKind::Never => obj(vec![("k", esc("never")), ("s", s)]),
            TyKind::Adt(def, args) => {
                let did = def.did();
                if !self.adt_set.contains_key(&did) {
                    self.adt_set.insert(did, ());
                    self.adts_seen.push(did);
                }
                let mut targs = vec![];
                for a in args.iter() {
                    if let GenericArgKind::Type(at) = a.kind() {
                        targs.push(format!("{}", self.ty(at)));
                    }
                }
                obj(vec![
                    ("k", esc("adt")),
                    ("path", esc(&self.path(did))),
                    ("args", arr(targs)),
                    ("s", s),
                ])
            }
            TyKind::Ref(_, inner, m) => {
                let i = self.ty(*inner);
                obj(vec![
                    ("k", esc("ref")),
                    ("mut", jbool(m.is_mut())),
                    ("to", format!("{}", i)),
                    ("s", s),
                ])
            }
            TyKind::RawPtr(inner, m) => {
                let i = self.ty(*inner);
                obj(vec![
                    ("k", esc("ptr")),
                    ("mut", jbool(m.is_mut())),
                    ("to", format!("{}", i)),
                    ("s", s),
                ])
            }
            TyKind::Slice(inner) => {
                let i = self.ty(*inner);
                obj(vec![("k", esc("slice")), ("of", format!("{}", i)), ("s", s)])
            }
            TyKind::Array(inner, len) => {
                let i = self.ty(*inner);
                let n = len
                    .try_to_target_usize(self.tcx)
                    .map(|v| format!("{}", v))
                    .unwrap_or_else(jnull);
                obj(vec![
                    ("k", esc("array")),
                    ("of", format!("{}", i)),
                    ("len", n),
                    ("s", s),
                ])
            }
            TyKind::Tuple(tys) => {
                let mut v = vec![];
                for e in tys.iter() {
                    v.push(format!("{}", self.ty(e)));
                }
                obj(vec![("k", esc("tuple")), ("of", arr(v)), ("s", s)])
            }
            TyKind::FnDef(did, args) => {
                let mut targs = vec![];
                for a in args.iter() {
                    if let GenericArgKind::Type(at) = a.kind() {
                        targs.push(format!("{}", self.ty(at)));
                    }
                }
                obj(vec![
                    ("k", esc("fndef")),
                    ("path", esc(&self.path(*did))),
                    ("args", arr(targs)),
                    ("s", s),
                ])
            }
            TyKind::Closure(did, _) => obj(vec![
                ("k", esc("closure")),
                ("path", esc(&self.path(*did))),
                ("s", s),
            ]),
            TyKind::Dynamic(preds, _) => {
                let tr = preds
                    .principal_def_id()
                    .map(|d| esc(&self.path(d)))
                    .unwrap_or_else(jnull);
                obj(vec![("k", esc("dyn")), ("trait", tr), ("s", s)])
            }
            TyKind::FnPtr(..) => obj(vec![("k", esc("fnptr")), ("s", s)]),
            TyKind::Param(_) => obj(vec![("k", esc("param")), ("s", s)]),
            _ => obj(vec![("k", esc("other")), ("s", s)]),
        };
        self.types[ix] = j;
        ix
    }

    fn place(&mut self, p: &Place<'tcx>) -> String {
        let mut proj = vec![];
        for (base, elem) in p.iter_projections() {
            let j = match elem {
                ProjectionElem::Deref => obj(vec![("k", esc("deref"))]),
                ProjectionElem::Field(f, fty) => {
                    let t = self.ty(fty);
                    obj(vec![
                        ("k", esc("field")),
                        ("i", format!("{}", f.as_usize())),
                        ("ty", format!("{}", t)),
                    ])
                }
                ProjectionElem::Index(l) => obj(vec![
                    ("k", esc("index")),
                    ("local", format!("{}", l.as_usize())),
                ]),
                ProjectionElem::ConstantIndex { offset, min_length, from_end } => obj(vec![
                    ("k", esc("cindex")),
                    ("offset", format!("{}", offset)),
                    ("min_length", format!("{}", min_length)),
                    ("from_end", jbool(from_end)),
                ]),
                ProjectionElem::Downcast(name, v) => obj(vec![
                    ("k", esc("downcast")),
                    ("v", format!("{}", v.as_usize())),
                    (
                        "name",
                        name.map(|n| esc(n.as_str())).unwrap_or_else(jnull),
                    ),
                ]),
                other => obj(vec![
                    ("k", esc("otherproj")),
                    ("text", esc(&format!("{:?}", other))),
                ]),
            };
            proj.push(j);
        }
        obj(vec![
            ("local", format!("{}", p.local.as_usize())),
            ("proj", arr(proj)),
        ])
    }

    fn alloc_bytes(&self, c: &MirConst<'tcx>, env: TypingEnv<'tcx>) -> Option<Vec<u8>> {
        // &str / &[u8] / &[u8; N] constants
        let val = match c {
            MirConst::Val(v, _) => Some(*v),
            _ => c.eval(self.tcx, env, rustc_span::DUMMY_SP).ok(),
        }?;
        match val {
            ConstValue::Slice { alloc_id, meta } => {
                let alloc = self.tcx.global_alloc(alloc_id).unwrap_memory();
                let inner = alloc.inner();
                let n = meta as usize;
                if n > inner.len() {
                    return None;
                }
                Some(
                    inner
                        .inspect_with_uninit_and_ptr_outside_interpreter(0..n)
                        .to_vec(),
                )
            }
            ConstValue::Scalar(mir::interpret::Scalar::Ptr(ptr, _)) => {
                // pointer to an allocation: &[u8; N]
                let (prov, off) = ptr.into_raw_parts();
                let alloc_id = prov.alloc_id();
                match self.tcx.try_get_global_alloc(alloc_id) {
                    Some(mir::interpret::GlobalAlloc::Memory(alloc)) => {
                        let inner = alloc.inner();
                        if !inner.provenance().ptrs().is_empty() {
                            return None;
                        }
                        let o = off.bytes() as usize;
                        Some(
                            inner
                                .inspect_with_uninit_and_ptr_outside_interpreter(o..inner.len())
                                .to_vec(),
                        )
                    }
                    _ => None,
                }
            }
            _ => None,
        }
    }

    fn constant(&mut self, c: &mir::ConstOperand<'tcx>, env: TypingEnv<'tcx>, owner: &str) -> String {
        let t = c.const_.ty();
        let tix = self.ty(t);
        let mut fields: Vec<(&str, String)> = vec![("ty", format!("{}", tix))];
        // promoted reference?
        if let MirConst::Unevaluated(uv, _) = &c.const_ {
            if let Some(p) = uv.promoted {
                let base = self.path(uv.def);
                fields.push(("promoted", esc(&format!("{}#promoted{}", base, p.as_usize()))));
                return obj(fields);
            }
        }
        match t.kind() {
            TyKind::FnDef(did, args) => {
                fields.push(("fn", esc(&self.path(*did))));
                return obj(fields);
            }
            TyKind::Bool | TyKind::Char | TyKind::Int(_) | TyKind::Uint(_) => {
                if let Some(si) = c.const_.try_eval_scalar_int(self.tcx, env) {
                    let size = si.size();
                    let raw: u128 = si.to_bits(size);
                    fields.push(("int", esc(&format!("{}", raw))));
                    fields.push(("size", format!("{}", size.bytes())));
                    return obj(fields);
                }
            }
            TyKind::Ref(_, inner, _) | TyKind::RawPtr(inner, _) => {
                // reference to a static item?
                let val = match &c.const_ {
                    MirConst::Val(v, _) => Some(*v),
                    other => other.eval(self.tcx, env, rustc_span::DUMMY_SP).ok(),
                };
                if let Some(ConstValue::Scalar(mir::interpret::Scalar::Ptr(ptr, _))) = val {
                    let (prov, _off) = ptr.into_raw_parts();
                    if let Some(mir::interpret::GlobalAlloc::Static(sdid)) =
                        self.tcx.try_get_global_alloc(prov.alloc_id())
                    {
                        fields.push(("static", esc(&self.path(sdid))));
                        return obj(fields);
                    }
                }
                let is_bytes = match inner.kind() {
                    TyKind::Str => true,
                    TyKind::Slice(e) | TyKind::Array(e, _) => matches!(e.kind(), TyKind::Uint(ty::UintTy::U8)),
                    _ => false,
                };
                if is_bytes {
                    if let Some(b) = self.alloc_bytes(&c.const_, env) {
                        if matches!(inner.kind(), TyKind::Str) {
                            fields.push(("str", esc(&String::from_utf8_lossy(&b))));
                        } else {
                            fields.push((
                                "bytes",
                                arr(b.iter().map(|x| format!("{}", x)).collect()),
                            ));
                        }
                        return obj(fields);
                    }
                }
            }
            _ => {}
        }
        // small scalar ADT constants (unit-like enums evaluated to a scalar)
        if let Some(si) = c.const_.try_eval_scalar_int(self.tcx, env) {
            let size = si.size();
            let raw: u128 = si.to_bits(size);
            fields.push(("int", esc(&format!("{}", raw))));
            fields.push(("size", format!("{}", size.bytes())));
            return obj(fields);
        }
        fields.push(("opaque", esc(&format!("{}", c.const_))));
        obj(fields)
    }

    fn operand(&mut self, o: &Operand<'tcx>, env: TypingEnv<'tcx>, owner: &str) -> String {
        match o {
            Operand::Copy(p) => obj(vec![("copy", self.place(p))]),
            Operand::Move(p) => obj(vec![("move", self.place(p))]),
            Operand::Constant(c) => obj(vec![("const", self.constant(c, env, owner))]),
            other => obj(vec![("otherop", esc(&format!("{:?}", other)))]),
        }
    }

    fn rvalue(&mut self, rv: &Rvalue<'tcx>, env: TypingEnv<'tcx>, owner: &str) -> String {
        match rv {
            Rvalue::Use(op, ..) => obj(vec![("k", esc("use")), ("op", self.operand(op, env, owner))]),
            Rvalue::Repeat(op, n) => obj(vec![
                ("k", esc("repeat")),
                ("op", self.operand(op, env, owner)),
                (
                    "n",
                    n.try_to_target_usize(self.tcx)
                        .map(|v| format!("{}", v))
                        .unwrap_or_else(jnull),
                ),
            ]),
            Rvalue::Ref(_, bk, p) => obj(vec![
                ("k", esc("ref")),
                ("mut", jbool(matches!(bk, mir::BorrowKind::Mut { .. }))),
                ("place", self.place(p)),
            ]),
            Rvalue::RawPtr(_, p) => obj(vec![("k", esc("addr")), ("place", self.place(p))]),
            Rvalue::Cast(kind, op, t) => {
                let tix = self.ty(*t);
                obj(vec![
                    ("k", esc("cast")),
                    ("kind", esc(&format!("{:?}", kind))),
                    ("op", self.operand(op, env, owner)),
                    ("ty", format!("{}", tix)),
                ])
            }
            Rvalue::BinaryOp(op, pair) => {
                let (l, r) = &**pair;
                obj(vec![
                    ("k", esc("bin")),
                    ("op", esc(&format!("{:?}", op))),
                    ("l", self.operand(l, env, owner)),
                    ("r", self.operand(r, env, owner)),
                ])
            }
            Rvalue::UnaryOp(op, o) => obj(vec![
                ("k", esc("un")),
                ("op", esc(&format!("{:?}", op))),
                ("o", self.operand(o, env, owner)),
            ]),
            Rvalue::Discriminant(p) => obj(vec![("k", esc("discr")), ("place", self.place(p))]),
            Rvalue::Aggregate(kind, ops) => {
                let mut v = vec![];
                for o in ops.iter() {
                    v.push(self.operand(o, env, owner));
                }
                let kj = match &**kind {
                    AggregateKind::Array(t) => {
                        let tix = self.ty(*t);
                        obj(vec![("k", esc("array")), ("ty", format!("{}", tix))])
                    }
                    AggregateKind::Tuple => obj(vec![("k", esc("tuple"))]),
                    AggregateKind::Adt(did, vix, args, _, active) => {
                        let adt = self.tcx.adt_def(*did);
                        if !self.adt_set.contains_key(did) {
                            self.adt_set.insert(*did, ());
                            self.adts_seen.push(*did);
                        }
                        let vname = adt.variant(*vix).name.as_str().to_string();
                        obj(vec![
                            ("k", esc("adt")),
                            ("path", esc(&self.path(*did))),
                            ("v", format!("{}", vix.as_usize())),
                            ("vname", esc(&vname)),
                            ("is_enum", jbool(adt.is_enum())),
                        ])
                    }
                    AggregateKind::Closure(did, _) => obj(vec![
                        ("k", esc("closure")),
                        ("path", esc(&self.path(*did))),
                    ]),
                    other => obj(vec![
                        ("k", esc("otheragg")),
                        ("text", esc(&format!("{:?}", other))),
                    ]),
                };
                obj(vec![("k", esc("agg")), ("kind", kj), ("ops", arr(v))])
            }
            Rvalue::CopyForDeref(p) => obj(vec![
                ("k", esc("use")),
                ("op", obj(vec![("copy", self.place(p))])),
            ]),
            other => obj(vec![
                ("k", esc("otherrv")),
                ("text", esc(&format!("{:?}", other))),
            ]),
        }
    }

    fn callee(
        &mut self,
        func: &Operand<'tcx>,
        env: TypingEnv<'tcx>,
        owner: &str,
    ) -> String {
        let fty = match func {
            Operand::Constant(c) => Some(c.const_.ty()),
            _ => None,
        };
        if let Some(t) = fty {
            if let TyKind::FnDef(did, args) = t.kind() {
                let path = self.path(*did);
                let full = self.tcx.def_path_str_with_args(*did, args);
                let mut targs = vec![];
                for a in args.iter() {
                    if let GenericArgKind::Type(at) = a.kind() {
                        targs.push(format!("{}", self.ty(at)));
                    }
                }
                let mut fields = vec![
                    ("path", esc(&path)),
                    ("full", esc(&full)),
                    ("generics", arr(targs)),
                    ("local", jbool(did.is_local())),
                ];
                match Instance::try_resolve(self.tcx, env, *did, args) {
                    Ok(Some(inst)) => {
                        let rd = inst.def_id();
                        let kind = match inst.def {
                            InstanceKind::Item(_) => "item",
                            InstanceKind::Virtual(..) => "virtual",
                            InstanceKind::Intrinsic(_) => "intrinsic",
                            InstanceKind::ClosureOnceShim { .. } => "closure_once_shim",
                            InstanceKind::FnPtrShim(..) => "fnptr_shim",
                            InstanceKind::DropGlue(..) => "drop_glue",
                            InstanceKind::CloneShim(..) => "clone_shim",
                            InstanceKind::ReifyShim(..) => "reify_shim",
                            InstanceKind::VTableShim(..) => "vtable_shim",
                            _ => "other",
                        };
                        fields.push(("rkind", esc(kind)));
                        fields.push(("rpath", esc(&self.path(rd))));
                        fields.push((
                            "rfull",
                            esc(&self.tcx.def_path_str_with_args(rd, inst.args)),
                        ));
                        fields.push(("rlocal", jbool(rd.is_local())));
                        let mut rargs = vec![];
                        for a in inst.args.iter() {
                            if let GenericArgKind::Type(at) = a.kind() {
                                rargs.push(format!("{}", self.ty(at)));
                            }
                        }
                        fields.push(("rgenerics", arr(rargs)));
                    }
                    _ => {
                        fields.push(("rkind", esc("unresolved")));
                    }
                }
                return obj(fields);
            }
        }
        obj(vec![
            ("path", jnull()),
            ("indirect", self.operand(func, env, owner)),
            ("rkind", esc("indirect")),
        ])
    }

    fn body(&mut self, key: &str, kind: &str, did: DefId, body: &Body<'tcx>, derived: bool) -> String {
        let tcx = self.tcx;
        let env = TypingEnv::post_analysis(tcx, did);
        let mut locals = vec![];
        let mut names: HashMap<usize, String> = HashMap::new();
        for vdi in body.var_debug_info.iter() {
            if let mir::VarDebugInfoContents::Place(p) = &vdi.value {
                if p.projection.is_empty() {
                    names.entry(p.local.as_usize()).or_insert(vdi.name.as_str().to_string());
                }
            }
        }
        for (l, decl) in body.local_decls.iter_enumerated() {
            let t = self.ty(decl.ty);
            let name = names
                .get(&l.as_usize())
                .map(|n| esc(n))
                .unwrap_or_else(jnull);
            locals.push(obj(vec![
                ("ty", format!("{}", t)),
                ("name", name),
                ("user", jbool(names.contains_key(&l.as_usize()))),
            ]));
        }
        // debug info for projected places (closure captures, etc.)
        let mut dbg = vec![];
        for vdi in body.var_debug_info.iter() {
            if let mir::VarDebugInfoContents::Place(p) = &vdi.value {
                if !p.projection.is_empty() {
                    dbg.push(obj(vec![
                        ("name", esc(vdi.name.as_str())),
                        ("place", self.place(p)),
                    ]));
                }
            }
        }
        let mut blocks = vec![];
        for (bb, data) in body.basic_blocks.iter_enumerated() {
            let mut stmts = vec![];
            for st in data.statements.iter() {
                match &st.kind {
                    StatementKind::Assign(b) => {
                        let (place, rv) = &**b;
                        stmts.push(obj(vec![
                            ("k", esc("assign")),
                            ("place", self.place(place)),
                            ("rv", self.rvalue(rv, env, key)),
                            ("span", self.span(st.source_info.span)),
                        ]));
                    }
                    StatementKind::SetDiscriminant { place, variant_index } => {
                        stmts.push(obj(vec![
                            ("k", esc("setdiscr")),
                            ("place", self.place(place)),
                            ("v", format!("{}", variant_index.as_usize())),
                            ("span", self.span(st.source_info.span)),
                        ]));
                    }
                    StatementKind::StorageLive(_)
                    | StatementKind::StorageDead(_)
                    | StatementKind::Nop
                    | StatementKind::FakeRead(..)
                    | StatementKind::PlaceMention(..)
                    | StatementKind::AscribeUserType(..)
                    | StatementKind::Coverage(..)
                    | StatementKind::ConstEvalCounter => {}
                    other => {
                        stmts.push(obj(vec![
                            ("k", esc("otherstmt")),
                            ("text", esc(&format!("{:?}", other))),
                            ("span", self.span(st.source_info.span)),
                        ]));
                    }
                }
            }
            let term = data.terminator();
            let tspan = self.span(term.source_info.span);
            let tj = match &term.kind {
                TerminatorKind::Goto { target } => obj(vec![
                    ("k", esc("goto")),
                    ("target", format!("{}", target.as_usize())),
                ]),
                TerminatorKind::SwitchInt { discr, targets } => {
                    let mut ts = vec![];
                    for (v, t) in targets.iter() {
                        ts.push(arr(vec![esc(&format!("{}", v)), format!("{}", t.as_usize())]));
                    }
                    let dty = discr.ty(&body.local_decls, tcx);
                    let dt = self.ty(dty);
                    obj(vec![
                        ("k", esc("switch")),
                        ("discr", self.operand(discr, env, key)),
                        ("dty", format!("{}", dt)),
                        ("targets", arr(ts)),
                        ("otherwise", format!("{}", targets.otherwise().as_usize())),
                    ])
                }
                TerminatorKind::Return => obj(vec![("k", esc("return"))]),
                TerminatorKind::Unreachable => obj(vec![("k", esc("unreachable"))]),
                TerminatorKind::UnwindResume => obj(vec![("k", esc("resume"))]),
                TerminatorKind::UnwindTerminate(_) => obj(vec![("k", esc("terminate"))]),
                TerminatorKind::Drop { place, target, unwind, .. } => {
                    let pt = place.ty(&body.local_decls, tcx).ty;
                    let pti = self.ty(pt);
                    obj(vec![
                        ("k", esc("drop")),
                        ("place", self.place(place)),
                        ("pty", format!("{}", pti)),
                        ("target", format!("{}", target.as_usize())),
                        ("unwind", unwind_json(unwind)),
                    ])
                }
                TerminatorKind::Call { func, args, destination, target, unwind, fn_span, .. } => {
                    let mut av = vec![];
                    for a in args.iter() {
                        av.push(self.operand(&a.node, env, key));
                    }
                    obj(vec![
                        ("k", esc("call")),
                        ("callee", self.callee(func, env, key)),
                        ("args", arr(av)),
                        ("dest", self.place(destination)),
                        (
                            "target",
                            target
                                .map(|t| format!("{}", t.as_usize()))
                                .unwrap_or_else(jnull),
                        ),
                        ("unwind", unwind_json(unwind)),
                        ("fn_span", self.span(*fn_span)),
                    ])
                }
                TerminatorKind::Assert { cond, expected, msg, target, unwind } => {
                    let (mk, mops): (String, Vec<String>) = match &**msg {
                        AssertKind::BoundsCheck { len, index } => (
                            "BoundsCheck".into(),
                            vec![self.operand(len, env, key), self.operand(index, env, key)],
                        ),
                        AssertKind::Overflow(op, l, r) => (
                            format!("Overflow({:?})", op),
                            vec![self.operand(l, env, key), self.operand(r, env, key)],
                        ),
                        AssertKind::OverflowNeg(o) => {
                            ("OverflowNeg".into(), vec![self.operand(o, env, key)])
                        }
                        AssertKind::DivisionByZero(o) => {
                            ("DivisionByZero".into(), vec![self.operand(o, env, key)])
                        }
                        AssertKind::RemainderByZero(o) => {
                            ("RemainderByZero".into(), vec![self.operand(o, env, key)])
                        }
                        AssertKind::MisalignedPointerDereference { .. } => {
                            ("MisalignedPointerDereference".into(), vec![])
                        }
                        AssertKind::NullPointerDereference => {
                            ("NullPointerDereference".into(), vec![])
                        }
                        other => (format!("{:?}", other), vec![]),
                    };
                    obj(vec![
                        ("k", esc("assert")),
                        ("cond", self.operand(cond, env, key)),
                        ("expected", jbool(*expected)),
                        ("msg", esc(&mk)),
                        ("mops", arr(mops)),
                        ("target", format!("{}", target.as_usize())),
                        ("unwind", unwind_json(unwind)),
                    ])
                }
                TerminatorKind::FalseEdge { real_target, .. } => obj(vec![
                    ("k", esc("goto")),
                    ("target", format!("{}", real_target.as_usize())),
                ]),
                TerminatorKind::FalseUnwind { real_target, .. } => obj(vec![
                    ("k", esc("goto")),
                    ("target", format!("{}", real_target.as_usize())),
                ]),
                other => obj(vec![
                    ("k", esc("otherterm")),
                    ("text", esc(&format!("{:?}", other))),
                ]),
            };
            blocks.push(obj(vec![
                ("stmts", arr(stmts)),
                ("term", tj),
                ("tspan", tspan),
                ("cleanup", jbool(data.is_cleanup)),
            ]));
        }
        obj(vec![
            ("kind", esc(kind)),
            ("span", self.span(body.span)),
            ("arg_count", format!("{}", body.arg_count)),
            ("derived", jbool(derived)),
            ("locals", arr(locals)),
            ("dbg", arr(dbg)),
            ("blocks", arr(blocks)),
        ])
    }

    fn adt(&mut self, did: DefId) -> String {
        let tcx = self.tcx;
        let adt = tcx.adt_def(did);
        let kind = if adt.is_enum() {
            "enum"
        } else if adt.is_union() {
            "union"
        } else {
            "struct"
        };
        let p = self.path(did);
        let krate = tcx.crate_name(did.krate).to_string();
        let is_std = matches!(krate.as_str(), "std" | "core" | "alloc" | "hashbrown");
        let want_fields = !is_std
            || p.starts_with("std::option::Option")
            || p.starts_with("std::result::Result")
            || p.starts_with("std::ops::ControlFlow");
        let mut variants = vec![];
        if adt.is_enum() {
            for (vix, discr) in adt.discriminants(tcx) {
                let v = adt.variant(vix);
                let mut fields = vec![];
                if want_fields {
                    for f in v.fields.iter() {
                        let fty = tcx.type_of(f.did).instantiate_identity().skip_norm_wip();
                        let t = self.ty(fty);
                        fields.push(obj(vec![
                            ("name", esc(f.name.as_str())),
                            ("ty", format!("{}", t)),
                        ]));
                    }
                }
                variants.push(obj(vec![
                    ("name", esc(v.name.as_str())),
                    ("ix", format!("{}", vix.as_usize())),
                    ("discr", esc(&format!("{}", discr.val))),
                    ("fields", arr(fields)),
                ]));
            }
        } else if !adt.is_union() {
            let v = adt.non_enum_variant();
            let mut fields = vec![];
            if want_fields {
                for f in v.fields.iter() {
                    let fty = tcx.type_of(f.did).instantiate_identity().skip_norm_wip();
                    let t = self.ty(fty);
                    fields.push(obj(vec![
                        ("name", esc(f.name.as_str())),
                        ("ty", format!("{}", t)),
                    ]));
                }
            }
            variants.push(obj(vec![
                ("name", esc(v.name.as_str())),
                ("ix", "0".into()),
                ("discr", esc("0")),
                ("fields", arr(fields)),
            ]));
        }
        obj(vec![
            ("kind", esc(kind)),
            ("local", jbool(did.is_local())),
            ("krate", esc(&krate)),
            ("variants", arr(variants)),
        ])
    }
}

fn unwind_json(u: &mir::UnwindAction) -> String {
    match u {
        mir::UnwindAction::Cleanup(bb) => format!("{}", bb.as_usize()),
        mir::UnwindAction::Continue => esc("continue"),
        mir::UnwindAction::Unreachable => esc("unreachable"),
        mir::UnwindAction::Terminate(_) => esc("terminate"),
    }
}

fn dump(tcx: TyCtxt<'_>) {
    let crate_name = tcx.crate_name(LOCAL_CRATE).to_string();
    let out_dir = match std::env::var("AVRA_FACTS_DIR") {
        Ok(d) => d,
        Err(_) => return,
    };
    let wanted = std::env::var("AVRA_FACTS_CRATES").unwrap_or_else(|_| "avra_lib,avra_rs".into());
    if !wanted.split(',').any(|c| c == crate_name) {
        return;
    }
    let mut d = Dumper {
        tcx,
        types: vec![],
        type_ix: HashMap::new(),
        adts_seen: vec![],
        adt_set: HashMap::new(),
    };

    let mut bodies: Vec<(String, String)> = vec![];
    let mut seen_keys: HashMap<String, usize> = HashMap::new();
    let mut statics = vec![];
    for ldid in tcx.mir_keys(()).iter() {
        let did = ldid.to_def_id();
        let dk = tcx.def_kind(did);
        let kind = match dk {
            DefKind::Fn => "fn",
            DefKind::AssocFn => "method",
            DefKind::Closure => "closure",
            DefKind::Static { .. } => "static",
            DefKind::Ctor(..) => continue,
            _ => continue,
        };
        let mut key = d.path(did);
        let n = seen_keys.entry(key.clone()).or_insert(0);
        if *n > 0 {
            key = format!("{}#dup{}", key, n);
        }
        *n += 1;
        let derived = match dk {
            DefKind::AssocFn => {
                let parent = tcx.parent(did);
                matches!(tcx.def_kind(parent), DefKind::Impl { .. })
                    && tcx.is_automatically_derived(parent)
            }
            _ => false,
        };
        if let DefKind::Static { mutability, .. } = dk {
            let t = tcx.type_of(did).instantiate_identity().skip_norm_wip();
            let tix = d.ty(t);
            let freeze = t.is_freeze(tcx, TypingEnv::fully_monomorphized());
            statics.push(obj(vec![
                ("path", esc(&key)),
                ("mut", jbool(mutability.is_mut())),
                ("ty", format!("{}", tix)),
                ("freeze", jbool(freeze)),
                ("thread_local", jbool(tcx.is_thread_local_static(did))),
                ("span", d.span(tcx.def_span(did))),
            ]));
            let body = tcx.mir_for_ctfe(*ldid);
            let bj = d.body(&key, kind, did, body, false);
            bodies.push((key.clone(), bj));
        } else {
            let body = tcx.optimized_mir(did);
            let bj = d.body(&key, kind, did, body, derived);
            bodies.push((key.clone(), bj));
        }
        // promoteds
        let promoted = tcx.promoted_mir(did);
        for (pix, pbody) in promoted.iter_enumerated() {
            let pkey = format!("{}#promoted{}", d.path(did), pix.as_usize());
            let bj = d.body(&pkey, "promoted", did, pbody, derived);
            bodies.push((pkey, bj));
        }
    }

    // trait impl table of the local crate
    let mut impls = vec![];
    for (trait_did, impl_list) in tcx.all_local_trait_impls(()).iter() {
        for imp in impl_list.iter() {
            let idid = imp.to_def_id();
            let self_ty = tcx.type_of(idid).instantiate_identity().skip_norm_wip();
            let st = d.ty(self_ty);
            let mut methods = vec![];
            for item in tcx.associated_items(idid).in_definition_order() {
                if matches!(tcx.def_kind(item.def_id), DefKind::AssocFn) {
                    methods.push(arr(vec![
                        esc(item.name().as_str()),
                        esc(&d.path(item.def_id)),
                    ]));
                }
            }
            impls.push(obj(vec![
                ("trait", esc(&d.path(*trait_did))),
                ("self", format!("{}", st)),
                ("derived", jbool(tcx.is_automatically_derived(idid))),
                ("methods", arr(methods)),
                ("span", d.span(tcx.def_span(idid))),
            ]));
        }
    }

    // ADT table: everything seen in a type, plus every local ADT
    for ldid in tcx.hir_crate_items(()).definitions() {
        let did = ldid.to_def_id();
        if matches!(tcx.def_kind(did), DefKind::Struct | DefKind::Enum) {
            if !d.adt_set.contains_key(&did) {
                d.adt_set.insert(did, ());
                d.adts_seen.push(did);
            }
        }
    }
    let mut adts = vec![];
    let mut i = 0;
    while i < d.adts_seen.len() {
        let did = d.adts_seen[i];
        i += 1;
        let p = d.path(did);
        let j = d.adt(did);
        adts.push((p, j));
    }

    let mut out = String::new();
    out.push_str("{");
    let _ = write!(out, "\"crate\":{},", esc(&crate_name));
    let _ = write!(
        out,
        "\"overflow_checks\":{},",
        jbool(tcx.sess.overflow_checks())
    );
    let _ = write!(out, "\"rustc\":{},", esc(&format!("{}", rustc_interface::util::rustc_version_str().unwrap_or("?"))));
    out.push_str("\"types\":");
    out.push_str(&arr(d.types.clone()));
    out.push_str(",\"statics\":");
    out.push_str(&arr(statics));
    out.push_str(",\"impls\":");
    out.push_str(&arr(impls));
    out.push_str(",\"adts\":{");
    let mut first = true;
    let mut seen_adt: HashMap<String, ()> = HashMap::new();
    for (p, j) in adts {
        if seen_adt.contains_key(&p) {
            continue;
        }
        seen_adt.insert(p.clone(), ());
        if !first {
            out.push(',');
        }
        first = false;
        out.push_str(&esc(&p));
        out.push(':');
        out.push_str(&j);
    }
    out.push_str("},\"bodies\":{");
    let mut first = true;
    for (k, j) in bodies {
        if !first {
            out.push(',');
        }
        first = false;
        out.push_str(&esc(&k));
        out.push(':');
        out.push_str(&j);
    }
    out.push_str("}}");
    let path = format!("{}/{}.json", out_dir, crate_name);
    std::fs::write(&path, out).expect("write facts");
}

struct Cb;

impl rustc_driver::Callbacks for Cb {
    fn after_analysis<'tcx>(
        &mut self,
        _compiler: &rustc_interface::interface::Compiler,
        tcx: TyCtxt<'tcx>,
    ) -> rustc_driver::Compilation {
        dump(tcx);
        rustc_driver::Compilation::Continue
    }
}

fn main() {
    let mut args: Vec<String> = std::env::args().collect();
    // RUSTC_WORKSPACE_WRAPPER: argv[1] is the real rustc path
    if args.len() > 1 && (args[1].ends_with("rustc") || args[1].contains("/rustc")) {
        args.remove(1);
    }
    let mut cb = Cb;
    rustc_driver::run_compiler(&args, &mut cb);
}
