#!/usr/bin/env python3
"""Both-ways self-test of the rules: every selftest/<prop>/mutant-*.patch must make the named instance fire on a scratch
copy of /repo, every benign-*.patch must leave the check silent.   usage: selftest/run.py [C07 ...] [--jobs N]"""
import os
import re
import shutil
import subprocess
import sys
import tempfile

HERE = os.path.dirname(os.path.abspath(__file__))
VERIF = os.path.dirname(HERE)
REPO = "/repo"


def scratch_copy():
    d = tempfile.mkdtemp(prefix="avra-selftest-")
    for ent in ("src", "includes", "Cargo.toml", "Cargo.lock", "build.rs", "rust-toolchain.toml", "tests"):
        s = os.path.join(REPO, ent)
        if os.path.isdir(s):
            shutil.copytree(s, os.path.join(d, ent))
        elif os.path.exists(s):
            shutil.copy(s, os.path.join(d, ent))
    return d


def run_patch(prop, patch):
    name = os.path.basename(patch)
    expect = []
    for line in open(patch):
        if line.startswith("# expect:"):
            expect.append(line[len("# expect:"):].strip())
    d = scratch_copy()
    ev = tempfile.mkdtemp(prefix="avra-selftest-ev-")
    try:
        body = "".join(l for l in open(patch) if not l.startswith("# "))
        r = subprocess.run(["patch", "-p1", "--no-backup-if-mismatch", "-s"], input=body, text=True, cwd=d,
                           stdout=subprocess.PIPE, stderr=subprocess.STDOUT)
        if r.returncode != 0:
            return name, "SKIPPED (patch does not apply: %s)" % r.stdout.strip().splitlines()[-1:], None
        env = dict(os.environ, AVRA_REPO=d, AVRA_EVIDENCE_DIR=ev, AVRA_OUT_DIR=ev)
        r = subprocess.run([os.path.join(VERIF, "check"), prop, "--tier", "quick"], cwd=VERIF, env=env,
                           stdout=subprocess.PIPE, stderr=subprocess.STDOUT, text=True)
        out = r.stdout
        if name.startswith("mutant"):
            fired = r.returncode == 1 and "VIOLATION property=%s" % prop in out
            named = all(any(e in l for l in out.splitlines() if ("violated" in l or "UNPROVABLE" in l)) for e in expect)
            if r.returncode == 2:
                return name, "ERROR (checker error / does not compile)", out
            if fired and named:
                return name, "ok (fires%s)" % ((": " + ", ".join(expect)) if expect else ""), None
            if fired:
                return name, "WRONG-INSTANCE (fires, but not on %s)" % expect, out
            return name, "MISSED", out
        else:
            if r.returncode == 0:
                return name, "ok (silent)", None
            return name, "FALSE-ALARM", out
    finally:
        shutil.rmtree(d, ignore_errors=True)
        shutil.rmtree(ev, ignore_errors=True)


def main():
    args = [a for a in sys.argv[1:] if not a.startswith("-")]
    verbose = "-v" in sys.argv
    props = args or sorted(p for p in os.listdir(HERE) if re.match(r"C\d+$", p))
    bad = 0
    for prop in props:
        pd = os.path.join(HERE, prop)
        if not os.path.isdir(pd):
            continue
        for f in sorted(os.listdir(pd)):
            if not f.endswith(".patch"):
                continue
            name, verdict, out = run_patch(prop, os.path.join(pd, f))
            print("%s %-50s %s" % (prop, name, verdict))
            if not verdict.startswith("ok"):
                bad += 1
                if out and verbose:
                    print(out)
    return 1 if bad else 0


if __name__ == "__main__":
    sys.exit(main())
