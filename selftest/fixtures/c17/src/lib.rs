// Positive control for the C17 absence rules: every rule must fire on this crate.
use std::collections::HashMap;
use std::sync::atomic::{AtomicUsize, Ordering};
use std::sync::{LazyLock, Mutex};

pub static COUNTER: AtomicUsize = AtomicUsize::new(0); // R1: non-Freeze static
pub static CACHE: LazyLock<Mutex<HashMap<String, u32>>> = LazyLock::new(|| Mutex::new(HashMap::new())); // R1: lazy + interior mutability
pub static mut LAST: u32 = 0; // R1: static mut

pub fn build(src: &str) -> Vec<String> {
    let mut out = vec![];
    let n = COUNTER.fetch_add(1, Ordering::SeqCst);
    let mut m: HashMap<String, u32> = HashMap::new();
    m.insert(src.to_string(), n as u32);
    for (k, v) in m.iter() {
        // R3: hash iteration
        out.push(format!("{}={}", k, v));
    }
    out.push(format!("{:?}", m)); // R3: hash container formatted
    out.push(format!("{:?}", std::time::SystemTime::now())); // R4: clock
    if let Ok(v) = std::env::var("HOME") {
        // R4: environment
        out.push(v);
    }
    CACHE.lock().unwrap().insert(src.to_string(), 1);
    out
}
