.equ F_CPU = 16000000
.ifndef F_CPU
.equ F_CPU = 8000000
.endif
.ifdef F_CPU
 .dd F_CPU
.else
 .dd 1
.endif
