.set v = 1
lab:
.def t = r16
.ifdef v
 .db 1,1
.endif
.ifdef lab
 .db 2,2
.endif
.ifdef t
 .db 3,3
.endif
 .db 9,9
