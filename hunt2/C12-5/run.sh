#!/bin/sh
# usage: run.sh /path/to/avra-rs
BIN=${1:-/tmp/hunt2-wt-4-target/debug/avra-rs}
cd "$(dirname "$0")"
for f in in control; do echo "== $f"; $BIN -v -s $f.asm -o $f.hex -e $f.eep.hex; echo "rc=$?"; done
# in: "image does not fit Intel HEX segment addressing (1 MiB)", exit 1, although the reported default capacity is 4194304 words; control builds
