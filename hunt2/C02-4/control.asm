nop
nop
.org 1
l: nop
.dw l
