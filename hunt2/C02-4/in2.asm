.dseg
.org 0
v: .byte 1
.cseg
.dw v
