nop
nop
.org 0
l: nop
.dw l
