#!/bin/sh
# usage: run.sh /path/to/avra-rs
BIN=${1:-/tmp/hunt2-wt-4-target/debug/avra-rs}
cd "$(dirname "$0")"
for f in in1 in2 in3 control; do echo "== $f"; rm -f $f.hex $f.eep.hex; $BIN -s $f.asm -o $f.hex -e $f.eep.hex; echo "rc=$?"; cat $f.hex $f.eep.hex 2>/dev/null; done
# in1: l = 2 (item after `.org 0` lands at word 2), in2: v = 0x60, in3: e = 2, eeprom 01 02 03 - all build without a word; control (.org 1 instead of .org 0) is refused as overlapping
