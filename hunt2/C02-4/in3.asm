.eseg
.db 1,2
.org 0
e: .db 3
.cseg
.dw e
