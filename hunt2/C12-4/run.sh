#!/bin/sh
# usage: run.sh /path/to/avra-rs
BIN=${1:-/tmp/hunt2-wt-4-target/debug/avra-rs}
cd "$(dirname "$0")"
$BIN -v -s in.asm -o in.hex -e in.eep.hex; echo "rc=$?"
# Flash size overdue by 1024 words: the file says FLASHEND = 0x07FF, the table enforces 1024 words
