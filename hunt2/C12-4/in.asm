.include "tn28def.inc"
.org FLASHEND
  nop
