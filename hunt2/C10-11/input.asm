.set x = 1
.if x == 1
 nop
.endif
