; set then if (macro loop)
.set i = 0
.macro rep
.if i < 3
 .db i, 0
.set i = i + 1
 rep
.endif
.endm
 rep
