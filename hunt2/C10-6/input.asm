; label called pc
 nop
 nop
pc: nop
 nop
 .dw pc
 rjmp pc
