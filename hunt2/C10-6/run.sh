#!/bin/bash
# usage: run.sh /path/to/avra-rs   (assembles every input*.asm next to this script, prints exit status and the HEX files)
B=${1:-/tmp/hunt2-wt-5-target/debug/avra-rs}
D=$(cd "$(dirname "$0")" && pwd)
T=$(mktemp -d)
cp "$D"/*.asm "$T"/; cp "$D"/*.inc "$T"/ 2>/dev/null
for f in "$T"/input*.asm; do
  n=$(basename "$f" .asm)
  echo "== $n.asm"
  "$B" -s "$f" -o "$T/$n.hex" -e "$T/$n.eep.hex"; echo "exit status: $?"
  [ -f "$T/$n.hex" ] && { echo "flash:"; cat "$T/$n.hex"; }
  [ -s "$T/$n.eep.hex" ] && { echo "eeprom:"; cat "$T/$n.eep.hex"; }
done
rm -rf "$T"
