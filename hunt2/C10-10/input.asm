; unused equ with undefined name
.equ q = nowhere + 1
 nop
