#!/bin/sh
# usage: run.sh <avra-rs binary>
d="$(dirname "$0")"
for f in horner neg33 neg33_low; do "$1" -s "$d/$f.asm" -o "$d/$f.hex"; echo "$f exit: $?"; rm -f "$d/$f.hex"; done
# HEAD: horner and neg33 -> "expression nested too deeply or too long", exit 1; neg33_low (deeper for the parser than neg33) assembles.
# f657df8: all three assemble (horner: fdffff0000000000, neg33: 0fef)
