#!/bin/sh
# usage: run.sh /path/to/avra-rs
B=${1:-/tmp/hunt2-wt-6-target/debug/avra-rs}
cd "$(dirname "$0")"
for f in zinc_1200 zinc_tn11; do rm -f $f.hex; $B -s $f.asm; echo "exit=$?"; [ -f $f.hex ] && cat $f.hex; done
# expected: refused - AT90S1200 / ATtiny11,12,15,28 have only `ld Rd,Z` and `st Z,Rr` (no post-increment / pre-decrement forms)
# observed: exit 0; 0x9111 / 0x9232 etc. written (opcodes these cores do not implement)
