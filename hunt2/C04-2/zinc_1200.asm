.device AT90S1200
ld r17, Z+
st -Z, r3
