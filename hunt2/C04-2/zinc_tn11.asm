.device ATtiny11
ld r17, -Z
st Z+, r3
