#!/bin/bash
# usage: run.sh /path/to/avra-rs   (takes 10-15 s with a debug build)
BIN=${1:-/tmp/hunt2-wt-3-target/debug/avra-rs}
cd "$(dirname "$0")"
rm -f table.hex table.eep.hex
$BIN -v -s table.asm -o table.hex -e table.eep.hex; echo "rc=$?"
# expected: rc=0, "Flash: 98304(196608) words(bytes) of 131072(262144), 75.00%"  (what f657df8 prints)
# observed: rc=1, "macro calls expand to too many lines (more than 1048576), line: 26"
