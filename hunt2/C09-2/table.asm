.device ATmega2560
; one slot of a 96 K entry jump/delay table; the body documents itself
.macro slot
 ; ---------------------------------------------
 ; slot: one word of the table
 ;  @0 = what to put there
 ; ---------------------------------------------
 .if @0 == 0
  nop
 .elif @0 == 1
  ret
 .else
  .dw @0
 .endif
 ; end of slot
.endm
.macro slot16
 slot @0
 slot @0
 slot @0
 slot @0
 slot @0
 slot @0
 slot @0
 slot @0
 slot @0
 slot @0
 slot @0
 slot @0
 slot @0
 slot @0
 slot @0
 slot @0
.endm
.macro slot256
 slot16 @0
 slot16 @0
 slot16 @0
 slot16 @0
 slot16 @0
 slot16 @0
 slot16 @0
 slot16 @0
 slot16 @0
 slot16 @0
 slot16 @0
 slot16 @0
 slot16 @0
 slot16 @0
 slot16 @0
 slot16 @0
.endm
.macro slot4096
 slot256 @0
 slot256 @0
 slot256 @0
 slot256 @0
 slot256 @0
 slot256 @0
 slot256 @0
 slot256 @0
 slot256 @0
 slot256 @0
 slot256 @0
 slot256 @0
 slot256 @0
 slot256 @0
 slot256 @0
 slot256 @0
.endm
 slot4096 0
 slot4096 0
 slot4096 0
 slot4096 0
 slot4096 0
 slot4096 0
 slot4096 0
 slot4096 0
 slot4096 1
 slot4096 1
 slot4096 1
 slot4096 1
 slot4096 1
 slot4096 1
 slot4096 1
 slot4096 1
 slot4096 0x9508
 slot4096 0x9508
 slot4096 0x9508
 slot4096 0x9508
 slot4096 0x9508
 slot4096 0x9508
 slot4096 0x9508
 slot4096 0x9508
