.includepath "/tmp/hunt2-wt-1/includes"
.include "m8def.inc"
.ifdef SPH
 ldi r16, high(RAMEND)
 out SPH, r16
.endif
 ldi r16, low(RAMEND)
 out SPL, r16
