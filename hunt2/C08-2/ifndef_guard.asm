.equ F_CPU = 8000000
.ifndef F_CPU
.equ F_CPU = 1000000
.endif
.dd F_CPU
