.equ FOO = 1
.ifdef FOO
 nop
.else
 ret
.endif
