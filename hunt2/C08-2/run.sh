#!/bin/sh
# usage: run.sh /path/to/avra-rs
d=$(dirname "$0")
for f in ifndef_guard ifdef sph_idiom; do
  echo "== $f"; "$1" -s "$d/$f.asm" -o /tmp/hunt2/C08-2/$f.hex; echo "exit=$?"; [ -f /tmp/hunt2/C08-2/$f.hex ] && cat /tmp/hunt2/C08-2/$f.hex; rm -f /tmp/hunt2/C08-2/$f.hex
done
echo "expected: ifndef_guard builds 00127A00 (8000000); ifdef builds nop (0000), not ret (0895); sph_idiom builds 04E00EBF0FE50DBF (sets SPH and SPL)"
