.macro m
.if X == 1
 nop
.else
 ret
.endif
.endmacro
.equ X = 1
 m
