.ifdef FOO
 nop
.else
 ret
.endif
.define FOO
.ifdef FOO
 nop
.else
 ret
.endif
