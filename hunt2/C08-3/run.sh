#!/bin/sh
# usage: run.sh /path/to/avra-rs
d=$(dirname "$0")
for f in input toplevel equ; do
  echo "== $f"; "$1" -s "$d/$f.asm" -o /tmp/hunt2/C08-3/$f.hex; echo "exit=$?"; [ -f /tmp/hunt2/C08-3/$f.hex ] && cat /tmp/hunt2/C08-3/$f.hex; rm -f /tmp/hunt2/C08-3/$f.hex
done
echo "expected: input and toplevel both give ret, nop (0895 0000); observed for input: nop, nop (0000 0000)"
