.macro m
.ifdef FOO
 nop
.else
 ret
.endif
.endmacro
 m
.define FOO
 m
