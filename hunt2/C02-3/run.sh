#!/bin/sh
# usage: run.sh /path/to/avra-rs
BIN=${1:-/tmp/hunt2-wt-4-target/debug/avra-rs}
cd "$(dirname "$0")"
for f in in1 in2 in3 control; do echo "== $f"; rm -f $f.hex; $BIN -s $f.asm -o $f.hex -e $f.eep.hex; echo "rc=$?"; cat $f.hex 2>/dev/null; done
# expected: build ok, nop at word 0x10, l = 0x10 (f657df8 builds in1, in2, in3)
# observed now: in1, in2: "segment overlapping isnt supported"; control (the two .org directly after one another) builds
