.org 0x20
.dseg
.cseg
.org 0x10
l: nop
.dw l
