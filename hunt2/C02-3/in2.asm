.macro at
.org @0
  nop
.endmacro
.org 0x20
  at 0x10
l: nop
.dw l
