.org 0x20
.eseg
e: .db 1
.cseg
.org 0x10
l: nop
.dw l
