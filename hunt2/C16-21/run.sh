#!/bin/sh
# usage: run.sh <path-to-avra-rs-binary>
# The CLI runs on the 8 MiB main thread and survives this input (prints an evaluator error); the overflow shows on a
# default 2 MiB thread (cargo test, or any std::thread::spawn caller of avra_lib::builder::build_file / build_str).
d="$(dirname "$0")"
"$1" -s "$d/input.asm" -o "$d/out.hex"; echo "cli exit with the default 8 MiB stack: $?"
# the same binary with the stack of a default Rust thread:
( ulimit -s 2048; "$1" -s "$d/input.asm" -o "$d/out.hex"; echo "cli exit under ulimit -s 2048: $? (134 = SIGABRT, 'has overflowed its stack')" )
rm -f "$d/out.hex"
# library on a 2 MiB thread: copy probe2.rs into <worktree>/examples/ and run
#   CARGO_NET_OFFLINE=true CARGO_TARGET_DIR=<target> cargo run --offline --example probe2 -- input.asm
#   -> "thread '<unknown>' has overflowed its stack / fatal runtime error: stack overflow, aborting"
