 nop
.endif
 ret
