 nop
.if 0
.else
 nop
.else
 ret
.endif
