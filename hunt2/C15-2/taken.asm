 nop
.if 1
 ret
