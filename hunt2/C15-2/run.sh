#!/bin/sh
# usage: run.sh /path/to/avra-rs
d=$(dirname "$0")
for f in untaken taken stray_endif two_else; do
  echo "== $f"; "$1" -s "$d/$f.asm" -o /tmp/hunt2/C15-2/$f.hex; echo "exit=$?"; rm -f /tmp/hunt2/C15-2/$f.hex
done
echo "observed: only 'untaken' fails (conditional without its .endif, line: 2); the other three build"
