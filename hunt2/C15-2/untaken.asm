 nop
.if 0
 ret
