.device ATtiny13
.eseg
tab: .byte 8*8+1
