#!/bin/sh
# usage: run.sh /path/to/avra-rs
BIN=${1:-/tmp/hunt2-wt-4-target/debug/avra-rs}
cd "$(dirname "$0")"
for f in ram_equ ram_expr eep_expr control; do echo "== $f"; $BIN -v -s $f.asm -o $f.hex -e $f.eep.hex; echo "rc=$?"; done
# ATtiny13 has 64 bytes of RAM and 64 of EEPROM: all four need 65 and must fail. Only control (literal 65) fails; the others build and report RAM/EEPROM usage 0.
