.device ATtiny13
.equ BUFSIZE = 65
.dseg
buf: .byte BUFSIZE
