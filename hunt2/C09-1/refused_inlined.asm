.device ATmega328P
 nop
 .dseg
 .org 0x120
v: .byte 2
 .cseg
 lds r16, v
