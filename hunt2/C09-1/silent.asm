.device ATmega328P
.macro tocode
 .cseg
.endm
.eseg
 .db 0xEE
 tocode
 .org 0x10
 .db 1, 2
