#!/bin/bash
# usage: run.sh /path/to/avra-rs
BIN=${1:-/tmp/hunt2-wt-3-target/debug/avra-rs}
cd "$(dirname "$0")"
for f in silent silent_inlined refused refused_inlined; do
  rm -f $f.hex $f.eep.hex
  echo "== $f"; $BIN -s $f.asm -o $f.hex -e $f.eep.hex; echo "rc=$?"
  [ -f $f.hex ] && { echo "-- flash"; cat $f.hex; }
  [ -f $f.eep.hex ] && { echo "-- eeprom"; cat $f.eep.hex; }
done
# expected: silent == silent_inlined (01 02 in flash at word 0x10, EE in eeprom) ; refused builds like refused_inlined
