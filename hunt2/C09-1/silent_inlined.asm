.device ATmega328P
.eseg
 .db 0xEE
 .cseg
 .org 0x10
 .db 1, 2
