.device ATmega328P
.macro tovars
 .dseg
.endm
 nop
 tovars
 .org 0x120
v: .byte 2
 .cseg
 lds r16, v
