; SIZ is defined nowhere
.dseg
buf: .byte SIZ
nxt: .byte 1
.cseg
 lds r16, nxt
