#define VAL 9
.set VAL = 2
 .db VAL, 0
