; equ x then #define X
.equ lim = 10
#define LIM 20
 .db lim, LIM, Lim, 0
