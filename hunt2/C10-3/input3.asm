; same spelling, upper case
 nop
 nop
#define FOO
FOO: nop
 rjmp FOO
