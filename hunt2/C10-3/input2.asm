; label `start` and flag `#define START`: the two spellings of one name mean different things
 nop
 nop
#define START
start:
 nop
 nop
 rjmp START
 rjmp start
