#!/bin/sh
# usage: run.sh <avra-rs binary>
d="$(dirname "$0")"
for f in plain with_comment; do "$1" -s "$d/$f.asm" -o "$d/$f.hex" -v; echo "$f exit: $?"; done
# plain: one nop, exit 0. with_comment (a trailing `;` comment added to the body line, 13 KB long, that mentions @0 6600 times):
# "a line of the macro body becomes too long with the arguments put in", exit 1
