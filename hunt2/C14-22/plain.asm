.macro m
nop
.endmacro
m 1234567890
