#!/bin/sh
# usage: run.sh /path/to/avra-rs
B=${1:-/tmp/hunt2-wt-6-target/debug/avra-rs}
cd "$(dirname "$0")"
rm -f y.hex both.hex both.eep.hex
echo "== -o y.hex -e ./y.hex (one file, two spellings)"
$B -s both.asm -o y.hex -e ./y.hex; echo "exit=$?"
cat y.hex
echo "== -s ./both.asm -e both.hex (default flash path ./both.hex is the same file as -e both.hex)"
$B -s ./both.asm -e both.hex; echo "exit=$?"
cat both.hex
# expected: either refused (as `-o y.hex -e y.hex` is: exit 1, 'flash and eeprom image would go to the same file') or a flash file holding 01 E0 FE CF
# observed: exit 0, nothing reported; the file holds only the EEPROM image 01 02 03 - the flash image written first is overwritten
