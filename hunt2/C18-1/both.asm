ldi r16,1
rjmp 0
.eseg
.db 1,2,3
