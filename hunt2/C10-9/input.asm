.def a = r16
.def b = r17
.undef a, b
 ldi b, 1
