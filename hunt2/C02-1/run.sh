#!/bin/sh
# usage: run.sh /path/to/avra-rs
BIN=${1:-/tmp/hunt2-wt-4-target/debug/avra-rs}
cd "$(dirname "$0")"
$BIN -v -s in.asm -o out.hex -e out.eep.hex; echo "rc=$?"; cat out.hex
# expected data record 60 00 63 00 66 00 and RAM 7 bytes; observed 60 00 60 00 60 00 and RAM 1 bytes
