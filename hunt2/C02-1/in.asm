.device ATtiny13
.equ N = 3
.dseg
a: .byte N
b: .byte 1+2
c: .byte 1
.cseg
.dw a, b, c
