 .dq 4611686018427387904 << 2   ; 2^62 * 4
 .dq 4611686018427387904 * 4    ; the same product: refused (left in to show the contrast; comment it out to see the first line assemble)
