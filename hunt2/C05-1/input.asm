 .dq 4611686018427387904 << 2   ; 2^62 * 4 -> 0
 .dq 1 << 63                    ; -> i64 min, while exp2(63) is refused as out of range
 .dq 0x7fffffffffffffff << 6    ; -> -64
 .dq 5 << 63                    ; -> i64 min
