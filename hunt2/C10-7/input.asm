.equ foo = 2
 .db foo, 0
#define foo 1
 .db foo, 0
.if foo == 2
 .db 0xaa, 0
.endif
