#!/bin/sh
# usage: run.sh <avra-rs binary>; a single 63 KB line with a bare CR in it, takes about 80 s (debug build) before the parse error comes
time "$1" -s "$(dirname "$0")/input.asm" -o "$(dirname "$0")/out.hex"; echo "exit: $?"
