.equ N = 4
.dseg
a: .byte N
b: .byte 1+1
c: .byte 1
.cseg
 .dw a, b, c
