#!/bin/sh
# usage: run.sh /path/to/avra-rs
d=$(dirname "$0")
for f in undef negative constant; do
  echo "== $f"; "$1" -s "$d/$f.asm" -o /tmp/hunt2/C15-3/$f.hex; echo "exit=$?"; [ -f /tmp/hunt2/C15-3/$f.hex ] && cat /tmp/hunt2/C15-3/$f.hex; rm -f /tmp/hunt2/C15-3/$f.hex
done
echo "expected: undef and negative fail naming line 2; constant gives 6000 6400 6600. observed: all build; every label is 0x60"
