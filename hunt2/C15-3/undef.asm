.dseg
a: .byte undefd
b: .byte 1
.cseg
 .dw b
