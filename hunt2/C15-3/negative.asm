.dseg
a: .byte -1
b: .byte 1
.cseg
 .dw b
