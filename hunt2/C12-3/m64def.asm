.include "m64def.inc"
  nop
