.include "m165def.inc"
  nop
