#!/bin/sh
# usage: run.sh /path/to/avra-rs
BIN=${1:-/tmp/hunt2-wt-4-target/debug/avra-rs}
cd "$(dirname "$0")"
for f in m64def m8535def m2561def m165def; do echo "== $f"; $BIN -v -s $f.asm -o $f.hex -e $f.eep.hex; echo "rc=$?"; done
# each: "unknown device ATmegaNN in line: 47" - the shipped file cannot be included at all
