.include "m2561def.inc"
  nop
