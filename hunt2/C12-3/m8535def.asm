.include "m8535def.inc"
  nop
