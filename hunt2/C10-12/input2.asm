; same def twice same reg
.def t = r16
.def T = r16
 ldi t, 1
