; the Atmel assembler manual on .DEF: "A symbol can be redefined later in the program."
.def t = r16
 ldi t, 1
.def t = r17
 ldi t, 2
