.device ATmega328P
.macro stop_if
 .if @0
  .exit
 .endif
 ldi r16, @0
.endm
 nop
 stop_if 0
 stop_if 1
 ser r17
