.device ATmega328P
 nop
 .if 0
  .exit
 .endif
 ldi r16, 0
 .if 1
  .exit
 .endif
 ldi r16, 1
 ser r17
