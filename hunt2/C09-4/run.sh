#!/bin/bash
# usage: run.sh /path/to/avra-rs
BIN=${1:-/tmp/hunt2-wt-3-target/debug/avra-rs}
cd "$(dirname "$0")"
for f in exit_in_body exit_inlined; do rm -f $f.hex; echo "== $f"; $BIN -s $f.asm -o $f.hex -e $f.eep.hex; echo "rc=$?"; cat $f.hex; done
# expected: both images equal (0000 00E0: nop, ldi r16,0, then .exit ends the assembly)
# observed: the macro version goes on after the call: 0000 00E0 1FEF (ser r17 is assembled)
