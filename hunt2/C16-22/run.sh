#!/bin/sh
# usage: run.sh <avra-rs binary>; a single 63 KB line, takes about 50 s (debug build) before it answers
time "$1" -s "$(dirname "$0")/input.asm" -o "$(dirname "$0")/out.hex"; echo "exit: $?"
