; the usual way to take the length of a table
table: .db 1, 2, 3, 4, 5, 6
.equ table_words = pc - table      ; 3 here
 nop
 nop
 ldi r16, table_words               ; expected 3
 .dw table_words                    ; expected 3
