#!/bin/bash
# usage: run.sh /path/to/avra-rs
BIN=${1:-/tmp/hunt2-wt-3-target/debug/avra-rs}
cd "$(dirname "$0")"
for f in direct64 arg64 direct120 arg120; do
  rm -f $f.hex $f.eep.hex
  echo "== $f"; $BIN -s $f.asm -o $f.hex -e $f.eep.hex; echo "rc=$?"; [ -f $f.hex ] && cat $f.hex
done
# expected: argN gives the same word as directN; observed: argN fails with "expression nested too deeply or too long, line: 3"
