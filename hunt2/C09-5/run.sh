#!/bin/bash
# usage: run.sh /path/to/avra-rs
BIN=${1:-/tmp/hunt2-wt-3-target/debug/avra-rs}
cd "$(dirname "$0")"
for f in rep_64 rep_65; do rm -f $f.hex; echo "== $f"; $BIN -v -s $f.asm -o $f.hex -e $f.eep.hex | egrep "Flash|Failed"; echo "rc=$?"; done
# rep_64 builds 64 words (64, 63, ... 1); rep_65 is refused: "macro rep is nested too deeply (does it call itself?), line: 5"
