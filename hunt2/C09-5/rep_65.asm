.device ATmega328P
.macro rep
 .if @0 > 0
  .dw @0
  rep @0-1
 .endif
.endm
 rep 65
