.device ATtiny10
ldd r17, Y+32
std Z+40, r20
ldd r16, Z+1
