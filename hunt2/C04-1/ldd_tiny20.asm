.device ATtiny20
ldd r17, Y+32
std Z+40, r20
