#!/bin/sh
# usage: run.sh /path/to/avra-rs
# ATtiny10/20 are reduced (AVRrc / avr8l) cores: no LDD/STD; opcodes 1010 0kkk dddd kkkk / 1010 1kkk dddd kkkk are the one-word LDS/STS there.
B=${1:-/tmp/hunt2-wt-6-target/debug/avra-rs}
cd "$(dirname "$0")"
for f in ldd_tiny10 ldd_tiny20; do
  rm -f $f.hex
  $B -s $f.asm; echo "exit=$?"
  [ -f $f.hex ] && cat $f.hex
done
# expected: both builds fail (ldd/std do not exist on the reduced core)
# observed: exit 0; ldd r17,Y+32 -> 18 A1 (0xA118 = 16-bit `lds r17,0x48` on this core); std Z+40,r20 -> 40 A7 (0xA740 = 16-bit `lds r20,0x70`, a load)
