#!/bin/sh
# usage: run.sh /path/to/avra-rs
d=$(dirname "$0")
for f in endif_taken endif_untaken else_taken else_untaken elif_untaken; do
  echo "== $f"; "$1" -s "$d/$f.asm" -o "$d/$f.hex"; echo "exit=$?"; [ -f "$d/$f.hex" ] && cat "$d/$f.hex"
done
