.if 0
 nop
lbl: .elif 1
 nop
 nop
.endif
 rjmp lbl
