.if 1
 nop
lbl: .else
 nop
 nop
.endif
 rjmp lbl
