.if 0
 nop
lbl: .else
 nop
 nop
.endif
 rjmp lbl
