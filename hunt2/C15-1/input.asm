.macro m
.message "m@0"
.endmacro
.macro n
.warning "n start"
 m @0
.warning "n end"
.endmacro
.message "top1"
 n 7
.message "top2"
 m 8
.message "top3"
