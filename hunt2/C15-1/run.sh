#!/bin/sh
# usage: run.sh /path/to/avra-rs   (CLI binary; -v prints the message list in the order of the result)
d=$(dirname "$0")
"$1" -s "$d/input.asm" -o /tmp/hunt2/C15-1/out.hex -v
echo "exit=$?"
echo "expected order: top1, n start, m7, n end, top2, m8, top3 (order of assembly) - or at least ascending line numbers"
