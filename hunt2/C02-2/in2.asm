.macro todata
.dseg
.endmacro
  nop
  todata
  .org 0x80
v: .byte 1
  .cseg
  .dw v
