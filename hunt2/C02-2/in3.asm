.macro var
.dseg
@0: .byte @1
.endmacro
  nop
  var a, 2
  .org 0x70
b: .byte 1
  .cseg
  nop
  .dw a, b
