.macro toeep
.eseg
.endmacro
  nop
  toeep
  .db 1
  .org 4
e: .db 2
  .cseg
c: nop
  .dw e, c
