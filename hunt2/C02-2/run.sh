#!/bin/sh
# usage: run.sh /path/to/avra-rs
BIN=${1:-/tmp/hunt2-wt-4-target/debug/avra-rs}
cd "$(dirname "$0")"
for f in in1 in2 in3; do echo "== $f"; rm -f $f.hex $f.eep.hex; $BIN -s $f.asm -o $f.hex -e $f.eep.hex; echo "rc=$?"; echo flash:; cat $f.hex 2>/dev/null; echo eeprom:; cat $f.eep.hex 2>/dev/null; done
# in1 expected: flash = nop, nop, .dw 4, .dw 1 (8 bytes: 00 00 00 00 04 00 01 00); eeprom = 01 00 00 00 02
# in1 observed: flash 16 bytes 00*8 02 00 00 00 04 00 05 00 (the .db 2 sits in FLASH at word 4, c = 5); eeprom = 01 only
# in2 expected: builds, v = 0x80. observed: ".byte are not allowed in code segment, line: 7"
# in3 expected: builds, a=0x60 b=0x70. observed: refused the same way
