; enumeration with a running .set counter
.set cnt = 0
.equ first = cnt
.set cnt = cnt + 1
.equ second = cnt
.set cnt = cnt + 1
.equ third = cnt
 .db first, second, third, cnt
