#!/bin/sh
# usage: run.sh /path/to/avra-rs
BIN=${1:-/tmp/hunt2-wt-4-target/debug/avra-rs}
cd "$(dirname "$0")"
for f in flash ram eep ram_usage; do echo "== $f"; $BIN -v -s $f.asm -o $f.hex -e $f.eep.hex; echo "rc=$?"; done
# flash/ram/eep: programs that occupy 1-2 words of flash and nothing else are refused (overdue by 1); f657df8 builds flash.asm.
# ram_usage: builds, reports RAM: 16 bytes of 64 although the data segment holds nothing (no label, no reservation).
