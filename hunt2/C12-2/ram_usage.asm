.device ATtiny13
  nop
.dseg
.org 0x70
.cseg
  nop
