.device ATtiny13
  nop
.eseg
.org 0x41
.cseg
  nop
