.device ATtiny13
  nop
.dseg
.org 0xa1
.cseg
  nop
