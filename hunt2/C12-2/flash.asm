.device ATtiny13
  nop
.org 0x201
