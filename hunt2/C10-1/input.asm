.equ SIZE = 4
.dseg
buf: .byte SIZE
nxt: .byte 1
.cseg
 lds r16, nxt
 lds r16, buf
