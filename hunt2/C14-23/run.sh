#!/bin/sh
# usage: run.sh <avra-rs binary>
d="$(dirname "$0")"
for f in upper lower_ifdef lower_ref; do "$1" -s "$d/$f.asm" -o "$d/$f.hex"; echo "$f exit: $?"; cat "$d/$f.hex" 2>/dev/null; rm -f "$d/$f.hex"; done
# upper: 0000 37e0.  lower_ifdef (`.ifdef flag`): 37e0 only - the nop is silently gone.  lower_ref (`ldi r19, dval`): "Identifier dval can not be found"
