#define FLAG
#define DVAL 7
.ifdef FLAG
nop
.endif
ldi r19, dval
