#define FLAG
#define DVAL 7
.ifdef flag
nop
.endif
ldi r19, DVAL
