.macro m
nop































































































































































































































































































































































































































































































































































































































































































































































































































































































































































































































































.endmacro
m
m
m
m
m
m
m
m
m
m
m
m
m
m
m
m
m
m
m
m
m
m
m
m
m
m
m
m
m
m
m
m
m
m
m
m
m
m
m
m
m
m
m
m
m
m
m
m
m
m
m
m
m
m
m
m
m
m
m
m
m
m
m
m
m
m
m
m
m
m
m
m
m
m
m
m
m
m
m
m
m
m
m
m
m
m
m
m
m
m
m
m
m
m
m
m
m
m
m
m
m
m
m
m
m
m
m
m
m
m
m
m
m
m
m
m
m
m
m
m
m
m
m
m
m
m
m
m
m
m
m
m
m
m
m
m
m
m
m
m
m
m
m
m
m
m
m
m
m
m
m
m
m
m
m
m
m
m
m
m
m
m
m
m
m
m
m
m
m
m
m
m
m
m
m
m
m
m
m
m
m
m
m
m
m
m
m
m
m
m
m
m
m
m
m
m
m
m
m
m
m
m
m
m
m
m
m
m
m
m
m
m
m
m
m
m
m
m
m
m
m
m
m
m
m
m
m
m
m
m
m
m
m
m
m
m
m
m
m
m
m
m
m
m
m
m
m
m
m
m
m
m
m
m
m
m
m
m
m
m
m
m
m
m
m
m
m
m
m
m
m
m
m
m
m
m
m
m
m
m
m
m
m
m
m
m
m
m
m
m
m
m
m
m
m
m
m
m
m
m
m
m
m
m
m
m
m
m
m
m
m
m
m
m
m
m
m
m
m
m
m
m
m
m
m
m
m
m
m
m
m
m
m
m
m
m
m
m
m
m
m
m
m
m
m
m
m
m
m
m
m
m
m
m
m
m
m
m
m
m
m
m
m
m
m
m
m
m
m
m
m
m
m
m
m
m
m
m
m
m
m
m
m
m
m
m
m
m
m
m
m
m
m
m
m
m
m
m
m
m
m
m
m
m
m
m
m
m
m
m
m
m
m
m
m
m
m
m
m
m
m
m
m
m
m
m
m
m
m
m
m
m
m
m
m
m
m
m
m
m
m
m
m
m
m
m
m
m
m
m
m
m
m
m
m
m
m
m
m
m
m
m
m
m
m
m
m
m
m
m
m
m
m
m
m
m
m
m
m
m
m
m
m
m
m
m
m
m
m
m
m
m
m
m
m
m
m
m
m
m
m
m
m
m
m
m
m
m
m
m
m
m
m
m
m
m
m
m
m
m
m
m
m
m
m
m
m
m
m
m
m
m
m
m
m
m
m
m
m
m
m
m
m
m
m
m
m
m
m
m
m
m
m
m
m
m
m
m
m
m
m
m
m
m
m
m
m
m
m
m
m
m
m
m
m
m
m
m
m
m
m
m
m
m
m
m
m
m
m
m
m
m
m
m
m
m
m
m
m
m
m
m
m
m
m
m
m
m
m
m
m
m
m
m
m
m
m
m
m
m
m
m
m
m
m
m
m
m
m
m
m
m
m
m
m
m
m
m
m
m
m
m
m
m
m
m
m
m
m
m
m
m
m
m
m
m
m
m
m
m
m
m
m
m
m
m
m
m
m
m
m
m
m
m
m
m
m
m
m
m
m
m
m
m
m
m
m
m
m
m
m
m
m
m
m
m
m
m
m
m
m
m
m
m
m
m
m
m
m
m
m
m
m
m
m
m
m
m
m
m
m
m
m
m
m
m
m
m
m
m
m
m
m
m
m
m
m
m
m
m
m
m
m
m
m
m
m
m
m
m
m
m
m
m
m
m
m
m
m
m
m
m
m
m
m
m
m
m
m
m
m
m
m
m
m
m
m
m
m
m
m
m
m
m
m
m
m
m
m
m
m
m
m
m
m
m
m
m
m
m
m
m
m
m
m
m
m
m
m
m
m
m
m
m
m
m
m
m
m
m
m
m
m
m
m
m
m
m
m
m
m
m
m
m
m
m
m
m
m
m
m
m
m
m
m
m
m
m
m
m
m
m
m
m
m
m
m
m
m
m
m
m
m
m
m
m
m
m
m
m
m
m
m
m
m
m
m
m
m
m
m
m
m
m
m
m
m
m
m
m
m
m
m
m
m
m
m
m
m
m
m
m
m
m
m
m
m
m
m
m
m
m
m
m
m
m
m
m
m
m
m
m
m
m
m
m
m
m
m
m
m
m
m
m
m
m
m
m
m
m
m
m
m
m
m
m
m
m
m
m
m
m
m
m
m
m
m
m
m
m
m
m
m
m
m
m
m
m
m
m
m
m
m
m
m
m
m
m
m
m
m
m
m
m
m
m
m
m
m
m
m
m
m
m
m
m
m
m
m
m
m
m
m
m
m
m
m
m
m
m
m
m
m
m
m
m
m
m
m
m
m
m
m
m
m
