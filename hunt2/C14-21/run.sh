#!/bin/sh
# usage: run.sh <avra-rs binary>
d="$(dirname "$0")"
for f in plain blank_lines comment_lines; do
  "$1" -s "$d/$f.asm" -o "$d/$f.hex" -v; echo "$f exit: $?"
done
# plain: 1025 words of nop, exit 0.  blank_lines / comment_lines (same program, 1023 blank resp. comment-only lines added
# inside the macro body): "macro calls expand to too many lines (more than 1048576)", exit 1
