# regenerates the two inputs
A = "a" * 30000
for levels, out in ((3, "long_arg_4096.asm"), (4, "long_arg_65536.asm")):
    src = ".device ATmega328P\n.equ %s = 1\n.macro m\n .dw @0\n.endm\n" % A
    prev = "m"
    for name in ("m16", "m256", "m4096", "m65536")[:levels]:
        src += ".macro %s\n" % name + (" %s @0\n" % prev) * 16 + ".endm\n"
        prev = name
    open(out, "w").write(src + " %s %s\n" % (prev, A))
