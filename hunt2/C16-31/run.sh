#!/bin/bash
# usage: run.sh /path/to/avra-rs   (use a release build: the debug build is ~10x slower)
BIN=${1:-/tmp/hunt2-wt-3-target/release/avra-rs}
cd "$(dirname "$0")"
echo "== 4096 calls (60 KB source, 4096 words of output): time and peak memory"
/usr/bin/time -v $BIN -s long_arg_4096.asm -o a.hex 2>&1 | egrep "rror|Maximum resident|Elapsed"
echo "== 65536 calls (60 KB source) under a 2 GB address-space cap"
( ulimit -v 2000000; /usr/bin/time -v $BIN -s long_arg_65536.asm -o b.hex 2>&1 | egrep "rror|memory|signal|Maximum resident|Elapsed" | cut -c1-200 )
# observed (release build): 6 s / 244 MB for the first; the second runs 98 s and dies with
#   "memory allocation of 30000 bytes failed" / "Command terminated by signal 6"
echo "== comment-only body, one call (60 KB source, empty output): peak memory"
/usr/bin/time -v $BIN -s comment_body.asm -o c.hex 2>&1 | egrep "rror|Maximum resident|Elapsed"
# observed: 0.8 s, 296 MB peak RSS
