; ATtiny13: 64 bytes of EEPROM.  The macro switches to the EEPROM segment; bytes at 63 and 64 -> one too many
.device ATtiny13
.macro toe
.eseg
.endmacro
toe
.org 63
.db 1,2
