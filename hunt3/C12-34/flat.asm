; the same with the body in place: refused
.device ATtiny13
.eseg
.org 63
.db 1,2
