#!/bin/sh
# usage: run.sh /path/to/avra-rs ; expected: all three fail with "Eeprom size overdue by 1 bytes"
BIN=${1:-/tmp/hunt3-wt-3-target/debug/avra-rs}
cd "$(dirname "$0")"
for f in eeprom_org nested flat; do
  echo "== $f"; "$BIN" -v -s $f.asm -o /tmp/hunt3/C12-34/out.hex -e /tmp/hunt3/C12-34/out.eep.hex; echo "exit $?"
done
rm -f /tmp/hunt3/C12-34/out.hex /tmp/hunt3/C12-34/out.eep.hex
