; the switch stands in a macro called by the macro; bytes at 64.. of a 64-byte EEPROM
.device ATtiny13
.macro inner
.eseg
.endmacro
.macro outer
inner
.org 64
.db 1
.endmacro
outer
