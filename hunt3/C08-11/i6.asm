.ifndef tmp
.def tmp = r16
.endif
.ifndef tmp
.def tmp = r17
.endif
ldi tmp, 1
