.set x = 1
.ifdef x
ldi r16, 1
.else
ldi r16, 2
.endif
