.ifndef COUNTER
.set COUNTER = 0
.endif
.set COUNTER = COUNTER + 1
.ifndef COUNTER
.set COUNTER = 0
.endif
.set COUNTER = COUNTER + 1
ldi r16, COUNTER
