.ifndef tmpv
.set tmpv = 1
.endif
.ifndef tmpv
.set tmpv = 2
.endif
ldi r16, tmpv
