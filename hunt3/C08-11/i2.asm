lbl: nop
.ifdef lbl
ldi r16, 1
.else
ldi r16, 2
.endif
