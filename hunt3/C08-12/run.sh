#!/bin/bash
# usage: run.sh /path/to/avra-rs
B=${1:-/tmp/hunt3-wt-1-target/debug/avra-rs}; D=$(cd $(dirname $0) && pwd)
for f in k3 k3b; do echo "== $f"; cat $D/$f.asm; $B -s $D/$f.asm -o /tmp/h3_$f.hex -e /tmp/h3_$f.eep.hex; echo "exit=$?"; cat /tmp/h3_$f.hex 2>/dev/null; rm -f /tmp/h3_$f.hex /tmp/h3_$f.eep.hex; done
