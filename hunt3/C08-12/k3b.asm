.macro defs
.equ BAUD = 96
.endm
defs
.if BAUD > 0
ldi r16, 1
.endif
