.macro defs
.equ BAUD = 96
.endm
defs
.ifdef BAUD
ldi r16, 1
.else
ldi r16, 2
.endif
ldi r17, BAUD
