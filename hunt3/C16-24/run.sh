#!/bin/sh
# usage: run.sh /path/to/avra-rs      (about 70 s and 2 GB in the debug build)
BIN=${1:-/tmp/hunt3-wt-2-target/debug/avra-rs}
cd "$(dirname "$0")"
/usr/bin/time -f "elapsed %e s, peak resident memory %M KB" "$BIN" -s dense_data.asm -o /tmp/hunt3-C16-24.hex
echo "exit $?"
rm -f /tmp/hunt3-C16-24.hex
