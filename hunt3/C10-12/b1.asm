.equ SIZE = 4
.dseg
buf: .byte SIZE
next: .byte 1
.cseg
ldi r16, next - buf
