.dseg
buf: .byte 2+2
next: .byte 1
.cseg
ldi r16, next - buf
