.set s = 1
.equ a = s
.set s = 2
ldi r16, a
