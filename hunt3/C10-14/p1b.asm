nop
.equ here = pc
ldi r16, here
nop
ldi r17, here
.dw here
