.if 1
nop
lbl: .endif
rjmp lbl
