.if 0
lbl: .else
nop
.endif
rjmp lbl
