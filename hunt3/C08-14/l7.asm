.if 0
nop
lbl: .endif
rjmp lbl
