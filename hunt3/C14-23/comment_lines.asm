.macro m0
  ; this operation is explained at some length for the reader of the macro this operation is explained at some length for the reader of the macro this operation is explained at some length for the reader of the macro this operation is explained at some length for the reader of the macro
  nop
  ; this operation is explained at some length for the reader of the macro this operation is explained at some length for the reader of the macro this operation is explained at some length for the reader of the macro this operation is explained at some length for the reader of the macro
  nop
  ; this operation is explained at some length for the reader of the macro this operation is explained at some length for the reader of the macro this operation is explained at some length for the reader of the macro this operation is explained at some length for the reader of the macro
  nop
  ; this operation is explained at some length for the reader of the macro this operation is explained at some length for the reader of the macro this operation is explained at some length for the reader of the macro this operation is explained at some length for the reader of the macro
  nop
.endmacro
.macro m1
m0
m0
m0
m0
m0
m0
m0
m0
m0
m0
m0
m0
m0
m0
m0
m0
.endmacro
.macro m2
m1
m1
m1
m1
m1
m1
m1
m1
m1
m1
m1
m1
m1
m1
m1
m1
.endmacro
.macro m3
m2
m2
m2
m2
m2
m2
m2
m2
m2
m2
m2
m2
m2
m2
m2
m2
.endmacro
.macro m4
m3
m3
m3
m3
m3
m3
m3
m3
m3
m3
m3
m3
m3
m3
m3
m3
.endmacro
m4
