#!/bin/sh
# usage: run.sh /path/to/avra-rs
# Three spellings of one program (65536 expansions of a 4-instruction macro through four levels of 16 calls):
# plain.asm, trailing.asm (a 286-character `;` comment behind each of the four instructions), comment_lines.asm
# (the same comment on a line of its own in front of each instruction). Each run takes some seconds.
BIN=${1:-/tmp/hunt3-wt-2-target/debug/avra-rs}
cd "$(dirname "$0")"
for f in plain trailing comment_lines; do
  rm -f /tmp/hunt3-C14-23.hex
  "$BIN" -s $f.asm -o /tmp/hunt3-C14-23.hex; echo "$f: exit $?, image md5 $(md5sum < /tmp/hunt3-C14-23.hex 2>/dev/null | cut -c1-12)"
done
rm -f /tmp/hunt3-C14-23.hex
