#define FOO 1
foo: nop
ldi r17, FOO
ldi r18, foo
