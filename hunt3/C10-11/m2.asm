.equ foo = 2
#define FOO 1
ldi r16, foo
ldi r17, FOO
ldi r18, Foo
