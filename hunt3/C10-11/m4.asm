#define FOO 1
.set foo = 7
ldi r17, FOO
ldi r18, foo
