#define FOO 1
.equ foo = 2
ldi r16, foo
ldi r17, FOO
ldi r18, Foo
