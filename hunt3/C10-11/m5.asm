#define FOO 1
.def foo = r20
ldi r17, FOO
mov r18, foo
mov r18, FOO
