#!/bin/bash
# usage: run.sh /path/to/avra-rs
B=${1:-/tmp/hunt3-wt-1-target/debug/avra-rs}; D=$(cd $(dirname $0) && pwd)
for f in m1 m2 m3 m4 m5; do echo "== $f"; cat $D/$f.asm; $B -s $D/$f.asm -o /tmp/$f.hex -e /tmp/$f.eep.hex; echo "exit=$?"; cat /tmp/$f.hex 2>/dev/null; rm -f /tmp/$f.hex /tmp/$f.eep.hex; done
# m1: '#define FOO 1' then '.equ foo = 2' builds: foo -> 2, FOO -> 1, Foo -> 2 (hex 02E0 11E0 22E0); m2 (other order) is refused
