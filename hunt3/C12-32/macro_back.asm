; the body leaves code and comes back: the .org 0x201 still has nothing behind it in flash
.device ATtiny13
.macro m
.eseg
.org 19
.db 1
.cseg
.endmacro
nop
.org 0x201
m
