.device ATtiny13
.eseg
.org 65
.cseg
nop
.eseg
.org 66
.cseg
nop
.eseg
.org 67
.cseg
