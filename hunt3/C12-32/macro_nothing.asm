; the macro call in the later code segment expands to nothing
.device ATtiny13
.macro nothing
.endmacro
nop
.org 0x201
.dseg
.byte 1
.cseg
nothing
