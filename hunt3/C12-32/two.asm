; control: with two such .org the repair works (builds, RAM: 0)
.device ATtiny13
.dseg
.org 0x70
.cseg
nop
.dseg
.org 0x80
.cseg
nop
