; nothing is ever reserved in the data segment: three .org that nothing follows
.device ATtiny13
.dseg
.org 0x70
.cseg
nop
.dseg
.org 0x80
.cseg
nop
.dseg
.org 0x90
.cseg
nop
