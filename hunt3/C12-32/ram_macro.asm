.device ATtiny13
.macro nothing
.endmacro
.dseg
.org 0x70
.cseg
nop
.dseg
nothing
.cseg
