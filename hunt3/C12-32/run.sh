#!/bin/sh
# usage: run.sh /path/to/avra-rs
# expected: every file builds (exit 0) and reports RAM: 0 bytes, Flash: <= 2 words, EEPROM: 0/1 bytes
BIN=${1:-/tmp/hunt3-wt-3-target/debug/avra-rs}
cd "$(dirname "$0")"
for f in ram3 flash3 eeprom3 macro_nothing macro_back ram_macro two; do
  echo "== $f"; "$BIN" -v -s $f.asm -o /tmp/hunt3/C12-32/out.hex -e /tmp/hunt3/C12-32/out.eep.hex; echo "exit $?"
done
rm -f /tmp/hunt3/C12-32/out.hex /tmp/hunt3/C12-32/out.eep.hex
