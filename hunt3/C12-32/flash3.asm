; one word of code; the three .org past the end of flash have nothing behind them
.device ATtiny13
nop
.org 0x201
.dseg
.byte 1
.cseg
.org 0x202
.dseg
.byte 1
.cseg
.org 0x203
