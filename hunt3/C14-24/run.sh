#!/bin/sh
# usage: run.sh /path/to/avra-rs      (each run takes 30-40 s in the debug build and up to 830 MB)
BIN=${1:-/tmp/hunt3-wt-2-target/debug/avra-rs}
cd "$(dirname "$0")"
for f in plain semicolon_lines block_lines; do
  rm -f /tmp/hunt3-C14-24.hex
  "$BIN" -s $f.asm -o /tmp/hunt3-C14-24.hex; echo "$f: exit $?, image md5 $(md5sum < /tmp/hunt3-C14-24.hex 2>/dev/null | cut -c1-12)"
done
rm -f /tmp/hunt3-C14-24.hex
