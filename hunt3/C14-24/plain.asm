.macro m0
.set x = 1
.set x = 1
.set x = 1
.set x = 1
.set x = 1
.set x = 1
.set x = 1
.set x = 1
.set x = 1
.set x = 1
.set x = 1
.set x = 1
.set x = 1
.set x = 1
.set x = 1
.set x = 1
.set x = 1
.set x = 1
.set x = 1
.set x = 1
.set x = 1
.set x = 1
.set x = 1
.set x = 1
.set x = 1
.set x = 1
.set x = 1
.set x = 1
.set x = 1
.set x = 1
.set x = 1
.set x = 1
.set x = 1
.set x = 1
.set x = 1
.set x = 1
.set x = 1
.set x = 1
.set x = 1
.set x = 1
.set x = 1
.set x = 1
.set x = 1
.set x = 1
.set x = 1
.set x = 1
.set x = 1
.set x = 1
.set x = 1
.set x = 1
.set x = 1
.set x = 1
.set x = 1
.set x = 1
.set x = 1
.set x = 1
.set x = 1
.set x = 1
.set x = 1
.set x = 1
.set x = 1
.set x = 1
.endmacro
.macro m1
m0
m0
m0
m0
m0
m0
m0
m0
m0
m0
m0
m0
m0
m0
m0
m0
.endmacro
.macro m2
m1
m1
m1
m1
m1
m1
m1
m1
m1
m1
m1
m1
m1
m1
m1
m1
.endmacro
.macro m3
m2
m2
m2
m2
m2
m2
m2
m2
m2
m2
m2
m2
m2
m2
m2
m2
.endmacro
.macro m4
m3
m3
m3
m3
m3
m3
m3
m3
m3
m3
m3
m3
m3
m3
m3
m3
.endmacro
m4
nop
