#!/bin/sh
# usage: run.sh /path/to/avra-rs
BIN=${1:-/tmp/hunt3-wt-2-target/debug/avra-rs}
cd "$(dirname "$0")"
echo "--- 129 terms (accepted):"; "$BIN" -s sum129.asm -o /tmp/hunt3-C16-22a.hex; echo "exit $?"
echo "--- 130 terms (refused: 'expression nested too deeply (definition that refers to itself?)'):"; "$BIN" -s sum130.asm -o /tmp/hunt3-C16-22b.hex; echo "exit $?"
