#!/bin/bash
# usage: run.sh /path/to/avra-rs
# main.asm: macros m0..m64, each calling the previous one (nesting 64, allowed); m0 includes inc0.inc, which starts
# a chain of 64 nested includes (allowed: MAX_INCLUDE_DEPTH 64); the last file holds one line that the nesting guard
# lets through (10 groups `1||1&&1|1^1&1==1<1<<1+1*(` = 120 open parser calls of the 128 allowed).
BIN=${1:-/tmp/hunt3-wt-2-target/debug/avra-rs}
cd "$(dirname "$0")"
( ulimit -s 2048; "$BIN" -s main.asm -o /tmp/hunt3-C16-23.hex; echo "exit status: $?  (134 = abort after stack overflow)" )
echo "--- includes alone (no macros): passes with 2048 KB, overflows with 1792 KB"
( ulimit -s 1792; "$BIN" -s includes_only.asm -o /tmp/hunt3-C16-23.hex; echo "exit status: $?" )
