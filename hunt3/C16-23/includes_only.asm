.include "inc0.inc"
