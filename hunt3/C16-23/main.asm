.macro m0
.include "inc0.inc"
.endm
.macro m1
m0
.endm
.macro m2
m1
.endm
.macro m3
m2
.endm
.macro m4
m3
.endm
.macro m5
m4
.endm
.macro m6
m5
.endm
.macro m7
m6
.endm
.macro m8
m7
.endm
.macro m9
m8
.endm
.macro m10
m9
.endm
.macro m11
m10
.endm
.macro m12
m11
.endm
.macro m13
m12
.endm
.macro m14
m13
.endm
.macro m15
m14
.endm
.macro m16
m15
.endm
.macro m17
m16
.endm
.macro m18
m17
.endm
.macro m19
m18
.endm
.macro m20
m19
.endm
.macro m21
m20
.endm
.macro m22
m21
.endm
.macro m23
m22
.endm
.macro m24
m23
.endm
.macro m25
m24
.endm
.macro m26
m25
.endm
.macro m27
m26
.endm
.macro m28
m27
.endm
.macro m29
m28
.endm
.macro m30
m29
.endm
.macro m31
m30
.endm
.macro m32
m31
.endm
.macro m33
m32
.endm
.macro m34
m33
.endm
.macro m35
m34
.endm
.macro m36
m35
.endm
.macro m37
m36
.endm
.macro m38
m37
.endm
.macro m39
m38
.endm
.macro m40
m39
.endm
.macro m41
m40
.endm
.macro m42
m41
.endm
.macro m43
m42
.endm
.macro m44
m43
.endm
.macro m45
m44
.endm
.macro m46
m45
.endm
.macro m47
m46
.endm
.macro m48
m47
.endm
.macro m49
m48
.endm
.macro m50
m49
.endm
.macro m51
m50
.endm
.macro m52
m51
.endm
.macro m53
m52
.endm
.macro m54
m53
.endm
.macro m55
m54
.endm
.macro m56
m55
.endm
.macro m57
m56
.endm
.macro m58
m57
.endm
.macro m59
m58
.endm
.macro m60
m59
.endm
.macro m61
m60
.endm
.macro m62
m61
.endm
.macro m63
m62
.endm
.macro m64
m63
.endm
m64
