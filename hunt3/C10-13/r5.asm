.macro var
.dseg
@0: .byte 1
.cseg
.endm
.dseg
.org 0x120
.cseg
var aa
ldi r17, high(aa)
ldi r18, low(aa)
