.macro codehere
.cseg
@0: nop
.endm
.org 0x10
.dseg
codehere t1
ldi r18, low(t1)
