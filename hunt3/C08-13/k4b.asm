.macro m
.ifndef FLAG
ldi r16, 2
.endif
.endm
m
#define FLAG
