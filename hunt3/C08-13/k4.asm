.macro m
.ifdef LATER
ldi r16, 1
.else
ldi r16, 2
.endif
.endm
m
.equ LATER = 1
