.device ATtiny13
.dseg
buf: .byte 64+1
