.device ATtiny13
.dseg
buf: .byte 65
