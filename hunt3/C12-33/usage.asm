; a: 3 bytes at 0x60, b at 0x63 -> ldi r16, 0x63 = 0xE603, RAM: 4 bytes
.device ATtiny13
.equ N = 3
.dseg
a: .byte N
b: .byte 1
.cseg
ldi r16, b
