#!/bin/sh
# usage: run.sh /path/to/avra-rs
# expected: over*.asm fail (65 > 64 bytes of RAM, 66 > 64 bytes of EEPROM) like control.asm does; usage.asm reports RAM: 4 bytes and emits 03E6
BIN=${1:-/tmp/hunt3-wt-3-target/debug/avra-rs}
cd "$(dirname "$0")"
for f in over over_literal over_eeprom usage control; do
  echo "== $f"; "$BIN" -v -s $f.asm -o /tmp/hunt3/C12-33/out.hex -e /tmp/hunt3/C12-33/out.eep.hex; echo "exit $?"
done
cat /tmp/hunt3/C12-33/out.hex 2>/dev/null
rm -f /tmp/hunt3/C12-33/out.hex /tmp/hunt3/C12-33/out.eep.hex
