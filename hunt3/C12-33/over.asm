; ATtiny13 has 64 bytes of RAM; 65 are reserved
.device ATtiny13
.equ N = 64
.dseg
buf: .byte N+1
