; 64 bytes of EEPROM; 2*33 = 66 are reserved
.device ATtiny13
.eseg
tab: .byte 2*33
