; the shipped file declares FLASHEND = 0x07FF for ATtiny28
.include "/tmp/hunt3-wt-3/includes/tn28def.inc"
.org FLASHEND
nop
