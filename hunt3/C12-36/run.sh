#!/bin/sh
# usage: run.sh /path/to/avra-rs [path/to/includes]; the .include line names /tmp/hunt3-wt-3/includes/tn28def.inc
BIN=${1:-/tmp/hunt3-wt-3-target/debug/avra-rs}
cd "$(dirname "$0")"
[ -n "$2" ] && sed -i "s#\"[^\"]*tn28def.inc\"#\"$2/tn28def.inc\"#" tn28.asm
"$BIN" -v -s tn28.asm -o /tmp/hunt3/C12-36/out.hex -e /tmp/hunt3/C12-36/out.eep.hex; echo "exit $?"
rm -f /tmp/hunt3/C12-36/out.hex /tmp/hunt3/C12-36/out.eep.hex
