#!/bin/sh
# usage: run.sh /path/to/avra-rs
BIN=${1:-/tmp/hunt3-wt-2-target/debug/avra-rs}
cd "$(dirname "$0")"
for f in same_case ref_lower; do echo "--- $f.asm"; "$BIN" -s $f.asm -o /tmp/hunt3-C14-22-$f.hex; echo "exit $?"; cat /tmp/hunt3-C14-22-$f.hex 2>/dev/null; rm -f /tmp/hunt3-C14-22-$f.hex; done
