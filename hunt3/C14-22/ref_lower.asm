#define BAUD 5
.dw baud
