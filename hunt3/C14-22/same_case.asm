#define BAUD 5
.dw BAUD
