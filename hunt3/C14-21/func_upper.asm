.equ foo = 0x1234
.equ x = low(foo)
.equ x = LOW(foo)
.dw x
