#!/bin/sh
# usage: run.sh /path/to/avra-rs
# 30 KB source: a macro body of 30000 empty lines, called 65536 times through four levels of 16 calls.
# Expected: ends promptly (a result or an error). Observed: still running after 120 s (about 26 min extrapolated).
BIN=${1:-/tmp/hunt3-wt-2-target/debug/avra-rs}
cd "$(dirname "$0")"
time timeout 120 "$BIN" -s blank.asm -o /tmp/hunt3-C16-21.hex
echo "exit status: $? (124 = killed by timeout)"
