; nothing is reserved in the data segment; behind the .org stands only a register alias
.device ATtiny13
.dseg
.org 0x70
.def temp = r16
.cseg
nop
