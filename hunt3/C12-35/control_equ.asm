; control: with .equ (or .message, .if 0 ... .endif) in the same place the build passes and RAM is 0
.device ATtiny13
nop
.org 0x201
.equ x = 1
