; one word of code on ATtiny13 (512 words); behind the .org stands only a #pragma, which places nothing
.device ATtiny13
nop
.org 0x201
#pragma AVRPART ADMIN PART_NAME ATtiny13
