.device ATtiny13
nop
.org 0x201
.set x = 1
