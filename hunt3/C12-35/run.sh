#!/bin/sh
# usage: run.sh /path/to/avra-rs ; expected: all build, Flash 1 word, RAM 0 bytes
BIN=${1:-/tmp/hunt3-wt-3-target/debug/avra-rs}
cd "$(dirname "$0")"
for f in pragma def_ram set_flash control_equ; do
  echo "== $f"; "$BIN" -v -s $f.asm -o /tmp/hunt3/C12-35/out.hex -e /tmp/hunt3/C12-35/out.eep.hex; echo "exit $?"
done
rm -f /tmp/hunt3/C12-35/out.hex /tmp/hunt3/C12-35/out.eep.hex
