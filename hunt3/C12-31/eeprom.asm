; ATtiny13: 64 bytes of EEPROM.  The two bytes belong at 63 and 64.
.device ATtiny13
.macro back
.eseg
.db 1, 2
.endmacro
.eseg
.org 63
.cseg
back
