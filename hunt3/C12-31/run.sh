#!/bin/sh
# usage: run.sh /path/to/avra-rs ; every one of the first three must FAIL the build (exit 1), the defect is exit 0
BIN=${1:-/tmp/hunt3-wt-3-target/debug/avra-rs}
cd "$(dirname "$0")"
for f in flash ram eeprom flat_flash; do
  "$BIN" -v -s $f.asm -o /tmp/hunt3/C12-31/$f.hex -e /tmp/hunt3/C12-31/$f.eep.hex; echo "$f: exit $?"
done
