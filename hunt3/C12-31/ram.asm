; ATtiny13: RAM 0x60..0x9f (64 bytes).  The two bytes belong at 0x9f and 0xa0: 65 bytes in use.
.device ATtiny13
.macro back
.dseg
.byte 2
.endmacro
.dseg
.org 0x9f
.cseg
back
