; the same text with the macro body written in place: refused, as it must be
.device ATtiny13
nop
.org 0x200
.dseg
.cseg
nop
