; ATtiny13: 512 words of flash.  The code after the .org belongs at 0x200, one word past the end.
.device ATtiny13
.macro back
.cseg
nop
.endmacro
nop
.org 0x200
.dseg
back
