.db "café"
