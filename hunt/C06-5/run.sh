#!/bin/bash
# usage: run.sh /path/to/avra-rs
BIN=${1:-/tmp/hunt-wt-6-target/debug/avra-rs}
cd "$(dirname "$0")"
for f in utf8_string_control latin1_string; do
  rm -f $f.hex
  "$BIN" -s $f.asm -o $f.hex -e $f.eep.hex; echo "$f rc=$?"
  [ -f $f.hex ] && sed 's/^/    /' $f.hex
done
echo "EXPECTED (if 'strings as their bytes' covers any byte content): latin1_string -> 63 61 66 e9; OBSERVED: build fails 'stream did not contain valid UTF-8'."
