.db "café"
