.macro emit
.cseg
 nop               ; expected at flash word 0
.dseg
.endm
.dseg
.org 0x100
a: .byte 1
 emit
b: .byte 1
.cseg
 .dw a, b          ; 0x0100, 0x0101
