.macro mkvar
.dseg
@0: .byte 1
.cseg
.endm
.org 0x100
 nop
 mkvar foo
 mkvar bar
l: nop
 .dw foo, bar, l   ; expected 0x0060, 0x0061, 0x0101
