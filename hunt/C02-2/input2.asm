.macro mkvar
.dseg
@0: .byte 1
.cseg
.endm
.org 0x100
 mkvar foo
x: nop
 .dw foo, x        ; expected 0x0060, 0x0100 - observed 0x0100, 0x0000
