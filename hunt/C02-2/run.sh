#!/bin/sh
# usage: run.sh /path/to/avra-rs
# 
BIN="${1:-/tmp/hunt-wt-2-target/debug/avra-rs}"
cd "$(dirname "$0")"
rm -f out.hex out.eep.hex
"$BIN" -s input.asm -o out.hex -e out.eep.hex -v
echo "exit status: $?"
for f in out.hex out.eep.hex; do [ -f "$f" ] && { echo "--- $f"; cat "$f"; }; done
echo "=== input2.asm"
rm -f out.hex out.eep.hex
"$BIN" -s input2.asm -o out.hex -e out.eep.hex -v
echo "exit status: $?"
for f in out.hex out.eep.hex; do [ -f "$f" ] && { echo "--- $f (last 3 records)"; tail -3 "$f"; }; done
echo "=== input3.asm"
rm -f out.hex out.eep.hex
"$BIN" -s input3.asm -o out.hex -e out.eep.hex -v
echo "exit status: $?"
for f in out.hex out.eep.hex; do [ -f "$f" ] && { echo "--- $f (last 3 records)"; tail -3 "$f"; }; done
exit 0
