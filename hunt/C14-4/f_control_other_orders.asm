        nop ; semicolon first /* block */ // slashes
        ldi r16, 1 // one ; two /* three */
lbl:    ; x /* only a label */
        rjmp lbl
