#!/bin/sh
BIN=${1:-/tmp/hunt-wt-1-target/debug/avra-rs}
D=$(dirname "$0")
for f in a_block b_block_then_semicolon c_block_then_slashes d_two_blocks e_block_then_blank f_control_other_orders; do
  echo "== $f =="; $BIN -s $D/$f.asm -o /tmp/hunt_c14_4_$f.hex -v; echo "exit=$?"; cat /tmp/hunt_c14_4_$f.hex 2>/dev/null; rm -f /tmp/hunt_c14_4_$f.hex
done
echo "expected: all identical (0000 01E0 FFCF); observed: b, c, d, e fail to parse line 1"
