        nop /* block */ // and a slash comment
        ldi r16, 1 /* one */
lbl:    /* only a label */
        rjmp lbl
