        nop /* block */ 
        ldi r16, 1 /* one */	
lbl:    /* only a label */  
        rjmp lbl
