        nop /* block */ ; and a semicolon comment
        ldi r16, 1 /* one */
lbl:    /* only a label */
        rjmp lbl
