 nop
.def tmp = 5
 nop
