.dseg
.org 0x100     ; sets the data location counter only
.cseg
 nop           ; expected at flash word 0
x: .dw x       ; expected x = 1
