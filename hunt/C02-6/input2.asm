.cseg
.org 0x10
.dseg
v: .byte 1     ; expected v = 0x60
.cseg
x: nop         ; expected at flash word 0x10
 .dw v, x
