#!/bin/bash
# usage: run.sh /path/to/avra-rs
B=${1:-/tmp/hunt-wt-9-target/debug/avra-rs}
cd "$(dirname "$0")"
echo "== duplicate_equ.asm"; rm -f duplicate_equ.hex duplicate_equ.eep.hex; $B -s duplicate_equ.asm -o duplicate_equ.hex -e duplicate_equ.eep.hex; echo "exit=$?"; [ -f duplicate_equ.hex ] && cat duplicate_equ.hex; [ -f duplicate_equ.eep.hex ] && { echo '-- eeprom'; cat duplicate_equ.eep.hex; }
