; duplicate .equ with different values
.equ K = 1
	ldi r16, K
.equ K = 2
	ldi r17, K
