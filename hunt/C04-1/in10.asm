        std -X, r5
