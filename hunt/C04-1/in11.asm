        std Y+, r5
