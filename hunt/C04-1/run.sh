#!/bin/bash
# usage: run.sh [path-to-avra-rs]
BIN=${1:-/tmp/hunt-wt-4-target/debug/avra-rs}
cd "$(dirname "$0")"
T=$(mktemp -d)
for f in in*.asm; do
  cp $f $T/p.asm; rm -f $T/p.hex
  "$BIN" -s $T/p.asm >/dev/null 2>&1; rc=$?
  data=$( [ -f $T/p.hex ] && sed -n 2p $T/p.hex | tr -d '\r' | cut -c10-13 )
  echo "$(cat $f | sed 's/^ *//') -> exit=$rc flash bytes(le)=${data:-none}   (expected: exit!=0, no output; LDD/STD only take Y+q / Z+q)"
done
rm -rf $T
