        std X, r5
