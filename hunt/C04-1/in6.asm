        ldd r5, Z+
