        ldd r5, Y+
