        std -Y, r5
