        std Z+, r5
