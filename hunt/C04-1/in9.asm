        std X+, r5
