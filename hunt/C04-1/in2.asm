        ldd r5, X+
