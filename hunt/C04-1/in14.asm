        std -Z, r5
