.macro m
 ldi r16, @0
.endm
 nop
 nop
 m nosuch
 nop
