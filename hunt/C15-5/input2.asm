.macro m
 ldi r16, @0
.endm
 nop
 nop
 m 300
 nop
