#!/bin/bash
# usage: run.sh /path/to/avra-rs
B=${1:-/tmp/hunt-wt-9-target/debug/avra-rs}
cd "$(dirname "$0")"
echo "== equ_in_body_macro.asm"; rm -f equ_in_body_macro.hex equ_in_body_macro.eep.hex; $B -s equ_in_body_macro.asm -o equ_in_body_macro.hex -e equ_in_body_macro.eep.hex; echo "exit=$?"; [ -f equ_in_body_macro.hex ] && cat equ_in_body_macro.hex; [ -f equ_in_body_macro.eep.hex ] && { echo '-- eeprom'; cat equ_in_body_macro.eep.hex; }
echo "== equ_in_body_inline.asm"; rm -f equ_in_body_inline.hex equ_in_body_inline.eep.hex; $B -s equ_in_body_inline.asm -o equ_in_body_inline.hex -e equ_in_body_inline.eep.hex; echo "exit=$?"; [ -f equ_in_body_inline.hex ] && cat equ_in_body_inline.hex; [ -f equ_in_body_inline.eep.hex ] && { echo '-- eeprom'; cat equ_in_body_inline.eep.hex; }
