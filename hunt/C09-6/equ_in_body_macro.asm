.macro defs
.equ BASE = @0
.endm
	defs 0x20
.org BASE
	nop
.if BASE > 1
	nop
.endif
