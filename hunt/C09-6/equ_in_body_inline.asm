.equ BASE = 0x20
.org BASE
	nop
.if BASE > 1
	nop
.endif

