.equ a = 1/0
 ldi r16, a
